"""C30 — emu-sv gradients equal finite differences of the emulated results, and are finite (DESIGN.md C30).

Proof (coq/Properties/C30.v): the sparse operators DHD{Omega,Delta,U,Phi}Sparse ARE the partial derivatives of
the Hamiltonian of C06 (all N, any commutative *-ring), the trace rearrangement used by backward, and
definedness of the reverse-mode gradient of PCHIP1D: no division by zero for the double-where variant (all knot
counts), refuted for the source as it is (flat segment => 0 * inf = NaN, finding F-16).
Ties, checked on every run:
  * Model/SvGrad.v == DHD*Sparse.__matmul__ exactly on Gaussian-integer batches (torch.exp rebound to prescribed
    exact values), 1..6 qubits;
  * Model/PchipAD.v (tape + torch's VJP rules, PrimFloat) == torch.autograd.grad through PCHIP1D: forward values
    bit-exact, NaN/inf/finite classification of every gradient entry exact, values within 1e-9; the model variant
    (with / without the double where) is selected by inspecting the source, fail closed.
Falsifier on the real code: torch.autograd through SVBackendImpl on hand-built SequenceData (1..6 atoms; losses from
occupations / final state / energy; gradients w.r.t. per-step Omega, delta, phi, U, initial state) against
(1) autograd through an independent dense matrix_exp evolution, every entry (primary oracle: exact derivative of the
exact evolution) and (2) central differences of the emulated result (forward at krylov tolerance 1e-13, because a
difference quotient amplifies the forward's tolerance-level error by 1/step); central differences through real Pulser
sequences with torch-parametrised waveforms; every gradient finite.  Open known finding: energy-gradient.
"""
import ast
import json
import logging
import math

from vlib import common

PCHIP_SRC = common.REPO / "emu_base/math/pchip_torch.py"
F16 = "pchip-nan-gradient"
ENERGY = "energy-gradient"
INPLACE = "intermediate-observable-gradient"
ZEROCOT = "zero-cotangent-raises"
FLATWF = "flat-waveform-gradient-wrong"
ZEROU = "interaction-gradient-missing-for-zero-coupling"
HEADER_AD = """From Coq Require Import ZArith List PrimFloat.
Import ListNotations.
From EV Require Import Base.Arith Model.Pchip Model.PchipAD.
Open Scope float_scope."""
HEADER_SV = """From Coq Require Import ZArith List Bool.
Import ListNotations.
From EV Require Import Model.SvBase Model.SvHam Model.SvGrad.
Open Scope Z_scope."""
# tolerances of the dense-reference oracle: param_grad_bound / state_grad_bound below (derived)
FD_RTOL = 1e-4      # central differences (step 1e-4, forward at krylov tolerance 1e-13), noise of the quotient itself:
FD_ATOL = 1e-7      # (observed <= 2e-8 relative); a difference quotient amplifies the forward's tolerance-level error by 1/step


def L(v):
    return "[" + "; ".join(common.float_lit(float(a)) for a in v) + "]"


# =====================================================================================================
# 1. which variant of pchip_torch.py is this?   (fail closed)
def pchip_source_variant():
    """-> (fixed: bool, problem: str | None).  fixed = the secants passed to _weighted_harmonic_mean are
    torch.where(mask_same_sign, delta_x, <ones>) ('double where'); original = delta_l, delta_r themselves."""
    src = PCHIP_SRC.read_text()
    tree = ast.parse(src)
    fn = next((n for n in tree.body if isinstance(n, ast.FunctionDef) and n.name == "_pchip_derivatives"), None)
    whm = next((n for n in tree.body if isinstance(n, ast.FunctionDef) and n.name == "_weighted_harmonic_mean"), None)
    if fn is None or whm is None:
        return False, "_pchip_derivatives / _weighted_harmonic_mean not found"
    body = [ast.unparse(s) for s in whm.body if not isinstance(s, ast.Expr)]
    if body != ["w_l = h_l + 2.0 * h_r", "w_r = 2.0 * h_l + h_r", "return (w_l + w_r) / (w_l / delta_l + w_r / delta_r)"]:
        return False, f"_weighted_harmonic_mean has an unknown body: {body}"
    calls = [n for n in ast.walk(fn) if isinstance(n, ast.Call) and ast.unparse(n.func) == "_weighted_harmonic_mean"]
    if len(calls) != 1 or len(calls[0].args) != 4 or calls[0].keywords:
        return False, "expected exactly one positional call of _weighted_harmonic_mean"
    args = [ast.unparse(a) for a in calls[0].args]
    assigns = {}
    for n in ast.walk(fn):
        if isinstance(n, ast.Assign) and len(n.targets) == 1 and isinstance(n.targets[0], ast.Name):
            assigns.setdefault(n.targets[0].id, []).append(ast.unparse(n.value))
    # the sign test itself is modelled by Model/Pchip.v same_sign_mask (tied bit-exactly by ./check C20); since
    # /repo 79a08c0 it compares torch.sign values instead of the sign of the product
    if assigns.get("mask_same_sign") != ["torch.sign(delta_l) * torch.sign(delta_r) > 0"]:
        return False, f"mask_same_sign is {assigns.get('mask_same_sign')}"
    wheres = [ast.unparse(n) for n in ast.walk(fn) if isinstance(n, ast.Call) and ast.unparse(n.func) == "torch.where"]
    final = "torch.where(mask_same_sign, dh, torch.zeros_like(dh))"
    if args == ["delta_l", "delta_r", "h_l", "h_r"]:
        if wheres == [final]:
            return False, None
        return False, f"unknown torch.where structure {wheres}"
    if args[2:] == ["h_l", "h_r"]:
        a, b = args[0], args[1]
        ok = (assigns.get(a) == ["torch.where(mask_same_sign, delta_l, torch.ones_like(delta_l))"] and
              assigns.get(b) == ["torch.where(mask_same_sign, delta_r, torch.ones_like(delta_r))"] and
              sorted(wheres) == sorted([final] + assigns[a] + assigns[b]))
        if ok:
            return True, None
    return False, f"unrecognised arguments of _weighted_harmonic_mean: {args}"


# =====================================================================================================
# 2. PCHIP gradient: real code, model, oracle
def pchip_impl(case):
    import torch
    from emu_base.math.pchip_torch import PCHIP1D

    x = torch.tensor(case["x"], dtype=torch.float64)
    y = torch.tensor(case["y"], dtype=torch.float64, requires_grad=True)
    q = torch.tensor(case["q"], dtype=torch.float64)
    w = torch.tensor(case["w"], dtype=torch.float64)
    out = PCHIP1D(x, y)(q)
    (g,) = torch.autograd.grad(out, y, grad_outputs=w)
    return [float(a) for a in out.detach()], [float(a) for a in g]


def pchip_forward(x, y, q):
    import torch
    from emu_base.math.pchip_torch import PCHIP1D

    with torch.no_grad():
        return PCHIP1D(torch.tensor(x, dtype=torch.float64), torch.tensor(y, dtype=torch.float64))(
            torch.tensor(q, dtype=torch.float64))


def mask_signature(x, y):
    """All data-dependent branch decisions of _pchip_derivatives, recomputed independently (plain floats)."""
    n = len(x)
    h = [x[i + 1] - x[i] for i in range(n - 1)]
    d = [(y[i + 1] - y[i]) / h[i] for i in range(n - 1)]
    sig = [d[i] * d[i + 1] > 0 for i in range(n - 2)]
    if n >= 3:
        sgn = lambda a: (a > 0) - (a < 0)  # noqa: E731
        for (s0, s1, h0, h1) in ((d[0], d[1], h[0], h[1]), (d[-1], d[-2], h[-1], h[-2])):
            e = ((2 * h0 + h1) * s0 - h0 * s1) / (h0 + h1)
            m1 = sgn(e) != sgn(s0)
            e1 = 0.0 if m1 else e
            sig += [m1, (s0 * s1 < 0) and abs(e1) > 3 * abs(s0)]
    return sig


FDSTAT = {"verdict": 0, "kink": 0, "not-converged": 0}


def cls(v):
    return "nan" if math.isnan(v) else ("inf" if math.isinf(v) else "fin")


def pchip_oracle(ctx, case, out, grad):
    """C30 on PCHIP1D: every gradient finite (finite data), and equal to central differences along
    directions that keep every branch decision fixed (PCHIP is only piecewise smooth in y)."""
    if not all(math.isfinite(v) for v in out):
        return
    bad = [i for i, g in enumerate(grad) if not math.isfinite(g)]
    if bad:
        xs, ys = case["x"], case["y"]
        sec = [(ys[i + 1] - ys[i]) / (xs[i + 1] - xs[i]) for i in range(len(ys) - 1)]
        flat = any(a == 0 for a in sec)
        masked = any(sec[i] * sec[i + 1] <= 0 for i in range(len(sec) - 1))  # knots whose harmonic mean is masked
        why = ("a flat segment" if flat else "a local extremum (secants of opposite sign)" if masked
               else "no masked interior knot")
        ctx.violation(f"torch.autograd.grad through PCHIP1D is not finite at y indices {bad[:6]} "
                      f"(grad = {[grad[i] for i in bad[:4]]}) for finite data with {why}: "
                      f"x={case['x'][:6]} y={case['y'][:6]}",
                      {"case": case, "finding_key": F16 if masked else "pchip-gradient-not-finite", "kind": "pchip",
                       "grad": [repr(g) for g in grad]})
        return
    x, y, q, w = case["x"], case["y"], case["q"], case["w"]
    scale = max(1.0, max(abs(v) for v in y))
    # the harmonic mean is strongly curved where secants are small: the step must be small against the smallest
    # non-zero increment of the data, and the quotient must not depend on the step
    incs = [abs(y[i + 1] - y[i]) for i in range(len(y) - 1) if y[i + 1] != y[i]]
    eps0 = min(1e-6 * scale, 1e-3 * min(incs)) if incs else 1e-6 * scale
    s0 = mask_signature(x, y)
    for dname, direction in case.get("directions", []):
        dmax = max(abs(b) for b in direction) or 1.0
        gs = max(1.0, max(abs(g) for g in grad)) * dmax
        tolfd = 1e-5 * gs * max(1.0, sum(abs(c) for c in w))
        ad = sum(g * b for g, b in zip(grad, direction))
        if list(direction) == list(y):
            # PCHIP is homogeneous of degree 1 in the data (C20, scale equivariance): the derivative along y itself is the
            # value of the loss, exactly - no difference quotient needed (a quotient along y perturbs an increment dy by
            # eps*dy, which for small increments is below the rounding of y: a false alarm of this oracle was traced to that)
            FDSTAT["euler"] = FDSTAT.get("euler", 0) + 1
            exact = sum(float(a) * c for a, c in zip(pchip_forward(x, y, q), w))
            if abs(exact - ad) > 1e-9 * gs * max(1.0, sum(abs(c) for c in w)):
                ctx.violation(f"PCHIP1D gradient along '{dname}' (the data itself) is {ad!r} but homogeneity of degree 1 gives "
                              f"the loss value {exact!r}",
                              {"case": case, "finding_key": "pchip-gradient-wrong", "kind": "pchip", "direction": dname})
                return
            continue
        # the quotient must resolve the change of every increment of the data: eps*|b[i+1]-b[i]| is either exactly zero or
        # far above the rounding of y (1e6 ulp), otherwise the perturbed secants are rounding noise
        eps_small = 0.25 * eps0 / dmax
        dinc = [eps_small * abs(direction[i + 1] - direction[i]) for i in range(len(direction) - 1)]
        if any(0.0 < v < 1e-10 * scale for v in dinc):
            FDSTAT["not-resolved"] = FDSTAT.get("not-resolved", 0) + 1
            continue
        fds = []
        for eps in (eps0 / dmax, 0.25 * eps0 / dmax):
            yp = [a + eps * b for a, b in zip(y, direction)]
            ym = [a - eps * b for a, b in zip(y, direction)]
            if mask_signature(x, yp) != s0 or mask_signature(x, ym) != s0:
                fds = None  # a kink of the interpolant: the derivative along this direction does not exist
                FDSTAT["kink"] += 1
                break
            fp, fm = pchip_forward(x, yp, q), pchip_forward(x, ym, q)
            fds.append(sum(float(a - b) * c for a, b, c in zip(fp, fm, w)) / (2 * eps))
        if fds is None:
            continue
        if abs(fds[0] - fds[1]) > 0.5 * tolfd:
            FDSTAT["not-converged"] += 1
            continue  # the difference quotient is not converged (curvature or rounding): no verdict from it
        FDSTAT["verdict"] += 1
        fd = fds[1]
        if abs(fd - ad) > tolfd:
            ctx.violation(f"PCHIP1D gradient along '{dname}' is {ad!r} but the central difference is {fd!r}",
                          {"case": case, "finding_key": "pchip-gradient-wrong", "kind": "pchip", "direction": dname})
            return


def gen_pchip_case(rng, nmax):
    from props import c20

    n = rng.choice([2, 3, 3, 4, 4, 5, 6, rng.randint(2, 12), rng.randint(2, nmax)])
    xk, x = c20.gen_knots(rng, n) if rng.random() < 0.5 else ("arange", [float(i) for i in range(n)])
    yk = rng.choice(["pulse", "pulse", "flatruns", "monotone", "gauss", "ints", "ramp", "flat_end", "const"])
    if yk == "pulse":  # what Pulser samples look like: zero, ramp up, plateau, ramp down, zero
        a, b = sorted(rng.sample(range(n + 1), 2)) if n >= 2 else (0, n)
        top = rng.choice([1.0, rng.uniform(0.5, 12.0)])
        y = [top if a <= i < b else 0.0 for i in range(n)]
        if rng.random() < 0.5 and n >= 4:
            y = [min(top, max(0.0, top * min(i - a + 1, b - i) / 2.0)) if a <= i < b else 0.0 for i in range(n)]
    elif yk == "const":
        y = [rng.choice([0.0, 1.0, rng.uniform(-3, 3)])] * n
    elif yk in ("flatruns", "monotone", "gauss", "ints", "ramp", "flat_end"):
        y = None
        for _ in range(20):
            k2, yy = c20.gen_values(rng, n)
            if k2 == yk:
                y = yy
                break
        if y is None:
            yk, y = "gauss", [rng.gauss(0, 1) for _ in range(n)]
    q = c20.gen_queries(rng, x, rng.choice([1, 3, 6]))
    if rng.random() < 0.4 and n >= 2:  # the adapter's query grid: midpoints of a coarser time grid
        step = rng.choice([1, 2, 3])
        q = [x[0] + (k + 0.5) * step * (x[-1] - x[0]) / max(n - 1, 1) for k in range(max(1, (n - 1) // step + 1))]
    w = [rng.choice([1.0, 1.0, -0.5, rng.gauss(0, 1)]) for _ in q]
    dirs = [("all samples together", [1.0] * n)]
    i = rng.randrange(n)
    dirs.append((f"sample {i}", [1.0 if k == i else 0.0 for k in range(n)]))
    dirs.append(("random", [rng.gauss(0, 1) for _ in range(n)]))
    dirs.append(("scale", list(y)))
    return {"kind": "gen", "xkind": xk, "ykind": yk, "x": x, "y": y, "q": q, "w": w, "directions": dirs}


# =====================================================================================================
# 3. DHD*Sparse: real code (exact data), model expressions, algebraic oracle on the real code
def dy(z):
    from props import c06
    return c06.dy(z)


def dyl(zs):
    return "[" + "; ".join(dy(z) for z in zs) + "]"


def gen_dhd_case(rng, N):
    from props import c06

    c = c06.gen_common(rng, N)
    mode = rng.choice(["real", "exact", "exact"])
    c.update(c06.gen_phases(rng, N, mode))
    if mode == "exact":  # directions exp(1j*(phi+pi/2)) as arbitrary Gaussian integers too
        c["EP"] = [c06._gi(rng, 3) for _ in range(N)]
    else:
        c["E"] = [[1, 0]] * N
        c["EP"] = [[0, 1]] * N
    B = rng.choice([1, 1, 2, 3, 5])
    c["B"] = B
    c["vec"] = [c06._gi(rng, 5) for _ in range(B * 2 ** N)]
    c["i"] = rng.randrange(N)
    c["j"] = rng.randrange(c["i"] + 1, N) if c["i"] + 1 < N else None
    c["t"] = rng.choice([1, 2, -3, 5])
    c["kind"] = "dhd"
    return c


def dhd_impl(c):
    """The four operators of the real code applied to the batch (exact on this data)."""
    import torch
    import emu_sv.time_evolution as te
    from props import c06

    N, i, j, B = c["N"], c["i"], c["j"], c["B"]
    vec = torch.tensor([c06.cplx(p) for p in c["vec"]], dtype=torch.complex128).view(B, 2 ** N)
    vec0 = vec.clone()
    phi = torch.tensor(c["phis"][i], dtype=torch.float64)
    omega = torch.tensor(float(c["omega"][i]), dtype=torch.float64)
    E = torch.tensor(c06.cplx(c["E"][i]), dtype=torch.complex128)
    EP = torch.tensor(c06.cplx(c["EP"][i]), dtype=torch.complex128)
    calls = []

    def fake_exp(arg):
        calls.append(complex(arg))
        # 1j*phi -> E ; 1j*(phi+pi/2) -> EP
        return EP.clone() if abs(complex(arg).imag - float(phi)) > 1.0 else E.clone()

    with c06._Rebind(te, {"exp": fake_exp}):
        out = {"omega": te.DHDOmegaSparse(i, vec.device, N, phi) @ vec,
               "phi": te.DHDPhiSparse(i, vec.device, N, omega, phi) @ vec,
               "delta": te.DHDDeltaSparse(i, N) @ vec}
        if j is not None:
            out["U"] = te.DHDUSparse(i, j, N) @ vec
    assert torch.equal(vec, vec0), "input mutated"
    return {k: [complex(a) for a in v.reshape(-1).tolist()] for k, v in out.items()}


def dhd_exprs(c, out):
    from props import c06

    N, i, j = c["N"], c["i"], c["j"]
    vec = dyl([c06.cplx(p) for p in c["vec"]])
    nz = "true" if c["phis"][i] != 0 else "false"
    e, ep, om = dy(c06.cplx(c["E"][i])), dy(c06.cplx(c["EP"][i])), dy(c["omega"][i])

    def cmp(term, key):
        return (f"match dhd_checked DyK {N}%nat {vec} ({term}) with Some r => dy_first_diff 0 r {dyl(out[key])} "
                f"| None => -3 end")

    ex = [cmp(f"dhd_omega DyK {N}%nat {i}%nat {nz} {e} {vec}", "omega"),
          cmp(f"dhd_phi DyK {N}%nat {i}%nat {om} {ep} {vec}", "phi"),
          cmp(f"dhd_delta DyK {N}%nat {i}%nat {vec}", "delta")]
    if j is not None:
        ex.append(cmp(f"dhd_U DyK {N}%nat {i}%nat {j}%nat {vec}", "U"))
    return ex


def dhd_oracle(ctx, c, out):
    """On the real code, exactly (integer data): H(theta + t e) v - H(theta) v == t * DHD v for the first batch row."""
    import torch
    import emu_sv.hamiltonian as hm
    import emu_sv.time_evolution as te
    from props import c06

    N, i, j, t = c["N"], c["i"], c["j"], c["t"]
    D = 2 ** N
    v = torch.tensor([c06.cplx(p) for p in c["vec"][:D]], dtype=torch.complex128)
    om = torch.tensor(c["omega"], dtype=torch.float64)
    de = torch.tensor(c["delta"], dtype=torch.float64)
    ph = torch.tensor(c["phis"], dtype=torch.float64)
    U = torch.tensor(c["U"], dtype=torch.float64)
    Eall = torch.tensor([c06.cplx(p) for p in c["E"]], dtype=torch.complex128)

    def H(om_, de_, U_):
        with c06._Rebind(hm, {"exp": lambda x: Eall.clone()}):
            return hm.RydbergHamiltonian(omegas=om_, deltas=de_, phis=ph, interaction_matrix=U_, device="cpu") * v

    base = H(om, de, U)
    e_i = torch.zeros(N, dtype=torch.float64)
    e_i[i] = t
    checks = [("omega", H(om + e_i, de, U) - base), ("delta", H(om, de + e_i, U) - base)]
    if j is not None:
        U2 = U.clone()
        U2[i, j] += t
        checks.append(("U", H(om, de, U2) - base))
        U3 = U.clone()
        U3[j, i] += t  # lower triangle: not read
        if not torch.equal(H(om, de, U3), base):
            ctx.violation("RydbergHamiltonian depends on the lower triangle of the interaction matrix, whose "
                          "gradient backward leaves at zero", {"case": c, "finding_key": "dhd-lower-U", "kind": "dhd"})
    for key, diff in checks:
        want = [t * a for a in out[key][:D]]
        got = [complex(a) for a in diff.tolist()]
        if got != want:
            k = next(n for n, (a, b) in enumerate(zip(got, want)) if a != b)
            ctx.violation(f"DHD{key.capitalize()}Sparse is not the partial derivative of RydbergHamiltonian: "
                          f"H(+{t} e_{i}) v - H v = {got[k]} but t * dH v = {want[k]} at index {k}, N={N}",
                          {"case": c, "finding_key": "dhd-" + key, "kind": "dhd"})
    # phi: with e_i -> e_i + t*EP_i the difference is t * DHDPhi (torch.exp rebound in both)
    E2 = Eall.clone()
    E2[i] = E2[i] + t * c06.cplx(c["EP"][i])
    if any(p != 0 for p in c["phis"]):  # the general path reads e
        with c06._Rebind(hm, {"exp": lambda x: E2.clone()}):
            h2 = hm.RydbergHamiltonian(omegas=om, deltas=de, phis=ph, interaction_matrix=U, device="cpu") * v
        got = [complex(a) for a in (h2 - base).tolist()]
        want = [t * a for a in out["phi"][:D]]
        if got != want:
            ctx.violation(f"DHDPhiSparse is not the derivative of RydbergHamiltonian along exp(i(phi+pi/2)), N={N}",
                          {"case": c, "finding_key": "dhd-phi", "kind": "dhd"})
    del te


# =====================================================================================================
# 4. finite differences against autograd through the real emu-sv backend
def _problem_tensors(spec):
    import torch

    t = {k: torch.tensor(spec[k], dtype=torch.float64) for k in ("omega", "delta", "phi", "U")}
    if spec.get("psi0") is not None:
        t["psi0"] = torch.tensor([complex(a, b) for a, b in spec["psi0"]], dtype=torch.complex128)
    return t


def sv_loss(spec, tens, leaves=None):
    """One noiseless emu-sv run on hand-built SequenceData; returns the scalar loss (a torch tensor)."""
    import torch
    from emu_base.pulser_adapter import HamiltonianType, SequenceData
    from emu_sv import Energy, Occupation, StateVector, SVConfig
    from emu_sv.sv_backend_impl import SVBackendImpl

    n = spec["n"]
    c = torch.complex128
    U = tens["U"]
    data = SequenceData(tens["omega"].to(c), tens["delta"].to(c), tens["phi"].to(c), lambda t: U,
                        tuple(f"q{i}" for i in range(n)), tuple(False for _ in range(n)), [], 0.0,
                        list(spec["times"]), ["r", "g"], HamiltonianType.Rydberg)
    nt = len(spec["times"]) - 1
    ets = [1.0]
    if spec["loss"] == "occupation-mid":  # also an occupation recorded before the end of the run
        ets = sorted({1.0, spec["times"][max(1, nt // 2)] / spec["times"][-1]})
    obs = [Occupation(evaluation_times=ets)]
    if spec["loss"] == "energy":
        obs.append(Energy(evaluation_times=[1.0]))
    kw = {}
    if "psi0" in tens:
        kw["initial_state"] = StateVector(tens["psi0"], gpu=False)
    cfg = SVConfig(dt=10, gpu=False, log_level=logging.ERROR, krylov_tolerance=spec.get("krylov_tolerance", 1e-10),
                   observables=obs, **kw)
    if "psi0" in tens and leaves is not None:
        # the config copies the state it is given: differentiate w.r.t. the tensor the backend will read
        leaves["psi0"] = cfg.initial_state.data.requires_grad_(True)
    impl = SVBackendImpl(cfg, data)
    res = impl._run()
    wv = torch.tensor(spec["weights"], dtype=torch.float64)
    if spec["loss"] in ("occupation", "occupation-mid"):
        return sum((o * wv[:n]).sum() * (k + 1) for k, o in enumerate(res.occupation))
    if spec["loss"] == "energy":
        return res.energy[-1]
    psi = impl.state.data
    D = psi.numel()
    a = wv[n:n + D]
    b = wv[n + D:n + 2 * D]
    if spec["loss"] == "state":
        return (psi.real * a).sum() + (psi.imag * b).sum()
    target = torch.complex(a, b)
    target = target / target.norm()
    return torch.abs(torch.vdot(target, psi)) ** 2  # fidelity with a fixed state


def gen_sv_spec(rng, n, steps, loss, phimode):
    import numpy as np
    from props import _dense_ref as D

    prob = D.random_problem(rng, n, steps, dt=rng.choice([5.0, 10.0, 20.0]), local=rng.random() < 0.7,
                            phases=(phimode == "nonzero"))
    om, de, ph = prob["omega"], prob["delta"], prob["phi"]
    if rng.random() < 0.4:  # flat / constant / zero segments
        k = rng.randrange(steps)
        om[k:] = om[k]
        de[:k + 1] = de[k]
    if rng.random() < 0.2:
        om[rng.randrange(steps)] = 0.0
    if phimode == "mixed":  # some phases exactly zero (DHDOmega fast path next to the general one)
        ph = np.where(np.array([[rng.random() < 0.5 for _ in range(n)] for _ in range(steps)]), 0.0,
                      np.array([[rng.uniform(-2, 2) for _ in range(n)] for _ in range(steps)]))
    U = np.triu(prob["U"], 1)
    U = U + U.T
    D_ = 2 ** n
    psi0 = None
    if rng.random() < 0.5:
        v = [complex(rng.gauss(0, 1), rng.gauss(0, 1)) for _ in range(D_)]
        nv = math.sqrt(sum(abs(a) ** 2 for a in v))
        psi0 = [[a.real / nv, a.imag / nv] for a in v]
    return {"kind": "sv", "n": n, "steps": steps, "times": list(prob["times"]), "loss": loss, "phimode": phimode,
            "omega": om.tolist(), "delta": de.tolist(), "phi": np.asarray(ph).tolist(), "U": U.tolist(), "psi0": psi0,
            "weights": [rng.uniform(-1, 1) for _ in range(n + 2 * D_)]}


def gen_sv_annihilation(rng, n, variant):
    """Exact-annihilation situations for the two Lanczos runs of backward (on the state and on the cotangent):
    H psi = 0 exactly, psi an exact eigenvector, H = 0 steps, cotangent a basis vector."""
    steps = rng.choice([2, 3, 4])
    loss = rng.choice(["state", "fidelity", "occupation", "occupation-mid"])
    spec = gen_sv_spec(rng, n, steps, loss, rng.choice(["zero", "nonzero", "mixed"]))
    D_ = 2 ** n
    zero_row = [0.0] * n
    spec["variant"] = variant
    if rng.random() < 0.4:
        spec["U"] = [[0.0] * n for _ in range(n)]
    if variant == "lead-zero-omega":      # default |g..g>, amplitude zero on every atom in the first step(s): H psi = 0
        spec["psi0"] = None
        k = rng.choice([1, 1, 2]) if steps > 2 else 1
        dmode = rng.choice(["zero", "nonzero"])
        for s_ in range(k):
            spec["omega"][s_] = list(zero_row)
            if dmode == "zero":
                spec["delta"][s_] = list(zero_row)
    elif variant == "all-idle":           # nothing ever happens: occupations stay 0 and every gradient is exactly 0
        spec["psi0"] = None
        spec["loss"] = rng.choice(["occupation", "occupation-mid"])
        spec["omega"] = [list(zero_row) for _ in range(steps)]
    elif variant == "zero-H-step":        # a step with H = 0 (needs U = 0), any position, any state
        spec["U"] = [[0.0] * n for _ in range(n)]
        s_ = rng.randrange(steps)
        spec["omega"][s_] = list(zero_row)
        spec["delta"][s_] = list(zero_row)
        if rng.random() < 0.5:
            spec["psi0"] = None
    elif variant == "eigen-psi0":         # a basis state and a diagonal first step: exact eigenvector (energy 0 or not)
        b = rng.randrange(D_)
        spec["psi0"] = [[1.0 if i == b else 0.0, 0.0] for i in range(D_)]
        spec["omega"][0] = list(zero_row)
        if rng.random() < 0.5:
            spec["delta"][0] = list(zero_row)
    elif variant == "basis-cotangent":    # loss = one amplitude of the final state, last step diagonal: H g = E g
        spec["loss"] = "state"
        b = rng.choice([0, rng.randrange(D_)])
        spec["weights"] = [0.0] * n + [1.0 if i == b else 0.0 for i in range(D_)] + [0.0] * D_
        spec["omega"][-1] = list(zero_row)
        if rng.random() < 0.5:
            spec["delta"][-1] = list(zero_row)
    else:
        raise ValueError(variant)
    return spec


SV_ANNIHILATION = ("lead-zero-omega", "lead-zero-omega", "zero-H-step", "eigen-psi0", "basis-cotangent", "all-idle")


def gen_sv_sparse_U(rng, n, pattern):
    """Interaction matrices with exact zeros (dH/dU_ij = n_i n_j does not depend on the value of U_ij, C30_dH_dU_linear):
    chain, star, two clusters, all-zero, a single zero entry.  Random initial state and strong drives, so that every
    pair (i, j) has a sizeable gradient."""
    steps = rng.choice([2, 3])
    spec = gen_sv_spec(rng, n, steps, rng.choice(["state", "fidelity", "occupation"]), rng.choice(["zero", "nonzero"]))
    D_ = 2 ** n
    v = [complex(rng.gauss(0, 1), rng.gauss(0, 1)) for _ in range(D_)]
    nv = math.sqrt(sum(abs(a) ** 2 for a in v))
    spec["psi0"] = [[a.real / nv, a.imag / nv] for a in v]
    pairs = [(i, j) for i in range(n) for j in range(i + 1, n)]
    if pattern == "chain":
        keep = {(i, i + 1) for i in range(n - 1)} if n > 2 else set()
    elif pattern == "star":
        keep = {(0, j) for j in range(1, n)} if n > 2 else set()
    elif pattern == "clusters":
        h = max(1, n // 2)
        keep = {(i, j) for (i, j) in pairs if (i < h) == (j < h)}
    elif pattern == "all-zero":
        keep = set()
    elif pattern == "single-zero":
        keep = set(pairs) - {rng.choice(pairs)}
    else:
        raise ValueError(pattern)
    U = [[0.0] * n for _ in range(n)]
    for (i, j) in keep:
        U[i][j] = U[j][i] = rng.uniform(0.5, 6.0)
    spec["U"] = U
    spec["variant"] = "sparse-U:" + pattern
    return spec


SPARSE_U = ("chain", "star", "clusters", "all-zero", "single-zero")


def _expm(A):
    """Matrix exponential by scaling and squaring with a degree-18 Taylor polynomial of A / 2^k, |A / 2^k|_1 <= 1/4
    (truncation 0.25^19 / 19! ~ 3e-29; plain differentiable torch operations).  torch.linalg.matrix_exp is only accurate to
    ~1e-10 on these matrices (measured against scipy.linalg.expm, which agrees with emu-sv to 1e-14)."""
    import torch

    nrm = float(A.detach().abs().sum(dim=0).max())
    k = max(0, math.ceil(math.log2(nrm / 0.25))) if nrm > 0.25 else 0
    B = A / (2.0 ** k)
    eye = torch.eye(A.shape[0], dtype=A.dtype)
    T = eye
    for m in range(18, 0, -1):
        T = eye + (B @ T) / m
    for _ in range(k):
        T = T @ T
    return T


def dense_ref_loss(spec, tens):
    """Independent reference: the same piecewise-constant evolution with the matrix exponential (_expm) of the dense
    Hamiltonian (float64, ordinary autograd; documented convention, shares no code with /repo) and the same loss."""
    import torch

    n, c = spec["n"], torch.complex128
    sx = torch.tensor([[0, 1], [1, 0]], dtype=c)
    sy = torch.tensor([[0, -1j], [1j, 0]], dtype=c)
    nn = torch.tensor([[0, 0], [0, 1]], dtype=c)
    eye = torch.eye(2, dtype=c)

    def emb(ops):
        out = torch.ones(1, 1, dtype=c)
        for q in range(n):
            out = torch.kron(out, ops.get(q, eye))
        return out

    SX, SY, NN = [emb({j: sx}) for j in range(n)], [emb({j: sy}) for j in range(n)], [emb({j: nn}) for j in range(n)]
    NN2 = {(i, j): NN[i] @ NN[j] for i in range(n) for j in range(i + 1, n)}

    def ham(s):
        H = torch.zeros(2 ** n, 2 ** n, dtype=c)
        for j in range(n):
            H = H + 0.5 * tens["omega"][s, j] * (torch.cos(tens["phi"][s, j]) * SX[j] + torch.sin(tens["phi"][s, j]) * SY[j])
            H = H - tens["delta"][s, j] * NN[j]
        for (i, j), m in NN2.items():
            H = H + tens["U"][i, j] * m
        return H

    if "psi0" in tens:
        psi = tens["psi0"].to(c)
    else:
        psi = torch.zeros(2 ** n, dtype=c)
        psi[0] = 1.0
    times, states, H = spec["times"], [], None
    for s in range(spec["steps"]):
        H = ham(s)
        psi = _expm(-1j * (times[s + 1] - times[s]) * 1e-3 * H) @ psi
        states.append(psi)
    wv = torch.tensor(spec["weights"], dtype=torch.float64)

    def occ(p):
        pr = (p.conj() * p).real
        return torch.stack([(NN[j].diagonal().real * pr).sum() for j in range(n)])

    if spec["loss"] in ("occupation", "occupation-mid"):
        idx = [spec["steps"]]
        if spec["loss"] == "occupation-mid":
            idx = sorted({max(1, spec["steps"] // 2), spec["steps"]})
        return sum((occ(states[m - 1]) * wv[:n]).sum() * (k + 1) for k, m in enumerate(idx))
    if spec["loss"] == "energy":  # the backend evaluates the Hamiltonian of the last step
        return torch.vdot(psi, H @ psi).real
    D = psi.numel()
    a, b = wv[n:n + D], wv[n + D:n + 2 * D]
    if spec["loss"] == "state":
        return (psi.real * a).sum() + (psi.imag * b).sum()
    target = torch.complex(a, b)
    target = target / target.norm()
    return torch.abs(torch.vdot(target, psi)) ** 2


def param_grad_bound(tol, steps):
    """Relative (to the full parameter-gradient scale) error the backend's gradient may have at Krylov tolerance
    tol.  Each step's Lanczos runs stop at the dimension m where the estimated error of exp(A)v, about
    a^m/m! with a = |A - <A>| = dt |H - <H>|, drops below tol.  The Frechet derivative assembled from two
    m-dimensional Krylov spaces (double_krylov) then lacks terms of RELATIVE size r ~ a^(m-1)/(m-1)!, i.e.
    r <= m tol / a and r <= a^(m-1)/(m-1)!.  The larger of the two bounds is smallest at m = 2, a^2 = 2 tol:
    r <= sqrt(2 tol) per step (measured on /repo by sweeping a over 12 decades at tol = 1e-8, 1e-10, 1e-12: worst
    r = 0.90 sqrt(tol), reached for nearly idle steps; r ~ tol when a is O(1)).  Entries shared by all steps (U,
    waveform parameters) collect one such term per step.  Safety factor 4."""
    return 4.0 * steps * math.sqrt(2.0 * tol)


def state_grad_bound(tol, steps):
    """grad w.r.t. the initial state = product of krylov_exp(+iA) applications, each within tol: steps * tol,
    safety factor 1e3 (>= 1e6 x rounding for tol >= 1e-13)."""
    return 1e3 * steps * tol


GRAD_ATOL = 1e-9    # 1e7 x binary64 rounding of an O(1) loss; the dense matrix_exp reference itself is only good to ~2e-10 on the
                    # gradient (observed 1.8e-10 at Krylov tolerance 1e-13 on a 1-atom 4-step run: F-22, torch matrix_exp floor)
TIGHT_TOL = 1e-13   # every case is also differentiated at this Krylov tolerance, where the bound is 1.8e-6 * steps


def _backend_grads(spec, names):
    import torch

    tens = _problem_tensors(spec)
    for t in tens.values():
        t.requires_grad_(True)
    leaves = dict(tens)
    loss = sv_loss(spec, tens, leaves)
    grads = torch.autograd.grad(loss, [leaves[k] for k in names], allow_unused=True)
    return loss, {k: (g if g is not None else torch.zeros_like(tens[k])) for k, g in zip(names, grads)}


def sv_grad_check(ctx, spec, max_fd=6):
    """torch.autograd through the real backend, at the case's Krylov tolerance and at TIGHT_TOL, against
    (1) autograd through the independent dense reference, every entry of every block, within the derived bound, and
    (2) central differences of the emulated result on a few entries."""
    import torch

    rng = ctx.rng
    base_t = _problem_tensors(spec)
    names = list(base_t)
    steps = spec["steps"]
    tol0 = spec.get("krylov_tolerance", 1e-10)
    summary = {"loss": spec["loss"], "n": spec["n"], "steps": steps, "phimode": spec["phimode"],
               "psi0": spec["psi0"] is not None}
    energy = spec["loss"] == "energy"
    # dense autograd reference: exact derivative of the exact evolution
    rt = _problem_tensors(spec)
    for t in rt.values():
        t.requires_grad_(True)
    rloss = dense_ref_loss(spec, rt)
    rgr = torch.autograd.grad(rloss, [rt[k] for k in names], allow_unused=True)
    rgr = {k: (g if g is not None else torch.zeros_like(rt[k])) for k, g in zip(names, rgr)}
    par = [k for k in names if k != "psi0"]
    S_par = max(1e-3, max(float(rgr[k].abs().max()) for k in par))     # full parameter-gradient scale
    S_psi = max(1e-3, float(rgr["psi0"].abs().max())) if "psi0" in rgr else 1.0
    summary["worst_fraction_of_bound"] = 0.0

    def allowed(k, tol):
        if k == "psi0":
            return state_grad_bound(tol, steps) * S_psi + GRAD_ATOL
        return param_grad_bound(tol, steps) * S_par + GRAD_ATOL

    grads = None
    for tol in (tol0, TIGHT_TOL):
        tspec = dict(spec, krylov_tolerance=tol)
        try:
            loss, grads = _backend_grads(tspec, names)
        except Exception as ex:  # noqa: BLE001
            key = "sv-gradient-raises"
            if energy and isinstance(ex, TypeError) and "argument 'alpha' must be Number" in str(ex):
                key = ENERGY  # part (c) of the known finding, nothing else
            if spec["loss"] == "occupation-mid" and "modified by an inplace operation" in str(ex):
                key = INPLACE
            why = ""
            if isinstance(ex, RecursionError) and all(float(rgr[k].abs().max()) == 0.0 for k in names):
                key = ZEROCOT  # the true gradient is exactly zero: the cotangent handed to backward is the zero vector
                why = " [every gradient is exactly 0: backward starts Lanczos from the zero cotangent]"
            ctx.violation(f"differentiating the {spec['loss']} loss of a noiseless emu-sv run raised "
                          f"{type(ex).__name__}: {str(ex)[:160]} (n={spec['n']}, phases {spec['phimode']}, "
                          f"krylov tolerance {tol:g}){why}", {"case": tspec, "finding_key": key, "kind": "sv"})
            summary["outcome"] = "raised"
            return summary
        for k, g in grads.items():
            if not bool(torch.isfinite(torch.view_as_real(g) if g.is_complex() else g).all()):
                ctx.violation(f"gradient of the {spec['loss']} loss w.r.t. {k} is not finite",
                              {"case": tspec, "finding_key": "sv-gradient-not-finite", "kind": "sv"})
                summary["outcome"] = "not-finite"
                return summary
        if tol == tol0:
            summary["forward_vs_dense"] = abs(float(loss) - float(rloss))
        if energy and spec["phimode"] == "zero" and steps >= 2:
            # nothing may hide behind the known energy finding: with all phases zero its only effect is the missing
            # explicit term <psi|dH/dtheta|psi> of the LAST step (and of U); the rows of the earlier steps must agree
            for k in ("omega", "delta", "phi"):
                diff = (grads[k][:-1] - rgr[k][:-1]).abs()
                if float(diff.max()) > allowed(k, tol):
                    ix = tuple(torch.nonzero(diff == diff.max())[0].tolist())
                    ctx.violation(f"gradient of the energy loss w.r.t. {k}{list(ix)} (not the last step) is "
                                  f"{complex(grads[k][ix])!r} but the dense reference gives {complex(rgr[k][ix])!r} "
                                  f"(n={spec['n']}, steps={steps}, phases zero, krylov tolerance {tol:g})",
                                  {"case": tspec, "finding_key": "sv-gradient-wrong", "kind": "sv",
                                   "entry": [k, list(ix)], "oracle": "dense autograd"})
                    summary["outcome"] = "mismatch"
                    return summary
        gl = torch.tril(grads["U"])
        if bool((gl != 0).any()):  # C30_dH_dU_lower_is_zero: H does not read the diagonal / lower triangle
            ix = tuple(torch.nonzero(gl)[0].tolist())
            ctx.violation(f"gradient w.r.t. the interaction matrix entry {list(ix)} (diagonal / lower triangle, which the "
                          f"Hamiltonian does not read) is {float(gl[ix])!r}, not exactly 0",
                          {"case": tspec, "finding_key": "interaction-gradient-lower-triangle-nonzero", "kind": "sv"})
            summary["outcome"] = "mismatch"
            return summary
        zu = (base_t["U"] == 0) & (grads["U"] == 0) & torch.triu(torch.ones_like(base_t["U"]), 1).bool()
        dz = (rgr["U"].abs() * zu)
        if not energy and bool((dz > allowed("U", tol)).any()):
            ix = tuple(torch.nonzero(dz == dz.max())[0].tolist())
            ctx.violation(f"gradient of the {spec['loss']} loss w.r.t. U{list(ix)} is exactly 0 where the coupling is "
                          f"exactly 0, but dH/dU_ij = n_i n_j does not depend on the value: the dense reference gives "
                          f"{float(rgr['U'][ix])!r} (n={spec['n']}, steps={steps}, U = {spec['U']})",
                          {"case": tspec, "finding_key": ZEROU, "kind": "sv", "entry": ["U", list(ix)],
                           "oracle": "dense autograd"})
            summary["outcome"] = "mismatch"
            return summary
        for k in names:
            diff = (grads[k] - rgr[k]).abs()
            err = float(diff.max())
            summary["worst_fraction_of_bound"] = max(summary["worst_fraction_of_bound"], err / allowed(k, tol))
            if err > allowed(k, tol):
                ix = tuple(torch.nonzero(diff == diff.max())[0].tolist())
                ctx.violation(f"gradient of the {spec['loss']} loss w.r.t. {k}{list(ix)} is {complex(grads[k][ix])!r} "
                              f"but autograd through the dense reference evolution gives {complex(rgr[k][ix])!r}: "
                              f"difference {err:.3g} > allowed {allowed(k, tol):.3g} (n={spec['n']}, steps={steps}, "
                              f"phases {spec['phimode']}, krylov tolerance {tol:g}, parameter-gradient scale {S_par:.3g})",
                              {"case": tspec, "finding_key": ENERGY if energy else "sv-gradient-wrong", "kind": "sv",
                               "entry": [k, list(ix)], "oracle": "dense autograd"})
                summary["outcome"] = "mismatch"
                return summary
    # (2) central differences of the emulated result itself, forward and gradient at TIGHT_TOL (the forward is only
    # defined up to its tolerance, and tolerance / step is what a difference quotient amplifies)
    fspec = dict(spec, krylov_tolerance=TIGHT_TOL)
    worst_fd = 0.0
    with torch.no_grad():
        base = {k: v.detach().clone() for k, v in base_t.items()}
        entries = []
        for k in names:
            idxs = [tuple(ix) for ix in torch.nonzero(torch.ones(base[k].shape)).tolist()]
            if k == "U":
                idxs = [ix for ix in idxs if ix[0] < ix[1]]
            if idxs:
                entries.append((k, rng.choice(idxs)))
        rng.shuffle(entries)
        for k, ix in entries[:max_fd]:
            scale = S_psi if k == "psi0" else S_par
            eps = 1e-4 * max(1.0, float(base[k].abs().max()))
            vals = []
            for sgn in (+1, -1):
                tt = {m: v.clone() for m, v in base.items()}
                tt[k][ix] = tt[k][ix] + sgn * eps
                vals.append(float(sv_loss(fspec, tt)))
            fd = (vals[0] - vals[1]) / (2 * eps)
            g = grads[k][ix]
            ad = float(g.real) if g.is_complex() else float(g)
            err = abs(fd - ad)
            lim = allowed(k, TIGHT_TOL) + FD_RTOL * scale + FD_ATOL
            worst_fd = max(worst_fd, err / lim)
            if err > lim:
                ctx.violation(f"gradient of the {spec['loss']} loss w.r.t. {k}{list(ix)} is {ad!r} but the central "
                              f"difference of the emulated result is {fd!r} (n={spec['n']}, steps={steps}, "
                              f"phases {spec['phimode']}, krylov tolerance {TIGHT_TOL:g}, allowed {lim:.3g})",
                              {"case": fspec, "finding_key": ENERGY if energy else "sv-gradient-wrong", "kind": "sv",
                               "entry": [k, list(ix)], "ad": ad, "fd": fd, "oracle": "central difference"})
                summary["outcome"] = "mismatch"
                return summary
    summary["outcome"] = "ok"
    summary["worst_fd_fraction_of_bound"] = worst_fd
    return summary


# ---- real Pulser sequences with torch-parametrised waveforms --------------------------------------------------
def seq_loss(spec, params, krylov_tolerance=1e-10):
    import torch
    from pulser import Pulse, Register, Sequence
    from pulser.devices import MockDevice
    from pulser.waveforms import (BlackmanWaveform, ConstantWaveform, CustomWaveform, InterpolatedWaveform,
                                  RampWaveform)
    from emu_sv import Occupation, SVBackend, SVConfig

    n = spec["n"]
    reg = Register({f"q{i}": (float(spec["spacing"]) * i, 0.0) for i in range(n)})
    seq = Sequence(reg, MockDevice)
    seq.declare_channel("ch", "rydberg_global")
    p = iter(params)
    for seg in spec["segments"]:
        T = seg["T"]
        if seg.get("delay"):
            seq.delay(T, "ch")
            continue

        def wf(kind):
            if kind == "const":
                return ConstantWaveform(T, next(p))
            if kind == "ramp":
                return RampWaveform(T, next(p), next(p))
            if kind == "blackman":
                return BlackmanWaveform(T, next(p))
            if kind == "zero":  # a literal zero amplitude (detuning-only pulse)
                return ConstantWaveform(T, 0.0)
            if kind == "custom":  # one parameter per sample
                return CustomWaveform(torch.stack([torch.as_tensor(next(p), dtype=torch.float64) for _ in range(T)]))
            if kind == "interp":  # three interpolation values
                return InterpolatedWaveform(T, torch.stack([torch.as_tensor(next(p), dtype=torch.float64)
                                                            for _ in range(3)]))
            raise ValueError(kind)

        amp = wf(seg["amp"])
        det = wf(seg["det"])
        seq.add(Pulse(amp, det, float(seg["phase"])), "ch")
    cfg = SVConfig(dt=spec["dt"], gpu=False, log_level=logging.ERROR, krylov_tolerance=krylov_tolerance,
                   observables=[Occupation(evaluation_times=[1.0])])
    res = SVBackend(seq, config=cfg).run()
    wv = torch.tensor(spec["weights"][:n], dtype=torch.float64)
    return (res.occupation[-1] * wv).sum()


def gen_seq_spec(rng, lead=None):
    """lead = "delay" / "detuning_only": the sequence starts with a wait (amplitude exactly zero on the default
    ground state, H psi = 0 in the first steps), the standard way of writing 'wait, then pulse'."""
    n = rng.choice([1, 2, 2, 3]) if lead is None else rng.choice([1, 2, 3, 4])
    segs, nparams, vals = [], 0, []
    if lead == "delay":
        segs.append({"T": rng.choice([40, 100]), "delay": True, "amp": "zero", "det": "zero"})
    elif lead == "detuning_only":
        segs.append({"T": rng.choice([40, 100]), "amp": "zero", "det": "const", "phase": 0.0})
        vals.append(rng.uniform(-6.0, 6.0))
    for _ in range(rng.choice([1, 2, 2, 3])):
        amp = rng.choice(["const", "const", "ramp", "blackman"])
        det = rng.choice(["const", "ramp", "const"])
        T = rng.choice([40, 60, 100])
        segs.append({"T": T, "amp": amp, "det": det, "phase": rng.choice([0.0, 0.0, 0.7])})
        for kind, positive in ((amp, True), (det, False)):
            k = {"const": 1, "ramp": 2, "blackman": 1}[kind]
            for _ in range(k):
                vals.append(rng.uniform(0.5, 8.0) if positive else rng.uniform(-6.0, 6.0))
            nparams += k
    return {"kind": "seq", "n": n, "spacing": rng.choice([6.0, 7.5, 9.0]), "segments": segs, "dt": rng.choice([10, 20]),
            "params": vals, "weights": [rng.uniform(0.3, 1.0) for _ in range(n)]}


NPAR = {"const": 1, "ramp": 2, "blackman": 1, "zero": 0, "interp": 3}


def gen_seq_flat_spec(rng, variant):
    """Signals that happen to be flat, differentiated w.r.t. SHAPE parameters (the level is shared by all samples, the
    derivative w.r.t. one shape parameter is not): ramp with start == stop, custom waveform with equal / zero samples,
    interpolated waveform with equal values, a sequence whose detuning never changes."""
    n = rng.choice([1, 2, 2, 3])
    T = rng.choice([16, 20, 24])
    lvl_a, lvl_d = rng.uniform(1.0, 8.0), rng.uniform(-6.0, 6.0)
    segs, vals = [], []

    def add(amp, det, pa, pd, T_=T):
        segs.append({"T": T_, "amp": amp, "det": det, "phase": 0.0})
        vals.extend(pa)
        vals.extend(pd)

    if variant == "ramp-flat-amp":
        add("ramp", "ramp", [lvl_a, lvl_a], [lvl_d, -lvl_d])
    elif variant == "ramp-flat-det":
        add("const", "ramp", [lvl_a], [lvl_d, lvl_d])
    elif variant == "ramp-flat-both":
        add("ramp", "ramp", [lvl_a, lvl_a], [lvl_d, lvl_d])
    elif variant == "custom-equal":
        add("custom", "custom", [lvl_a] * T, [lvl_d] * T)
    elif variant == "custom-zero-det":
        add("const", "custom", [lvl_a], [0.0] * T)
    elif variant == "interp-equal":
        add("interp", "interp", [lvl_a] * 3, [lvl_d] * 3, T_=40)
    elif variant == "constant-detuning-sequence":  # two pulses, amplitude varies, detuning is one level throughout
        add("ramp", "ramp", [lvl_a, 0.5 * lvl_a], [lvl_d, lvl_d], T_=40)
        add("const", "ramp", [0.5 * lvl_a], [lvl_d, lvl_d], T_=40)
    else:
        raise ValueError(variant)
    return {"kind": "seq", "flat": variant, "n": n, "spacing": rng.choice([6.0, 7.5, 9.0]), "segments": segs,
            "dt": rng.choice([2, 4]) if T <= 24 and "sequence" not in variant and variant != "interp-equal" else 10,
            "params": vals, "weights": [rng.uniform(0.3, 1.0) for _ in range(n)]}


# (pulser's InterpolatedWaveform goes through numpy/scipy and cannot carry gradients; flat interpolated signals are
# covered by the adapter-level tie below)
SEQ_FLAT = ("ramp-flat-amp", "ramp-flat-det", "ramp-flat-both", "custom-equal", "custom-zero-det",
            "constant-detuning-sequence")


def seq_grad_check(ctx, spec):
    """Pulser sequence with torch waveform parameters: gradient at krylov tolerance 1e-10 and at TIGHT_TOL; the tight
    one against central differences of the emulated result, the two against each other within param_grad_bound."""
    import torch

    kinds = sorted({s["amp"] for s in spec["segments"]} | {s["det"] for s in spec["segments"]})
    wrong_key = FLATWF if spec.get("flat") else "seq-gradient-wrong"
    nsteps = -(-sum(s["T"] for s in spec["segments"]) // spec["dt"])
    summary = {"n": spec["n"], "segments": len(spec["segments"]), "kinds": kinds, "steps": nsteps,
               "flat": spec.get("flat")}
    gs = {}
    for tol in (1e-10, TIGHT_TOL):
        params = [torch.tensor(v, dtype=torch.float64, requires_grad=True) for v in spec["params"]]
        try:
            loss = seq_loss(spec, params, krylov_tolerance=tol)
            grads = torch.autograd.grad(loss, params, allow_unused=True)
        except Exception as ex:  # noqa: BLE001
            ctx.violation(f"differentiating a Pulser sequence with torch waveform parameters raised "
                          f"{type(ex).__name__}: {str(ex)[:160]}",
                          {"case": spec, "finding_key": "seq-gradient-raises", "kind": "seq"})
            summary["outcome"] = "raised"
            return summary
        g = [float(a) if a is not None else 0.0 for a in grads]
        if not all(math.isfinite(a) for a in g):
            flat = not pchip_source_variant()[0]  # every pulse has masked knots; the original source divides there
            ctx.violation(f"gradient of the final occupation w.r.t. the waveform parameters of a Pulser sequence is {g} "
                          f"(segments {[(s['amp'], s['det']) for s in spec['segments']]}, {spec['n']} atoms): not finite",
                          {"case": spec, "finding_key": F16 if flat else "seq-gradient-not-finite", "kind": "seq",
                           "grad": [repr(a) for a in g]})
            summary["outcome"] = "not-finite"
            return summary
        gs[tol] = g
    g0, g = gs[1e-10], gs[TIGHT_TOL]
    S = max(1e-3, max(abs(a) for a in g))
    lim0 = (param_grad_bound(1e-10, nsteps) + param_grad_bound(TIGHT_TOL, nsteps)) * S + GRAD_ATOL
    d0 = max(abs(a - b) for a, b in zip(g0, g))
    summary["worst_fraction_of_bound"] = d0 / lim0
    if d0 > lim0:
        k = max(range(len(g)), key=lambda m: abs(g0[m] - g[m]))
        ctx.violation(f"gradient w.r.t. waveform parameter {k} is {g0[k]!r} at krylov tolerance 1e-10 but {g[k]!r} at "
                      f"{TIGHT_TOL:g}: difference {d0:.3g} > allowed {lim0:.3g} ({nsteps} steps)",
                      {"case": spec, "finding_key": wrong_key, "kind": "seq", "param": k})
        summary["outcome"] = "mismatch"
        return summary
    lim = param_grad_bound(TIGHT_TOL, nsteps) * S + FD_RTOL * S + FD_ATOL
    with torch.no_grad():
        probe = list(range(len(g)))
        if len(probe) > 10:  # one parameter per sample: the ends, and a random subset
            probe = sorted(set([0, 1, len(g) - 1] + ctx.rng.sample(probe, 7)))
        for k in probe:
            eps = 1e-4
            vals = []
            for sgn in (+1, -1):
                pp = [torch.tensor(v + (sgn * eps if m == k else 0.0), dtype=torch.float64)
                      for m, v in enumerate(spec["params"])]
                vals.append(float(seq_loss(spec, pp, krylov_tolerance=TIGHT_TOL)))
            fd = (vals[0] - vals[1]) / (2 * eps)
            summary["worst_fd_fraction_of_bound"] = max(summary.get("worst_fd_fraction_of_bound", 0.0),
                                                        abs(fd - g[k]) / lim)
            if abs(fd - g[k]) > lim:
                ctx.violation(f"gradient w.r.t. waveform parameter {k} is {g[k]!r} but the central difference is {fd!r} "
                              f"(krylov tolerance {TIGHT_TOL:g}, allowed {lim:.3g})",
                              {"case": spec, "finding_key": wrong_key, "kind": "seq", "param": k})
                summary["outcome"] = "mismatch"
                return summary
    summary["outcome"] = "ok"
    return summary


# =====================================================================================================
# 5. adapter level: d(midpoint drive) / d(sample k) of _extract_omega_delta_phi against the PCHIP AD model
class _GradSamples:
    """Duck-typed pulser SequenceSamples (the function reads max_duration and to_nested_dict only)."""

    def __init__(self, T, sig):
        self.max_duration = T
        self._d = {"q0": sig}

    def to_nested_dict(self, all_local=False, samples_type="array"):
        return {"Local": {"ground-rydberg": self._d}}


def gen_signal(rng, T, positive):
    kind = rng.choice(["flat", "flat", "zero", "ramp", "pulse", "gauss", "steps", "interp-equal"])
    if kind in ("flat", "interp-equal"):   # e.g. a ramp with start == stop, equal interpolation values
        y = [rng.uniform(0.5, 9.0) if positive else rng.uniform(-6, 6)] * T
    elif kind == "zero":
        y = [0.0] * T
    elif kind == "ramp":
        a, b = (rng.uniform(0, 9), rng.uniform(0, 9)) if positive else (rng.uniform(-6, 6), rng.uniform(-6, 6))
        y = [a + (b - a) * i / max(T - 1, 1) for i in range(T)]
    elif kind == "pulse":
        a, b = sorted(rng.sample(range(T + 1), 2))
        top = rng.uniform(0.5, 9.0)
        y = [top if a <= i < b else 0.0 for i in range(T)]
    elif kind == "steps":
        y, cur = [], rng.uniform(0, 5)
        for _ in range(T):
            if rng.random() < 0.25:
                cur = rng.uniform(0, 5) if positive else rng.uniform(-5, 5)
            y.append(cur)
    else:
        y = [abs(rng.gauss(0, 3)) if positive else rng.gauss(0, 3) for _ in range(T)]
    return kind, y


def gen_adapter_case(rng):
    dt = rng.choice([1, 2, 3, 4, 5, 10])
    T = dt * rng.randint(2, max(2, 40 // dt))
    tt = [float(t) for t in range(0, T, dt)] + [float(T)]
    kinds, sig = {}, {}
    for name in ("amp", "det", "phase"):
        kinds[name], sig[name] = gen_signal(rng, T, positive=(name == "amp"))
    return {"kind": "adapter", "T": T, "dt": dt, "tt": tt, "sig": sig, "sigkinds": kinds,
            "w": [[rng.choice([1.0, -0.5, rng.gauss(0, 1)]) for _ in range(len(tt) - 1)] for _ in range(3)]}


def adapter_impl(case):
    import inspect

    import torch
    from emu_base.pulser_adapter import _extract_omega_delta_phi

    sig = {k: torch.tensor(v, dtype=torch.float64, requires_grad=True) for k, v in case["sig"].items()}
    kw = {"all_register_atoms": True} if "all_register_atoms" in inspect.signature(_extract_omega_delta_phi).parameters else {}
    om, de, ph = _extract_omega_delta_phi(_GradSamples(case["T"], sig), ("q0",), list(case["tt"]), **kw)
    outs = [om[:, 0].real, de[:, 0].real, ph[:, 0].real]
    w = [torch.tensor(a, dtype=torch.float64) for a in case["w"]]
    loss = sum((o * a).sum() for o, a in zip(outs, w))
    grads = torch.autograd.grad(loss, [sig["amp"], sig["det"], sig["phase"]], allow_unused=True)
    return ([[float(a) for a in o.detach()] for o in outs],
            [[0.0] * case["T"] if g is None else [float(a) for a in g] for g in grads])


def adapter_exprs(case, fwd, fixed):
    xs = L([float(i) for i in range(case["T"])])
    tt = case["tt"]
    qs = L([0.5 * (tt[i] + tt[i + 1]) for i in range(len(tt) - 1)])
    ex = []
    for j, name in enumerate(("amp", "det", "phase")):
        w = list(case["w"][j])
        if name == "amp":  # torch.where(x > 0, x, 0): no cotangent into the clamped midpoints
            w = [a if v > 0 else 0.0 for a, v in zip(w, fwd[0])]
        ex.append(f"pchip_ad_case float_arith {'true' if fixed else 'false'} {xs} {L(case['sig'][name])} {qs} {L(w)}")
    return ex


def adapter_oracle(ctx, case, fwd, grads):
    """Independent of the model: a flat signal's level derivative is spread over the samples (sum of the Jacobian row
    over samples = 1 for every unclamped midpoint), so sum_k grad_k = sum of the (unclamped) weights; and no single
    sample of a flat signal may absorb the whole derivative when more than one midpoint lies inside the grid."""
    for j, name in enumerate(("amp", "det", "phase")):
        y, g = case["sig"][name], grads[j]
        if not all(math.isfinite(a) for a in g):
            ctx.violation(f"gradient of the midpoint {name} w.r.t. the Pulser samples is not finite",
                          {"case": case, "finding_key": "adapter-gradient-not-finite", "kind": "adapter"})
            return
        w = [a if (name != "amp" or v > 0) else 0.0 for a, v in zip(case["w"][j], fwd[j])]
        if abs(sum(g) - sum(w)) > 1e-9 * max(1.0, sum(abs(a) for a in w)):
            ctx.violation(f"d(midpoint {name})/d(samples): the gradient along 'all samples together' is {sum(g)!r}, "
                          f"expected {sum(w)!r} (PCHIP reproduces a level shift exactly)",
                          {"case": case, "finding_key": "adapter-gradient-wrong", "kind": "adapter"})
            return
        flat = all(a == y[0] for a in y)
        tmid = [0.5 * (case["tt"][i] + case["tt"][i + 1]) for i in range(len(w))]
        inside = sum(1 for a, t in zip(w, tmid) if a != 0 and t <= case["T"] - 1)
        # a midpoint inside the grid depends on the two samples around it (and, next to an end, on the end slope):
        # two such midpoints with non-zero weight touch at least two different samples
        if flat and case["T"] >= 4 and inside >= 2:
            nz = [k for k, a in enumerate(g) if a != 0]
            if len(nz) <= 1:
                ctx.violation(f"flat {name} signal ({case['sigkinds'][name]}, {len(y)} equal samples): the whole gradient "
                              f"of {len(w)} midpoints sits on sample {nz} (grad[0] = {g[0]!r}); the midpoints at "
                              f"t = {[0.5 * (case['tt'][i] + case['tt'][i + 1]) for i in range(min(3, len(w)))]}... depend "
                              f"on the samples next to them", {"case": case, "finding_key": FLATWF, "kind": "adapter"})
                return


# =====================================================================================================
# =====================================================================================================
# 6. double_krylov / lanczos: exact event-trace tie with Model/DoubleKrylov.v
HEADER_DK = """From Coq Require Import ZArith List Bool PrimFloat.
Import ListNotations.
From EV Require Import Base.Arith Model.KrylovExp Model.DoubleKrylov.
Open Scope float_scope."""
DK_SRC = common.REPO / "emu_base/math/double_krylov.py"
_REC = {}


def _rec_class():
    """torch.Tensor subclass whose __torch_function__ reports every torch call made on it (norm, tensordot, conj,
    __setitem__, matrix_exp, block_diag, ...): the numerical kernels of double_krylov.py become recording stubs
    that still compute the real values."""
    if "cls" not in _REC:
        import torch

        class Rec(torch.Tensor):
            LOG = None

            @classmethod
            def __torch_function__(cls, func, types, args=(), kwargs=None):
                out = super().__torch_function__(func, types, args, kwargs or {})
                log = cls.LOG
                if log is not None:
                    cls.LOG = None       # calls made while logging are not events
                    try:
                        log(getattr(func, "__name__", repr(func)), args, out)
                    finally:
                        cls.LOG = log
                return out

        _REC["cls"] = Rec
    return _REC["cls"]


def _dk_norm_lines():
    """line number -> assigned name, for the statements of lanczos that call .norm()"""
    fn = next(n for n in ast.parse(DK_SRC.read_text()).body if isinstance(n, ast.FunctionDef) and n.name == "lanczos")
    out = {}
    for node in ast.walk(fn):
        if isinstance(node, ast.Assign) and ".norm()" in ast.unparse(node.value) and isinstance(node.targets[0], ast.Name):
            for ln in range(node.lineno, node.end_lineno + 1):
                out[ln] = node.targets[0].id
    return out


def gen_dk_case(rng, kind=None):
    kind = kind or rng.choice(["random", "random", "random", "zero-grad", "zero-state", "eigen-state", "eigen-grad",
                               "block", "block", "same", "basis", "tiny-H", "default-max"])
    D = rng.choice([1, 2, 3, 4, 4, 6, 8, 8, 12, 16])
    if kind == "block":
        D = max(D, 4)
    return {"kind": "dk", "dk_kind": kind, "D": D, "seed": rng.randrange(2 ** 31),
            "dt": rng.choice([0.01, 0.1, 1.0, 1.0, 3.0, 10.0]),
            "tol": rng.choice([1e-4, 1e-8, 1e-10, 1e-10, 1e-13]),
            "max_dim": 100 if kind == "default-max" else rng.choice([0, 1, 2, 5, 12, 30, 30, 100, 100, 100, 100, 100]
                                                                     if not kind.startswith("zero") else [0, 1, 2, 3, 5, 8, 12]),
            "block": rng.randint(1, 3)}


def dk_build(case):
    import numpy as np

    r = np.random.RandomState(case["seed"])
    D, kind = case["D"], case["dk_kind"]
    M = r.randn(D, D) + 1j * r.randn(D, D)
    H = (M + M.conj().T) / 2
    if kind == "block":  # invariant subspace of dimension b: happy breakdown at iteration b - 1
        b = min(case["block"], D - 1)
        H[:b, b:] = 0
        H[b:, :b] = 0
    if kind == "tiny-H":
        H = H * 1e-9
    w, U = np.linalg.eigh(H)

    def rand():
        v = r.randn(D) + 1j * r.randn(D)
        return v / np.linalg.norm(v)

    state, grad = rand(), rand() * r.choice([1.0, 0.3, 1e-6, 25.0])
    if kind == "zero-grad":
        grad = np.zeros(D, dtype=complex)
    elif kind == "zero-state":
        state = np.zeros(D, dtype=complex)
    elif kind == "eigen-state":
        state = U[:, r.randint(D)].astype(complex)
    elif kind == "eigen-grad":
        grad = U[:, r.randint(D)].astype(complex) * 0.7
    elif kind == "same":
        grad = state.copy()
    elif kind == "basis":
        state = np.eye(D, dtype=complex)[r.randint(D)]
        grad = np.eye(D, dtype=complex)[r.randint(D)]
    elif kind == "block":
        b = min(case["block"], D - 1)
        which = r.randint(3)
        if which in (0, 2):
            state[b:] = 0
            state = state / np.linalg.norm(state)
        if which in (1, 2):
            grad[b:] = 0
    return H, state, grad


def dk_real_run(case):
    """double_krylov of /repo on the case, every kernel call observed: returns the outcome, the tagged event trace
    (encoded as Model.DoubleKrylov.ev_code), the oracle streams, the writes to T and the exponentiated matrix."""
    import importlib
    import sys
    import torch

    dk = importlib.import_module("emu_base.math.double_krylov")
    Rec = _rec_class()
    H, state, grad = dk_build(case)
    Ht = torch.tensor(H, dtype=torch.complex128)
    st = torch.tensor(state, dtype=torch.complex128).as_subclass(Rec)
    gr = torch.tensor(grad, dtype=torch.complex128).as_subclass(Rec)
    dt = case["dt"]
    lines = _dk_norm_lines()
    code_l, code_d = dk.lanczos.__code__, dk.double_krylov.__code__
    ev, runs = [], {0: None, 1: None}
    info = {"problems": [], "bigmat": None, "blocks": None}

    def fresh():
        return {"n2": {}, "n": {}, "expd": {}, "ov": [], "writes": [], "last_conj": None, "pending_vec": None}

    def frame():
        f = sys._getframe(2)
        while f is not None and f.f_code is not code_l and f.f_code is not code_d:
            f = f.f_back
        return f

    def run_of(fr):
        v = fr.f_locals.get("v")
        return 0 if v is st else (1 if v is gr else None)

    def index_in(lst, x):
        return next((i for i, y in enumerate(lst) if y is x), None)

    def plain(t):
        return t.detach().as_subclass(torch.Tensor).clone()

    def log(name, args, out):
        fr = frame()
        if fr is None:
            return
        loc = fr.f_locals
        if fr.f_code is code_l:
            rn = run_of(fr)
            if rn is None:
                info["problems"].append("lanczos called on a vector that is neither state nor grad")
                return
            if runs[rn] is None:
                runs[rn] = fresh()
            R = runs[rn]
            j, lv = loc.get("j"), loc.get("lanczos_vectors")
            if name == "norm":
                tgt = lines.get(fr.f_lineno)
                if tgt == "lanczos_vectors" and args[0] is loc["v"]:
                    ev.append((rn, (0, (0, 0))))
                elif tgt == "n" and args[0] is loc.get("w"):
                    ev.append((rn, (2, (j, 0))))
                    R["n"][j] = plain(out)
                elif tgt == "n2" and args[0] is loc.get("w"):
                    ev.append((rn, (4, (j, 0))))
                    R["n2"][j] = float(out)
                else:
                    info["problems"].append(f"unexpected norm call at line {fr.f_lineno}")
            elif name == "conj" and lv is not None:
                R["last_conj"] = (index_in(lv, args[0]), out)
            elif name == "tensordot":
                k = R["last_conj"][0] if R["last_conj"] is not None and args[0] is R["last_conj"][1] else None
                if args[1] is not loc.get("w") or k is None:
                    info["problems"].append("tensordot on unexpected operands")
                ev.append((rn, (3, (k if k is not None else 999, j))))
                R["ov"].append(((k, j), complex(out)))
            elif name == "__setitem__" and args[0] is loc.get("T"):
                rc = tuple(int(a) for a in args[1])
                val = args[2]
                R["writes"].append((rc, complex(val) if not isinstance(val, (int, float)) else complex(val)))
            elif name in ("__truediv__", "div", "true_divide") and lv is not None and args[0] is loc.get("w"):
                ev.append((rn, (5, (len(lv), 0))))      # w / n2: the vector about to be appended gets index len
                R["pending_vec"] = out
            elif name in ("linalg_matrix_exp", "matrix_exp"):
                if lv is None or lv[-1] is not R["pending_vec"]:
                    info["problems"].append("matrix_exp before the new vector was appended")
                Tl = loc.get("T")   # T[:n, :n] is a view of T starting at T[0, 0]
                if Tl is None or args[0].data_ptr() != Tl.data_ptr() or args[0].stride() != Tl.stride():
                    info["problems"].append("matrix_exp of something that is not a view of T")
                ev.append((rn, (6, (int(args[0].shape[0]), 0))))
                R["expd"][j] = plain(out)
        else:
            if name == "block_diag":
                ev.append((2, (7, (int(args[0].shape[0]), int(args[1].shape[0])))))
                info["blocks"] = (plain(args[0]), plain(args[1]))
            elif name == "norm":
                if args[0] is st:
                    ev.append((2, (8, (0, 0))))
                    info["norm_s"] = float(out)
                elif args[0] is gr:
                    ev.append((2, (9, (0, 0))))
                    info["norm_g"] = float(out)
                else:
                    info["problems"].append("norm of an unexpected tensor in double_krylov")
            elif name == "__setitem__":
                ev.append((2, (10, tuple(int(a) for a in args[1]))))
                info["corner"] = complex(args[2])
            elif name in ("matrix_exp", "linalg_matrix_exp"):
                ev.append((2, (11, (int(args[0].shape[0]), 0))))
                info["bigmat"] = plain(args[0])

    n_ops = [0]

    def op(x):
        fr = sys._getframe(1)
        saved, Rec.LOG = Rec.LOG, None
        try:
            if fr.f_code is code_l:
                rn = run_of(fr)
                lv = fr.f_locals.get("lanczos_vectors")
                k = index_in(lv, x)
                ev.append((rn, (1, (k if k is not None else 999, fr.f_locals.get("j")))))
            else:
                info["problems"].append("op called outside lanczos")
            n_ops[0] += 1
            return (-1j * dt) * (Ht @ x)
        finally:
            Rec.LOG = saved

    class _TorchProxy:
        def __getattr__(self, name):
            if name == "zeros":
                return lambda *a, **k: torch.zeros(*a, **k).as_subclass(Rec)
            return getattr(torch, name)

    out = {"exc": None}
    saved_t, saved_m = dk.torch, dk.max_krylov_dim
    try:
        dk.torch, dk.max_krylov_dim = _TorchProxy(), case["max_dim"]
        Rec.LOG = log
        try:
            Vs, dS, Vg = dk.double_krylov(op, st, gr, case["tol"])
            Rec.LOG = None
            out.update(ns=len(Vs), ng=len(Vg), shape=tuple(int(a) for a in dS.shape))
        except RecursionError:
            out["exc"] = "RecursionError"
        except Exception as ex:  # noqa: BLE001  any other exception is a disagreement with the model
            out["exc"] = type(ex).__name__
    finally:
        Rec.LOG = None
        dk.torch, dk.max_krylov_dim = saved_t, saved_m
    # oracle streams, recomputed from the logged kernel results with the source's own expressions
    streams = {}
    for rn in (0, 1):
        R = runs[rn] or fresh()
        nit = (max(R["n2"]) + 1) if R["n2"] else 0
        n2s, e1s, e2s = [], [], []
        for j in range(nit):
            n2s.append(R["n2"].get(j, float("nan")))
            e = R["expd"].get(j)
            if e is None:
                e1s.append(float("nan"))
                e2s.append(float("nan"))
            else:
                e1s.append(float(abs(e[j + 1, 0])))
                e2s.append(float(abs(e[j + 2, 0] * R["n"][j])))
        streams[rn] = {"n2": n2s, "e1": e1s, "e2": e2s, "ov": R["ov"], "writes": R["writes"]}
    out.update(events=ev, streams=streams, n_ops=n_ops[0], info=info)
    return out


def _cl(z):
    fl = common.float_lit
    return f"({fl(z.real)}, {fl(z.imag)})"


def dk_control_expr(case, run):
    fl = common.float_lit
    lst = lambda xs: "[" + "; ".join(fl(x) for x in xs) + "]"  # noqa: E731
    s, g = run["streams"][0], run["streams"][1]
    return (f"let X := double_krylov_ctl float_arith (stream nan {lst(s['n2'])}) (stream nan {lst(s['e1'])}) "
            f"(stream nan {lst(s['e2'])}) (stream nan {lst(g['n2'])}) (stream nan {lst(g['e1'])}) "
            f"(stream nan {lst(g['e2'])}) {fl(case['tol'])} {case['max_dim']}%nat in (dk_outcome (snd X), dk_codes (fst X))")


def dk_T_expr(case, run, rn, size):
    """T[:size, :size] of run rn from the model's write log (overlaps as a table keyed by (k, j))"""
    fl = common.float_lit
    lst = lambda xs: "[" + "; ".join(fl(x) for x in xs) + "]"  # noqa: E731
    s = run["streams"][rn]
    tab = "[" + "; ".join(f"(({k}%nat, {j}%nat), {_cl(z)})" for (k, j), z in s["ov"]) + "]"
    ov = (f"(fun k j => match find (fun p => Nat.eqb (fst (fst p)) k && Nat.eqb (snd (fst p)) j) {tab} with "
          f"Some p => snd p | None => (nan, nan) end)")
    T = (f"(lanczos_T float_arith CF.c0 CF.c1 CF.cofreal (stream nan {lst(s['n2'])}) (stream nan {lst(s['e1'])}) "
         f"(stream nan {lst(s['e2'])}) {ov} {fl(case['tol'])} {case['max_dim']}%nat)")
    return T, f"map (fun r => map (fun c => {T} r c) (seq 0 {size})) (seq 0 {size})"


def dk_bigmat_expr(case, run):
    fl = common.float_lit
    ns, ng = run["ns"], run["ng"]
    Ts, _ = dk_T_expr(case, run, 0, ns)
    Tg, _ = dk_T_expr(case, run, 1, ng)
    c = run["info"]["norm_s"] * run["info"]["norm_g"]
    n = ns + ng
    return (f"map (fun r => map (fun c => big_mat CF.c0 {ns} {ng} {Ts} {Tg} (CF.cofreal {fl(c)}) r c) (seq 0 {n})) "
            f"(seq 0 {n})")


def dk_compare(case, run, parsed):
    """-> None or a description of the first disagreement (control outcome, event trace, operator count)"""
    code, rest, mtrace = parsed          # Coq prints ((a, b), c) as (a, b, c)
    if run["info"]["problems"]:
        return f"instrumentation: {run['info']['problems'][:3]}"
    if run["exc"] is None:
        impl = (0, (run["ns"], run["ng"], run["shape"], run["n_ops"]))
    elif run["exc"] == "RecursionError":
        impl = (3, (0, 0, (0, 0), 0))
    else:
        return f"double_krylov raised {run['exc']}"
    (ns, ng, shp, ops) = rest
    model = (code, (ns, ng, tuple(shp), ops))
    if model != impl:
        return f"outcome impl={impl} model={model}"
    mt = [(a, (b, tuple(c))) for (a, (b, c)) in mtrace]
    it = [(a, (b, tuple(c))) for (a, (b, c)) in run["events"]]
    if mt != it:
        i = next((k for k, (x, y) in enumerate(zip(mt, it)) if x != y), min(len(mt), len(it)))
        return (f"event traces differ at position {i} (lengths model {len(mt)} impl {len(it)}): model {mt[i:i + 3]} "
                f"impl {it[i:i + 3]}")
    n_model_ops = sum(1 for (_a, (b, _c)) in mt if b == 1)
    if n_model_ops != run["n_ops"]:
        return f"operator applications impl={run['n_ops']} model={n_model_ops}"
    return None


def dk_matrix_compare(parsed, tensor):
    from vlib.coqparse import bits

    rows = tensor.tolist()
    if len(parsed) != len(rows):
        return f"sizes differ: model {len(parsed)} impl {len(rows)}"
    for r, (mr, ir) in enumerate(zip(parsed, rows)):
        for c, (m, i) in enumerate(zip(mr, ir)):
            if (bits(m[0] + 0.0), bits(m[1] + 0.0)) != (bits(i.real + 0.0), bits(i.imag + 0.0)):
                return f"entry ({r}, {c}): model {m} impl {i!r}"
    return None


def corpus_cases():
    p = common.VERIF / "corpus" / "C30.json"
    return json.loads(p.read_text()) if p.exists() else []


def run_case(ctx, c):
    """Oracle for one stored / replayed case of any kind."""
    if c["kind"] in ("pchip", "gen") or c["kind"].startswith("corpus:pchip"):
        out, grad = pchip_impl(c)
        pchip_oracle(ctx, c, out, grad)
        return {"out": out, "grad": grad}
    if c["kind"] in ("sv",) or c["kind"].startswith("corpus:sv"):
        return sv_grad_check(ctx, c)
    if c["kind"] in ("seq",) or c["kind"].startswith("corpus:seq"):
        return seq_grad_check(ctx, c)
    raise ValueError(c["kind"])


def run(ctx):
    import warnings

    from vlib.coqparse import bits, parse

    warnings.filterwarnings("ignore")
    rng = ctx.rng
    th = ctx.thorough()
    rc, out = common.coq_make(["Model/PchipAD.vo", "Model/SvGrad.vo", "Model/DoubleKrylov.vo"])
    ctx.obligation("build:Model/PchipAD.vo+Model/SvGrad.vo+Model/DoubleKrylov.vo", rc == 0, out, kind="build")
    model_ok = rc == 0
    common.standard_proof_stage(ctx, "C30", ["Properties/C30.vo"])

    fixed, problem = pchip_source_variant()
    ctx.obligation("source-variant:_pchip_derivatives calls _weighted_harmonic_mean on the secants (original) or on "
                   "the double-where secants (fixed), nothing else", problem is None, problem or "", kind="translator")
    ctx.extra["pchip_source_variant"] = "double where (pchip-nan-gradient.diff applied)" if fixed else "original"
    ctx.log(f"pchip source variant: {ctx.extra['pchip_source_variant']}")
    # the positive theorem C30_pchip_grad_defined_fixed speaks about the double-where variant only
    ctx.notes.append("C30_pchip_grad_defined_fixed applies to the source" if fixed else
                     "the source is the variant refuted by C30_pchip_grad_defined_refuted (finding F-16)")

    # ---- corpus first ---------------------------------------------------------------------------------
    corpus = corpus_cases()
    pchip_cases = []
    for c in corpus:
        if c["kind"].startswith("corpus:pchip"):
            pchip_cases.append(dict(c))
        elif c["kind"].startswith("corpus:adapter"):
            pass  # run with the adapter-level tie below
        else:
            s = run_case(ctx, c)
            ctx.count_case({"corpus": c["kind"], "outcome": s.get("outcome")}, True)

    # ---- PCHIP gradient: tie + oracle ----------------------------------------------------------------------
    pchip_cases += [gen_pchip_case(rng, ctx.n(16, 40)) for _ in range(ctx.n(150, 1500))]
    hist, cl_hist = {}, {"fin": 0, "nan": 0, "inf": 0}
    impl = []
    for c in pchip_cases:
        o, g = pchip_impl(c)
        impl.append((o, g))
        pchip_oracle(ctx, c, o, g)
        for v in g:
            cl_hist[cls(v)] += 1
        k = f"{c.get('xkind', 'corpus')}/{c.get('ykind', 'corpus')}"
        hist[k] = hist.get(k, 0) + 1
        flat = any(c["y"][i] == c["y"][i + 1] for i in range(len(c["y"]) - 1))
        ctx.count_case({"kind": "pchip", "xkind": c.get("xkind"), "ykind": c.get("ykind"), "n": len(c["x"]),
                        "y0": c["y"][:4], "flat_segment": flat, "grad_classes": sorted({cls(v) for v in g})},
                       nontrivial=len(c["x"]) >= 3)
    ctx.extra["pchip_input_distribution"] = dict(sorted(hist.items()))
    ctx.extra["pchip_finite_difference_directions"] = dict(FDSTAT)
    ctx.extra["pchip_gradient_entry_classes(real code)"] = cl_hist
    ad_ok, ad_detail = model_ok, "" if model_ok else "model does not build"
    if model_ok:
        try:
            ev = common.CoqEval("C30ad", HEADER_AD)
            for c in pchip_cases:
                ev.add(f"pchip_ad_case float_arith {'true' if fixed else 'false'} {L(c['x'])} {L(c['y'])} "
                       f"{L(c['q'])} {L(c['w'])}")
            outs = ev.run(shard=ctx.n(25, 100))
            n_cmp = 0
            for c, (o, g), s in zip(pchip_cases, impl, outs):
                code, (mo, mg) = parse(s)
                why = None
                if code != 0:
                    why = f"model rejected the input with code {code}"
                elif [bits(a) for a in mo] != [bits(a) for a in o]:
                    why = "forward values differ (bit-exact comparison)"
                elif [cls(a) for a in mg] != [cls(a) for a in g]:
                    why = f"classification differs: model {[cls(a) for a in mg]} torch {[cls(a) for a in g]}"
                else:
                    sc = max([1.0] + [abs(a) for a in g if math.isfinite(a)])
                    bad = [i for i, (a, b) in enumerate(zip(mg, g)) if math.isfinite(b) and abs(a - b) > 1e-9 * sc]
                    if bad:
                        why = f"gradient values differ at {bad[:3]}: model {mg[bad[0]]!r} torch {g[bad[0]]!r}"
                n_cmp += len(g)
                if why and ad_ok:
                    ad_ok, ad_detail = False, f"{why}; case x={c['x'][:6]} y={c['y'][:6]} q={c['q'][:4]}"
                    ctx.extra["first_ad_disagreement"] = {"case": c, "why": why}
            ctx.extra["pchip_ad_tie"] = {"cases": len(pchip_cases), "gradient_entries_compared": n_cmp}
        except (common.CoqEvalError, ValueError) as ex:
            ad_ok, ad_detail = False, str(ex)[:2000]
    ctx.obligation("correspondence:Model.PchipAD(float_arith, variant from the source)==torch.autograd.grad through "
                   "PCHIP1D (forward bit-exact; nan/inf/finite exact; values 1e-9)", ad_ok, ad_detail,
                   kind="correspondence")

    # ---- adapter level: gradients of _extract_omega_delta_phi w.r.t. the Pulser samples vs the PCHIP AD model ----
    ad_cases = [dict(c) for c in corpus if c["kind"].startswith("corpus:adapter")]
    ad_cases += [gen_adapter_case(rng) for _ in range(ctx.n(40, 300))]
    ada_ok, ada_detail = model_ok, "" if model_ok else "model does not build"
    try:
        ev = common.CoqEval("C30adapter", HEADER_AD)
        pend, sk = [], {}
        for c in ad_cases:
            fwd, gr = adapter_impl(c)
            adapter_oracle(ctx, c, fwd, gr)
            for v in c["sigkinds"].values():
                sk[v] = sk.get(v, 0) + 1
            ctx.count_case({"kind": "adapter", "T": c["T"], "dt": c["dt"], "signals": c["sigkinds"]}, nontrivial=True)
            if model_ok:
                pend.append((c, fwd, gr, [ev.add(e) for e in adapter_exprs(c, fwd, fixed)]))
        ctx.extra["adapter_signal_kinds"] = dict(sorted(sk.items()))
        if model_ok:
            outs = ev.run(shard=ctx.n(20, 80))
            ncmp = 0
            for c, fwd, gr, idxs in pend:
                for j, (name, ix) in enumerate(zip(("amp", "det", "phase"), idxs)):
                    code, (mo, mg) = parse(outs[ix])
                    if name == "amp":
                        mo = [a if a > 0 else 0.0 for a in mo]
                    why = None
                    if code != 0:
                        why = f"model rejected the grid (code {code})"
                    elif [bits(a + 0.0) for a in mo] != [bits(a + 0.0) for a in fwd[j]]:
                        why = "forward midpoint values differ (bit-exact comparison)"
                    elif [cls(a) for a in mg] != [cls(a) for a in gr[j]]:
                        why = "nan/inf/finite classification of the gradient differs"
                    else:
                        sc = max([1.0] + [abs(a) for a in gr[j] if math.isfinite(a)])
                        bad = [k for k, (a, b) in enumerate(zip(mg, gr[j])) if math.isfinite(b) and abs(a - b) > 1e-9 * sc]
                        if bad:
                            why = (f"d(midpoints)/d(sample {bad[0]}) is {gr[j][bad[0]]!r} in the adapter but {mg[bad[0]]!r} in "
                                   f"the PCHIP AD model")
                    ncmp += len(gr[j])
                    if why and ada_ok:
                        ada_ok = False
                        ada_detail = (f"{name} ({c['sigkinds'][name]}): {why}; T={c['T']} dt={c['dt']} "
                                      f"samples={c['sig'][name][:6]}")
                        ctx.extra["first_adapter_disagreement"] = {"case": c, "signal": name, "why": why}
                        ctx.violation(f"_extract_omega_delta_phi: gradient of the midpoint {name} w.r.t. the Pulser samples "
                                      f"differs from the reverse-mode gradient of PCHIP1D(arange(T), samples)(t_mid): {why} "
                                      f"(signal kind {c['sigkinds'][name]}, T={c['T']}, dt={c['dt']})",
                                      {"case": c, "kind": "adapter",
                                       "finding_key": FLATWF if all(a == c["sig"][name][0] for a in c["sig"][name])
                                       else "adapter-gradient-wrong"})
            ctx.extra["adapter_ad_tie"] = {"cases": len(ad_cases), "gradient_entries_compared": ncmp}
    except (common.CoqEvalError, ValueError) as ex:
        ada_ok, ada_detail = False, str(ex)[:2000]
    ctx.obligation("correspondence:d(_extract_omega_delta_phi midpoints)/d(Pulser samples)==Model.PchipAD on the adapter's "
                   "grid (forward bit-exact; nan/inf/finite exact; values 1e-9)", ada_ok, ada_detail, kind="correspondence")

    # ---- DHD*Sparse: exact tie + algebraic oracle ----------------------------------------------------------
    dhd_cases = []
    for N in range(1, 7):
        for _ in range(ctx.n(5, 40) if N <= 4 else ctx.n(2, 10)):
            dhd_cases.append(gen_dhd_case(rng, N))
    sv_ok, sv_detail, n_exact = model_ok, "" if model_ok else "model does not build", 0
    try:
        ev = common.CoqEval("C30sv", HEADER_SV)
        pend = []
        for c in dhd_cases:
            out = dhd_impl(c)
            dhd_oracle(ctx, c, out)
            ctx.count_case({"kind": "dhd", "N": c["N"], "mode": c["mode"], "B": c["B"], "i": c["i"], "j": c["j"]},
                           nontrivial=c["N"] >= 2)
            if model_ok:
                for e in dhd_exprs(c, out):
                    pend.append((c, ev.add(e)))
        if model_ok:
            outs = ev.run(shard=ctx.n(12, 40), jobs=12)
            for c, idx in pend:
                n_exact += 1
                v = parse(outs[idx])
                if v != -1 and sv_ok:
                    sv_ok = False
                    sv_detail = (f"first differing index {v} (-3: shape guard) for N={c['N']} i={c['i']} j={c['j']} "
                                 f"B={c['B']} mode={c['mode']}")
                    ctx.extra["first_dhd_disagreement"] = {k: c[k] for k in c if k != "vec"}
    except (common.CoqEvalError, ValueError) as ex:
        sv_ok, sv_detail = False, str(ex)[:2000]
    ctx.extra["dhd_tie_exact_comparisons"] = n_exact
    ctx.obligation("correspondence:Model.SvGrad==DHD{Omega,Phi,Delta,U}Sparse.__matmul__ (exact, Gaussian-integer "
                   "batches, torch.exp rebound)", sv_ok, sv_detail, kind="correspondence")

    # ---- double_krylov / lanczos: exact event trace, T and block matrix -------------------------------------
    import random as _random
    dk_rng = _random.Random(f"C30-double-krylov-{ctx.seed}")   # own stream: the inputs of the falsifiers below do not move
    dk_cases = [gen_dk_case(dk_rng, k) for k in ("zero-grad", "zero-state", "block", "eigen-state", "eigen-grad", "default-max")]
    dk_cases.append(dict(gen_dk_case(dk_rng, "zero-grad"), max_dim=100))   # F-27 at the default max_krylov_dim
    dk_cases += [gen_dk_case(dk_rng) for _ in range(ctx.n(24, 600))]
    dk_ok, dk_detail = model_ok, "" if model_ok else "model does not build"
    dk_hist, dk_stats = {}, {"events": 0, "matrix_entries": 0, "matrix_cases": 0, "breakdown_exits": 0}
    try:
        ev = common.CoqEval("C30dk", HEADER_DK)
        pend = []
        for c in dk_cases:
            r = dk_real_run(c)
            outc = "returned" if r["exc"] is None else r["exc"]
            dk_hist[f"{c['dk_kind']}/{outc}"] = dk_hist.get(f"{c['dk_kind']}/{outc}", 0) + 1
            ctx.count_case({k: c[k] for k in ("kind", "dk_kind", "D", "seed", "dt", "tol", "max_dim")} |
                           {"outcome": outc, "ops": r["n_ops"]}, nontrivial=r["n_ops"] >= 2)
            if model_ok:
                a = ev.add(dk_control_expr(c, r))
                m = None
                if r["exc"] is None and r["info"].get("bigmat") is not None and r["ns"] + r["ng"] <= ctx.n(12, 24):
                    m = (ev.add(dk_T_expr(c, r, 0, r["ns"])[1]), ev.add(dk_T_expr(c, r, 1, r["ng"])[1]),
                         ev.add(dk_bigmat_expr(c, r)))
                pend.append((c, r, a, m))
        if model_ok:
            outs = ev.run(shard=ctx.n(12, 40), jobs=8)
            for c, r, a, m in pend:
                why = dk_compare(c, r, parse(outs[a]))
                dk_stats["events"] += len(r["events"])
                if r["exc"] is None:
                    dk_stats["breakdown_exits"] += sum(1 for rn, ln in ((0, r["ns"]), (1, r["ng"]))
                                                       if len(r["streams"][rn]["n2"]) == ln)
                if why is None and m is not None:
                    Ts, Tg = r["info"]["blocks"]
                    why = (dk_matrix_compare(parse(outs[m[0]]), Ts) or dk_matrix_compare(parse(outs[m[1]]), Tg) or
                           dk_matrix_compare(parse(outs[m[2]]), r["info"]["bigmat"]))
                    if why is not None:
                        why = "T / block matrix: " + why
                    dk_stats["matrix_cases"] += 1
                    dk_stats["matrix_entries"] += r["ns"] ** 2 + r["ng"] ** 2 + (r["ns"] + r["ng"]) ** 2
                if why is not None and dk_ok:
                    dk_ok = False
                    dk_detail = f"{why}; case={c}"
                    ctx.extra["first_double_krylov_disagreement"] = {"case": c, "why": why}
    except (common.CoqEvalError, ValueError) as ex:
        dk_ok, dk_detail = False, str(ex)[:2000]
    ctx.extra["double_krylov_tie"] = {"cases": len(dk_cases), "outcomes": dict(sorted(dk_hist.items())), **dk_stats}
    ctx.obligation("correspondence:Model.DoubleKrylov.double_krylov_ctl==emu_base.math.double_krylov.double_krylov (outcome, "
                   "shapes, operator count and the tagged kernel-call event trace exact; returned Ts, Tg and the "
                   "exponentiated block matrix bit-exact from the model's write log; kernels are recording stubs, "
                   "oracle streams recomputed from the logged kernel results; max_krylov_dim rebound to 0..100)",
                   dk_ok, dk_detail, kind="correspondence")

    # ---- finite differences through the backend ---------------------------------------------------------------
    sv_summ = []
    plan = []
    for n in range(1, 7):
        reps = ctx.n(2, 14) if n <= 4 else ctx.n(1, 5)
        for r in range(reps):
            for loss in ("occupation", "occupation-mid", "state", "fidelity"):
                plan.append((n, loss, ("zero", "nonzero", "mixed")[(r + n + len(plan)) % 3]))
    rng.shuffle(plan)
    plan = plan[:ctx.n(24, 300)]
    plan += [(2, "energy", "zero"), (2, "energy", "nonzero")] + ([(3, "energy", "mixed")] if th else [])
    for n, loss, phimode in plan:
        spec = gen_sv_spec(rng, n, rng.choice([2, 3, 4] if n <= 4 else [2, 3]), loss, phimode)
        todo = [spec]
        if loss == "energy":  # the same run with a loss the known finding does not touch
            todo.append(dict(spec, loss="fidelity"))
        for sp in todo:
            s = sv_grad_check(ctx, sp, max_fd=ctx.n(4, 6) if n <= 4 else 3)
            sv_summ.append(s)
            ctx.count_case({"kind": "sv", **s}, nontrivial=n >= 2)
    # exact-annihilation situations (H psi = 0, eigenvector states, H = 0 steps, basis-vector cotangents)
    ann = {}
    for i in range(ctx.n(12, 96)):
        variant = SV_ANNIHILATION[i % len(SV_ANNIHILATION)]
        spec = gen_sv_annihilation(rng, 1 + (i // len(SV_ANNIHILATION)) % 4, variant)
        s = sv_grad_check(ctx, spec, max_fd=3)
        sv_summ.append(s)
        ann[f"{variant}/{s.get('outcome')}"] = ann.get(f"{variant}/{s.get('outcome')}", 0) + 1
        ctx.count_case({"kind": "sv-annihilation", "variant": variant, **s}, nontrivial=True)
    ctx.extra["sv_annihilation_runs"] = dict(sorted(ann.items()))
    # interaction matrices with exact zeros: the gradient w.r.t. U entry by entry
    spu = {}
    for i in range(ctx.n(10, 60)):
        pattern = SPARSE_U[i % len(SPARSE_U)]
        spec = gen_sv_sparse_U(rng, 2 + (i // len(SPARSE_U)) % 4, pattern)
        s = sv_grad_check(ctx, spec, max_fd=3)
        sv_summ.append(s)
        spu[f"{pattern}/{s.get('outcome')}"] = spu.get(f"{pattern}/{s.get('outcome')}", 0) + 1
        ctx.count_case({"kind": "sv-sparse-U", "pattern": pattern, **s}, nontrivial=True)
    ctx.extra["sv_sparse_interaction_runs"] = dict(sorted(spu.items()))
    ctx.extra["sv_gradient_runs"] = {"runs": len(sv_summ),
                               "worst_fraction_of_derived_bound(dense autograd, ok runs)":
                                   max([s.get("worst_fraction_of_bound", 0.0) for s in sv_summ if s.get("outcome") == "ok"] + [0.0]),
                               "worst_fraction_of_bound(central differences, ok runs)":
                                   max([s.get("worst_fd_fraction_of_bound", 0.0) for s in sv_summ if s.get("outcome") == "ok"] + [0.0]),
                               "worst_forward_deviation_from_dense":
                                   max([s.get("forward_vs_dense", 0.0) for s in sv_summ] + [0.0]),
                               "outcomes": {o: sum(1 for s in sv_summ if s.get("outcome") == o)
                                            for o in sorted({s.get("outcome") for s in sv_summ})}}
    seq_summ = []
    seq_specs = [gen_seq_spec(rng, lead=("delay", "detuning_only")[i % 2]) for i in range(ctx.n(4, 16))]
    seq_specs += [gen_seq_spec(rng) for _ in range(ctx.n(4, 30))]
    seq_specs += [gen_seq_flat_spec(rng, SEQ_FLAT[i % len(SEQ_FLAT)]) for i in range(ctx.n(7, 28))]
    for spec in seq_specs:
        s = seq_grad_check(ctx, spec)
        seq_summ.append(s)
        ctx.count_case({"kind": "seq", **s}, nontrivial=True)
    ctx.extra["pulser_sequence_runs"] = {
        "outcomes": {o: sum(1 for s in seq_summ if s.get("outcome") == o) for o in sorted({s.get("outcome") for s in seq_summ})},
        "worst_fraction_of_bound(tol 1e-10 vs 1e-13)": max([s.get("worst_fraction_of_bound", 0.0) for s in seq_summ] + [0.0]),
        "worst_fraction_of_bound(central differences)": max([s.get("worst_fd_fraction_of_bound", 0.0) for s in seq_summ] + [0.0])}

    ctx.rule = ("pchip: knots arange (adapter grid) / uniform / log / mixed, 2..16 (40 thorough); values: pulse shapes "
                "(zero-rise-plateau-fall), constants, flat runs, monotone, gauss, integers, ramps, flat ends; queries "
                "inside / at knots / outside / midpoints of a coarser grid; random seeds w; FD directions: all samples, "
                "one sample, random, scale (skipped when a branch decision changes within the FD step). dhd: N=1..6, "
                "integer drives, Gaussian-integer batches of 1..5 vectors, phases zero / prescribed exact. sv: 1..6 "
                "atoms, 2..4 steps, smooth random drives with flat/zero segments, phases zero / non-zero / mixed, "
                "random or default initial state, losses occupation / linear in state / fidelity / energy, FD on a "
                "random subset of entries of every block incl. the last step. seq: 1..3 atoms, 1..3 pulses of "
                "constant / ramp / blackman waveforms with torch parameters, sequences starting with a delay or a "
                "detuning-only pulse, and flat signals differentiated w.r.t. shape parameters (ramp with start == stop, "
                "custom waveform with equal / zero samples, constant detuning over a whole sequence). adapter: T = 2..40 "
                "samples, dt 1..10, amp/det/phase signals flat / zero / ramp / pulse / steps / gauss, random weights on the "
                "midpoints. sv-annihilation: H psi = 0 first steps, H = 0 steps, eigenvector initial states, basis "
                "cotangents, all-idle runs. sv-sparse-U: n = 2..5, interaction matrices with exact zeros (chain, star, "
                "two clusters, all-zero, single zero entry), random initial state, gradient w.r.t. U entry by entry, "
                "diagonal and lower triangle exactly 0. dk: double_krylov on dense Hermitian H of dimension 1..16 with "
                "op = -i dt H, dt 0.01..10, tolerance 1e-4..1e-13, max_krylov_dim 0..100, state / cotangent random, zero "
                "(F-27), eigenvectors, equal, basis vectors, supported in an invariant block (happy breakdown after "
                "1..3 iterations), H scaled by 1e-9 (own PRNG stream derived from the seed). one PRNG otherwise; distinct by input hash")
    ctx.trusted_base += ["hand-written models coq/Model/PchipAD.v (tape + VJP rules) and coq/Model/SvGrad.v, validated "
                         "against torch on every run", "Coq PrimFloat = IEEE binary64 = torch float64 elementwise kernels",
                         "torch's VJP formulas for add/sub/mul/div/where as transcribed in Model/PchipAD.v (validated by "
                         "the nan/inf-exact comparison with torch.autograd.grad)",
                         "exactness of float64 + - * on small Gaussian integers (DHD tie)",
                         "hand-written model coq/Model/DoubleKrylov.v of lanczos / double_krylov, validated by the exact "
                         "event-trace tie on every run; op, norm, tensordot, matrix_exp are oracles of that model (their "
                         "values are logged from the real run through a torch.Tensor subclass with __torch_function__ "
                         "and torch.zeros rebound to return it)"]
    ctx.assumptions += ["accuracy of the Frechet derivative / double Krylov decomposition is NOT proved: validated, at the "
                        "case's krylov tolerance (1e-10) and at 1e-13, against autograd through an independent dense "
                        "matrix_exp evolution, every entry of every block. Allowed deviation of a parameter gradient: "
                        "4 * steps * sqrt(2 * krylov_tolerance) * (largest |gradient| over ALL of omega/delta/phi/U, "
                        "floored at 1e-3) + 1e-10; of the initial-state gradient: 1e3 * steps * tolerance * scale + 1e-10 "
                        "(derivation in param_grad_bound: a Lanczos run that stops as soon as exp(A)v is within tol leaves "
                        "a RELATIVE error up to sqrt(2 tol) in the Frechet derivative of a nearly idle step; measured "
                        "worst case on /repo 0.90 sqrt(tol)). So emu-sv gradients are accurate to O(sqrt(krylov_tolerance)), "
                        "not O(krylov_tolerance) as double_krylov's docstring says -- recorded as an observation, not a "
                        "violation (the statement's 'matches' is read at that accuracy)",
                        "central differences (step 1e-4) are taken of the emulated result at krylov tolerance 1e-13 and "
                        "compared with the gradient at the same tolerance (bound above + 1e-4 * scale + 1e-7): a "
                        "difference quotient of a forward run at tolerance 1e-10 can deviate by 2e-4 relative although "
                        "the gradient equals the dense reference to 1e-16",
                        "PCHIP theorems are in real arithmetic with an explicit division-by-zero error; binary64 "
                        "overflow/underflow is outside (generated data is moderate)",
                        "PCHIP1D is only piecewise smooth in y: finite differences are compared along directions that keep "
                        "all branch decisions fixed within the FD step",
                        "gradients w.r.t. the knots x and the query points are outside (the adapter uses a fixed grid)",
                        "pulser's StateResult deep-copies the state and cannot be differentiated; the final state is read "
                        "from SVBackendImpl.state", "pulser's InterpolatedWaveform (scipy) cannot carry gradients; flat "
                        "interpolated signals are covered at the adapter level (samples requiring grad)"]


def replay(ctx, path):
    import warnings

    warnings.filterwarnings("ignore")
    rp = json.loads(open(path).read())
    c = rp["case"]
    if rp.get("kind") == "dhd":
        out = dhd_impl(c)
        dhd_oracle(ctx, c, out)
        print("replay dhd case N =", c["N"])
        return
    if rp.get("kind") == "adapter":
        fwd, gr = adapter_impl(c)
        adapter_oracle(ctx, c, fwd, gr)
        print("replay adapter case: T =", c["T"], "dt =", c["dt"], "grad amp[:4] =", gr[0][:4], "det[:4] =", gr[1][:4])
        return
    if rp.get("kind") == "pchip":
        c = dict(c, kind="pchip")
    s = run_case(ctx, c)
    print("replay:", {k: (v if not isinstance(v, list) else v[:8]) for k, v in s.items()})


META = {
    "category": "proof",
    "technique": "Coq proofs over the ring model of C06 (derivative operators) and over a Gallina reverse-mode AD "
                 "evaluator of PCHIP1D (R + PrimFloat) + control state machine of lanczos / double_krylov over oracle "
                 "streams with an exact kernel-call event-trace tie + exact / bit-exact correspondences with torch + "
                 "dense-autograd-reference / finite-difference falsifier through the real emu-sv backend",
    "text": ("Proved for every N and every commutative *-ring: DHDOmega/Delta/U/PhiSparse applied to v equal "
             "H(theta + t e) v - H(theta) v divided by t (the Hamiltonian is affine in each parameter and in "
             "e = exp(i phi); exp(i(phi+pi/2)) is the derivative of exp(i phi) over C), the lower triangle of U is "
             "not read, the phi = 0 fast path agrees with the general one, and backward's tensordot equals "
             "tr(dH Vs^T dS conj(Vg)). Proved for every knot count: with the double where no division in the forward "
             "or reverse pass of PCHIP1D divides by zero (all values, strictly increasing knots); refuted for the "
             "source as it is (R: zero divisor; binary64: NaN gradient for y = 0,1,1,0). Proved for every oracle "
             "stream, tolerance and max_krylov_dim (Model/DoubleKrylov.v, C30_lanczos_contract, "
             "C30_lanczos_operator_applications, C30_lanczos_returns_iff, C30_double_krylov_contract, "
             "C30_double_krylov_sequencing): lanczos exits at the first iteration meeting a test and raises "
             "RecursionError otherwise, never indexes out of range, applies the operator to v_0, v_1, ... once each in "
             "order (always the newest vector), orthogonalises against vectors max(0,j-1)..j only, returns iterations "
             "(breakdown) or iterations+1 vectors; double_krylov returns iff both runs do, dS is len(Vs) x len(Vg) "
             "with both in 1..max_krylov_dim+1, at most 2 max_krylov_dim operator applications, state run before "
             "gradient run, a failed state run skips the gradient run. Proved over any non-commutative ring "
             "(C30_block_triangular_powers): [[a,e],[0,b]]^n has top-right block sum_k a^k e b^(n-1-k). Validated only: that the "
             "models are the code (exact / bit-exact ties each run) and the accuracy of the Krylov Frechet derivative "
             "(dense autograd reference + central differences)."),
    "note": ("Trusted: Coq kernel+VM, stdlib real axioms, the hand-written models (tied each run; Model/DoubleKrylov.v by "
             "the exact tagged event trace of double_krylov with recording kernels incl. zero cotangents / breakdowns / "
             "non-convergence, and bit-exact Ts, Tg, block matrix), PrimFloat == torch float64. Findings: F-16 pchip-nan-gradient and intermediate-observable-gradient (fixed in /repo); "
             "energy-gradient (open known finding). Oracle tolerance for emu-sv gradients vs autograd through the "
             "dense reference, per case at its krylov tolerance tol (1e-10) and again at 1e-13: parameter gradients "
             "|AD - ref| <= 4 * steps * sqrt(2 * tol) * S + 1e-10 with S = max |gradient| over all of omega, delta, phi, "
             "U (floored at 1e-3); initial-state gradient <= 1e3 * steps * tol * S_psi + 1e-10. sqrt(2 tol) per step is "
             "the derived (and measured: 0.90 sqrt(tol)) worst relative error of the Frechet derivative after a "
             "Lanczos run that stops once exp(A)v is within tol. Central differences: step 1e-4, forward and gradient at "
             "tolerance 1e-13, same bound + 1e-4 * S + 1e-7."),
}
