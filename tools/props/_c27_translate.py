"""Fail-closed translator: body of `MPSBackendImpl.save_simulation` -> Gallina `list op` (coq/Gen/SaveOps.v).

Accepted statement forms (anything else raises Unsupported => broken obligation):
  if <pure test>: return                         the time trigger (no file-system access)
  NAME = <path>                                  path alias
  with open(<path>, "wb") as F: pickle.dump(self, F)          -> Write path
  os.rename(<p>, <q>) | <p>.rename(<q>)                        -> Rename p q
  os.replace(<p>, <q>) | <p>.replace(<q>)                      -> Replace p q
  os.remove(<p>) | os.unlink(<p>) | <p>.unlink()               -> Remove p
  NAME = os.path.getsize(<p>) [/ const]                        -> Stat p
  if [not] <p>.is_file()|.exists(): <one primitive>            -> IfFile / IfNotFile
  self.last_save_time = time.time()              pure
  logging.getLogger(..).debug|info(..)           pure (may mention bound names only)
Paths: self.autosave_file | alias | <path>.with_suffix(".xyz") -> Sfx "xyz" (last suffix replaced) |
       <adv>.with_name(<adv>.name + ".xyz") -> App "xyz" (appended).  Whether two of them are the same file depends
       on how the advertised name ends; the model evaluates every class (Model/Fs.v: canon, all_classes).
"""
from __future__ import annotations

import ast
from typing import Dict, List, Tuple


class Unsupported(Exception):
    pass


ADV_SUFFIX = ".dat"  # MPSBackendImpl._get_autosave_filepath: prefix + uuid + ".dat"


def _src(node) -> str:
    return ast.unparse(node)


class _T:
    def __init__(self):
        self.alias: Dict[str, str] = {}  # python name -> gallina name term
        self.pure_names = set()
        self.ops: List[str] = []
        self.trigger = None

    # ---- paths
    def path(self, e) -> str:
        if isinstance(e, ast.Attribute) and isinstance(e.value, ast.Name) and e.value.id == "self" \
                and e.attr == "autosave_file":
            return "Adv"
        if isinstance(e, ast.Name) and e.id in self.alias:
            return self.alias[e.id]
        if (isinstance(e, ast.Call) and isinstance(e.func, ast.Attribute) and e.func.attr == "with_suffix"
                and len(e.args) == 1 and not e.keywords and isinstance(e.args[0], ast.Constant)
                and isinstance(e.args[0].value, str)):
            self.path(e.func.value)  # must itself be a path derived from the advertised one
            suf = e.args[0].value
            if not (suf.startswith(".") and len(suf) > 1 and suf[1:].isalnum()):
                raise Unsupported(f"suffix {suf!r}")
            return f'(Sfx "{suf[1:]}")'
        # <adv>.with_name(<adv>.name + ".xyz"): the suffix is APPENDED to the advertised file name
        if (isinstance(e, ast.Call) and isinstance(e.func, ast.Attribute) and e.func.attr == "with_name"
                and len(e.args) == 1 and not e.keywords and isinstance(e.args[0], ast.BinOp)
                and isinstance(e.args[0].op, ast.Add) and isinstance(e.args[0].right, ast.Constant)
                and isinstance(e.args[0].right.value, str) and isinstance(e.args[0].left, ast.Attribute)
                and e.args[0].left.attr == "name"):
            if self.path(e.func.value) != "Adv" or self.path(e.args[0].left.value) != "Adv":
                raise Unsupported(f"with_name on a path other than the advertised one: `{_src(e)}`")
            suf = e.args[0].right.value
            if not (suf.startswith(".") and len(suf) > 1 and suf[1:].isalnum()):
                raise Unsupported(f"suffix {suf!r}")
            return f'(App "{suf[1:]}")'
        raise Unsupported(f"path expression `{_src(e)}`")

    def is_path(self, e) -> bool:
        try:
            self.path(e)
            return True
        except Unsupported:
            return False

    # ---- primitives
    def prim_call(self, c: ast.Call) -> str:
        if c.keywords:
            raise Unsupported(f"keyword arguments in `{_src(c)}`")
        f = c.func
        if isinstance(f, ast.Attribute) and isinstance(f.value, ast.Name) and f.value.id == "os":
            if f.attr == "rename" and len(c.args) == 2:
                return f"Rename {self.path(c.args[0])} {self.path(c.args[1])}"
            if f.attr == "replace" and len(c.args) == 2:
                return f"Replace {self.path(c.args[0])} {self.path(c.args[1])}"
            if f.attr in ("remove", "unlink") and len(c.args) == 1:
                return f"Remove {self.path(c.args[0])}"
        if isinstance(f, ast.Attribute) and self.is_path(f.value):
            if f.attr == "rename" and len(c.args) == 1:
                return f"Rename {self.path(f.value)} {self.path(c.args[0])}"
            if f.attr == "replace" and len(c.args) == 1:
                return f"Replace {self.path(f.value)} {self.path(c.args[0])}"
            if f.attr == "unlink" and len(c.args) == 0:
                return f"Remove {self.path(f.value)}"
        raise Unsupported(f"call `{_src(c)}`")

    def getsize(self, e):
        """os.path.getsize(p) [/ const] -> path term or None"""
        if isinstance(e, ast.BinOp) and isinstance(e.op, (ast.Div, ast.Mult, ast.FloorDiv)) \
                and isinstance(e.right, ast.Constant):
            e = e.left
        if (isinstance(e, ast.Call) and _src(e.func) == "os.path.getsize" and len(e.args) == 1
                and not e.keywords):
            return self.path(e.args[0])
        return None

    def prim_stmt(self, s) -> str:
        """a statement that is exactly one primitive"""
        if isinstance(s, ast.Expr) and isinstance(s.value, ast.Call):
            return self.prim_call(s.value)
        if isinstance(s, ast.With):
            return self.write(s)
        if isinstance(s, ast.Assign) and len(s.targets) == 1 and isinstance(s.targets[0], ast.Name):
            p = self.getsize(s.value)
            if p is not None:
                self.pure_names.add(s.targets[0].id)
                return f"Stat {p}"
        raise Unsupported(f"statement `{_src(s)}`")

    def write(self, s: ast.With) -> str:
        if len(s.items) != 1 or len(s.body) != 1:
            raise Unsupported(f"with-statement `{_src(s)}`")
        it = s.items[0]
        c = it.context_expr
        if not (isinstance(c, ast.Call) and isinstance(c.func, ast.Name) and c.func.id == "open"
                and len(c.args) == 2 and not c.keywords and isinstance(c.args[1], ast.Constant)
                and c.args[1].value == "wb" and isinstance(it.optional_vars, ast.Name)):
            raise Unsupported(f"with-item `{_src(it)}`")
        fh = it.optional_vars.id
        b = s.body[0]
        if not (isinstance(b, ast.Expr) and isinstance(b.value, ast.Call)
                and _src(b.value.func) == "pickle.dump" and len(b.value.args) == 2 and not b.value.keywords
                and _src(b.value.args[0]) == "self" and _src(b.value.args[1]) == fh):
            raise Unsupported(f"with-body `{_src(b)}`")
        return f"Write {self.path(c.args[0])}"

    # ---- purity
    def pure_expr(self, e) -> bool:
        """no file-system access: only self attributes, time.time(), constants, arithmetic, bound names"""
        for n in ast.walk(e):
            if isinstance(n, ast.Call):
                if _src(n) == "time.time()":
                    continue
                return False
            if isinstance(n, ast.Name) and n.id not in ("self", "time") and n.id not in self.pure_names \
                    and n.id not in self.alias:
                return False
        return True

    def is_log(self, s) -> bool:
        if not (isinstance(s, ast.Expr) and isinstance(s.value, ast.Call)):
            return False
        c = s.value
        f = c.func
        if not (isinstance(f, ast.Attribute) and f.attr in ("debug", "info", "warning")
                and isinstance(f.value, ast.Call) and _src(f.value.func) == "logging.getLogger"):
            return False
        for a in list(c.args) + [k.value for k in c.keywords]:
            for n in ast.walk(a):
                if isinstance(n, ast.Call):
                    return False
                if isinstance(n, ast.Name) and n.id != "self" and n.id not in self.pure_names \
                        and n.id not in self.alias:
                    return False
        return True

    # ---- statements
    def stmt(self, s, first: bool):
        if isinstance(s, ast.Expr) and isinstance(s.value, ast.Constant) and isinstance(s.value.value, str):
            return  # docstring
        if isinstance(s, ast.If):
            t = s.test
            neg = False
            if isinstance(t, ast.UnaryOp) and isinstance(t.op, ast.Not):
                neg, t = True, t.operand
            if (isinstance(t, ast.Call) and isinstance(t.func, ast.Attribute)
                    and t.func.attr in ("is_file", "exists") and not t.args and not t.keywords
                    and self.is_path(t.func.value)):
                if s.orelse or len(s.body) != 1:
                    raise Unsupported(f"guarded block with else / several statements: `{_src(s)[:80]}`")
                p = self.prim_stmt(s.body[0])
                self.ops.append(f"{'IfNotFile' if neg else 'IfFile'} {self.path(t.func.value)} ({p})")
                return
            if (len(s.body) == 1 and isinstance(s.body[0], ast.Return) and s.body[0].value is None
                    and not s.orelse and self.pure_expr(s.test)):
                if self.ops:
                    raise Unsupported("early return after a file-system operation")
                self.trigger = _src(s.test)
                return
            raise Unsupported(f"if-statement `{_src(s)[:100]}`")
        if isinstance(s, ast.Assign) and len(s.targets) == 1:
            tg = s.targets[0]
            if isinstance(tg, ast.Name) and self.is_path(s.value):
                self.alias[tg.id] = self.path(s.value)
                return
            if _src(tg) == "self.last_save_time" and self.pure_expr(s.value):
                return
            if isinstance(tg, ast.Name) and self.getsize(s.value) is None and self.pure_expr(s.value):
                self.pure_names.add(tg.id)
                return
        if self.is_log(s):
            return
        self.ops.append(f"Do ({self.prim_stmt(s)})")


def translate(source: str, cls: str = "MPSBackendImpl", fn: str = "save_simulation") -> Tuple[str, dict]:
    tree = ast.parse(source)
    fdef = None
    for n in tree.body:
        if isinstance(n, ast.ClassDef) and n.name == cls:
            for m in n.body:
                if isinstance(m, ast.FunctionDef) and m.name == fn:
                    fdef = m
    if fdef is None:
        raise Unsupported(f"{cls}.{fn} not found")
    if [a.arg for a in fdef.args.args] != ["self"] or fdef.decorator_list:
        raise Unsupported("signature of save_simulation")
    t = _T()
    for i, s in enumerate(fdef.body):
        t.stmt(s, i == 0)
    if t.trigger is None:
        raise Unsupported("time trigger `if ...: return` not found")
    body = ";\n   ".join(t.ops)
    text = (
        "(* GENERATED by tools/props/_c27_translate.py from emu_mps/mps_backend_impl.py\n"
        "   (MPSBackendImpl.save_simulation); regenerated on every run. Do not edit. *)\n"
        "From Coq Require Import List String.\nFrom EV Require Import Model.Fs.\n"
        "Import ListNotations.\nOpen Scope string_scope.\n\n"
        f"(* trigger: returns without touching the disk when `{t.trigger}` *)\n"
        f"Definition save_ops : list op :=\n  [{body}].\n"
    )
    return text, {"ops": t.ops, "trigger": t.trigger}
