"""Fail-closed translator for C26: orchestration of a normal run / of resume (mps_backend.py) and the shape of
__getstate__/__setstate__ (mps_backend_impl.py) -> coq/Gen/ResumeFlow.v.  Every statement must match one of the
patterns below (on `ast.unparse` text); anything else raises Unsupported => broken obligation."""
from __future__ import annotations

import ast
import re

from props._c27_translate import Unsupported, _T, _src

EXCLUDED_METHODS = {"__init__", "__getstate__", "__setstate__", "save_simulation", "_get_autosave_filepath",
                    "permute_results"}
STEP_CLASSES = ("MPSBackendImpl", "NoisyMPSBackendImpl", "DMRGBackendImpl")


def _method(tree, cls, fn):
    for n in tree.body:
        if isinstance(n, ast.ClassDef) and n.name == cls:
            for m in n.body:
                if isinstance(m, ast.FunctionDef) and m.name == fn:
                    return m
    raise Unsupported(f"{cls}.{fn} not found")


def _body(f):
    b = list(f.body)
    if b and isinstance(b[0], ast.Expr) and isinstance(b[0].value, ast.Constant) and isinstance(b[0].value.value, str):
        b = b[1:]
    return b


PERM_ARG = r"(?:impl\.)?config\.optimize_qubit_ordering"


def flow_of(f, is_resume: bool):
    out = []
    var = None
    done = False
    for s in _body(f):
        t = _src(s)
        if done:
            raise Unsupported(f"statement after return: `{t}`")
        if re.fullmatch(r"impl = create_impl\(sequence_data, config\)", t):
            out.append("SCreate")
        elif re.fullmatch(r"impl\.init\(\)", t):
            out.append("SInit")
        elif re.fullmatch(r"if isinstance\(autosave_file, str\):\n\s+autosave_file = pathlib\.Path\(autosave_file\)", t):
            out.append("SCoerce")
        elif re.fullmatch(r"if not autosave_file\.is_file\(\):\n\s+raise ValueError\(.*\)", t):
            out.append("SCheckFile")
        elif re.fullmatch(r"with open\(autosave_file, 'rb'\) as (\w+):\n\s+impl(: MPSBackendImpl)? = pickle\.load\(\1\)", t):
            out.append("SLoad")
        elif (m := re.fullmatch(r"impl\.(\w+) = (.*)", t)) and "\n" not in t:
            allowed = {"autosave_file": "autosave_file", "last_save_time": r"time\.time\(\)"}
            if m.group(1) not in allowed or not re.fullmatch(allowed[m.group(1)], m.group(2)):
                raise Unsupported(f"resume rebinds impl.{m.group(1)} to `{m.group(2)}`")
            out.append(f'SRebind "{m.group(1)}"')
        elif re.fullmatch(r"logger = init_logging\(impl\.config\.log_level, impl\.config\.log_file\)", t) or \
                re.fullmatch(r"logger\.(warning|info|debug)\(f?['\"].*\)", t, flags=re.S):
            out.append("SLog")
        elif (m := re.fullmatch(r"(\w+) = MPSBackend\._run\(impl\)", t)):
            var = m.group(1)
            out.append("SRun")
        elif re.fullmatch(r"return MPSBackend\._run\(impl\)", t):
            out.append("SRun")
            done = True
        elif re.fullmatch(rf"return impl\.permute_results\(MPSBackend\._run\(impl\), {PERM_ARG}\)", t):
            out += ["SRun", "SPermute"]
            done = True
        elif var and re.fullmatch(rf"return impl\.permute_results\({var}, {PERM_ARG}\)", t):
            out.append("SPermute")
            done = True
        elif var and re.fullmatch(rf"{var} = impl\.permute_results\({var}, {PERM_ARG}\)", t):
            out.append("SPermute")
        elif var and re.fullmatch(rf"return {var}", t):
            done = True
        else:
            raise Unsupported(f"{f.name}: statement `{t[:120]}`")
    if not done or out.count("SRun") != 1:
        raise Unsupported(f"{f.name}: no single run/return")
    return out


class _Tail(_T):
    def path(self, e):
        if _src(e) in ("impl.autosave_file", "self.autosave_file"):
            return "Adv"
        return super().path(e)


def inner_run(f):
    b = _body(f)
    if not b or not re.fullmatch(r"while not impl\.is_finished\(\):\n\s+impl\.progress\(\)", _src(b[0])):
        raise Unsupported("_run: progress loop")
    if not b or _src(b[-1]) != "return impl.results":
        raise Unsupported("_run: return impl.results")
    t = _Tail()
    for s in b[1:-1]:
        t.stmt(s, False)
    return t.ops


def getstate_overrides(f):
    b = _body(f)
    if not b or _src(b[0]) != "d = self.__dict__.copy()":
        raise Unsupported("__getstate__ does not start from a copy of __dict__")
    if _src(b[-1]) != "return d":
        raise Unsupported("__getstate__ does not return d")
    over = []
    for s in b[1:-1]:
        t = _src(s)
        if (m := re.fullmatch(r"d\['(\w+)'\](?:\.\w+)* = .*", t)):
            over.append(m.group(1))
        elif (m := re.fullmatch(r"(?:del d\['(\w+)'\]|d\.pop\('(\w+)'(?:, .*)?\))", t)):
            over.append(m.group(1) or m.group(2))
        elif re.fullmatch(r"for obs in cp\.observables:\n\s+obs\.apply = MethodType\(type\(obs\)\.apply, obs\)", t):
            pass  # acts on the fresh config copy only
        elif re.fullmatch(r"(options|cp) = .*", t) and "d[" not in t and "\n" not in t:
            pass
        else:
            raise Unsupported(f"__getstate__: statement `{t[:120]}`")
    return list(dict.fromkeys(over))


def setstate_overrides(f):
    b = _body(f)
    if not b or _src(b[0]) != "self.__dict__ = d":
        raise Unsupported("__setstate__ does not install d as __dict__")
    over = []
    for s in b[1:]:
        t = _src(s)
        if (m := re.fullmatch(r"self\.(\w+) = .*", t)) and "\n" not in t:
            over.append(m.group(1))
        elif (m := re.fullmatch(r"self\.(\w+)\.\w+\(.*\)", t)) and "\n" not in t:
            over.append(m.group(1))
        else:
            raise Unsupported(f"__setstate__: statement `{t[:120]}`")
    return list(dict.fromkeys(over))


def step_fields(tree):
    fields = []
    for n in tree.body:
        if isinstance(n, ast.ClassDef) and n.name in STEP_CLASSES:
            for m in n.body:
                if isinstance(m, ast.FunctionDef) and m.name not in EXCLUDED_METHODS:
                    for a in ast.walk(m):
                        if isinstance(a, ast.Attribute) and isinstance(a.value, ast.Name) and a.value.id == "self":
                            fields.append(a.attr)
    return sorted(set(fields))


def translate(backend_src: str, impl_src: str):
    bt, it = ast.parse(backend_src), ast.parse(impl_src)
    run_flow = flow_of(_method(bt, "MPSBackend", "_run_from_sequence_data"), False)
    resume_flow = flow_of(_method(bt, "MPSBackend", "resume"), True)
    tail = inner_run(_method(bt, "MPSBackend", "_run"))
    g = getstate_overrides(_method(it, "MPSBackendImpl", "__getstate__"))
    st = setstate_overrides(_method(it, "MPSBackendImpl", "__setstate__"))
    for c in STEP_CLASSES[1:]:
        for fn in ("__getstate__", "__setstate__", "__reduce__", "__reduce_ex__"):
            try:
                _method(it, c, fn)
            except Unsupported:
                continue
            raise Unsupported(f"{c} overrides {fn}")
    reads = step_fields(it)
    q = lambda l: "[" + "; ".join(f'"{x}"' for x in l) + "]"  # noqa: E731
    text = (
        "(* GENERATED by tools/props/_c26_translate.py from emu_mps/mps_backend.py and mps_backend_impl.py;\n"
        "   regenerated on every run. Do not edit. *)\n"
        "From Coq Require Import List String.\nFrom EV Require Import Model.Fs Model.Resume.\n"
        "Import ListNotations.\nOpen Scope string_scope.\n\n"
        f"Definition run_flow : list stage := [{'; '.join(run_flow)}].\n"
        f"Definition resume_flow : list stage := [{'; '.join(resume_flow)}].\n"
        f"(* _run after the progress loop *)\nDefinition run_tail : list op := [{'; '.join(tail)}].\n"
        f"Definition get_over : list string := {q(g)}.\n"
        f"Definition set_over : list string := {q(st)}.\n"
        f"(* self.<field> occurring in the stepping methods of {', '.join(STEP_CLASSES)} *)\n"
        f"Definition step_reads : list string :=\n  {q(reads)}.\n"
    )
    return text, {"run_flow": run_flow, "resume_flow": resume_flow, "run_tail": tail, "get_over": g,
                  "set_over": st, "n_step_fields": len(reads)}
