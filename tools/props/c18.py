"""C18 — quantum-jump stepping completes every time step once, in order, and terminates."""
from props import _mps_trace as T
from props.c02 import trace_stage
from vlib import common


def falsifier(ctx, n_cases):
    """Property-level oracle on the REAL NoisyMPSBackendImpl with scripted norm/uniform streams:
    fills once per step in order at the step's end time; every jump time inside the step in progress;
    every intermediate target time inside the step; termination within the budget."""
    for i in range(n_cases):
        case = T.gen_case(ctx.rng, "Noisy")
        case["nprog"] = 5000
        r = T.run_impl(case)
        if r["outcome"] in ("assert", "oracle", "index", "value"):
            continue  # scripted stream made the run stop (threshold hit exactly, stream exhausted, ...)
        times = case["times"]
        fills = [(e[1][0], e[2][0]) for e in r["events"] if e[0] == 11]
        exp = [(0, 0.0)] + [(k, times[k + 1]) for k in range(len(fills) - 1)]
        ser = {k: v for k, v in case.items()}
        if fills != exp:
            ctx.violation("fill_results not called once per time step, in order, at the step's end time",
                          {"case": ser, "fills": fills, "finding_key": "noisy-fill-order"})
        if r["outcome"] == "finished" and len(fills) != case["steps"] + 1:
            ctx.violation("finished run did not record every time step",
                          {"case": ser, "fills": fills, "finding_key": "noisy-fill-count"})
        if r["outcome"] == "budget":
            ctx.violation("noisy run did not terminate within 5000 progress() calls",
                          {"case": ser, "finding_key": "noisy-nontermination"})
        # jumps and intermediate targets inside the step in progress
        k = 0
        for e in r["events"]:
            if e[0] == 11 and e[2][0] != 0.0:
                k = e[1][0] + 1
            if e[0] == 14 and k + 1 < len(times):
                t = e[2][0]
                if not (times[k] - 1e-9 <= t <= times[k + 1] + 1e-9):
                    ctx.violation(f"quantum jump applied at t={t} outside the current step [{times[k]},{times[k+1]}]",
                                  {"case": ser, "finding_key": "jump-outside-step"})
        for snap in r["snapshots"]:
            tidx, tgt = snap[0][2], snap[1][1]
            if tidx + 1 < len(times) and not (times[tidx] - 1e-9 <= tgt <= times[tidx + 1] + 1e-9):
                ctx.violation(f"target_time {tgt} outside the step in progress [{times[tidx]},{times[tidx+1]}]",
                              {"case": ser, "finding_key": "target-outside-step"})
        ctx.count_case({"kind": "noisy-oracle", "N": case["N"], "steps": case["steps"],
                        "jumps": sum(1 for e in r["events"] if e[0] == 14), "outcome": r["outcome"]},
                       nontrivial=any(e[0] == 14 for e in r["events"]))


def run(ctx):
    common.coq_make(["Model/MpsMachine.vo"])
    common.standard_proof_stage(ctx, "C18", ["Properties/C18.vo", "Properties/C19.vo"])
    trace_stage(ctx, "Noisy", ctx.n(80, 1500), "C18trace")
    falsifier(ctx, ctx.n(60, 1000))
    ctx.rule = ("scripted noisy stepping cases (N 2..9, 1-5 steps; norm streams: physical exponential decay with "
                "renormalisation at jumps (several jumps per step), random dyadic, decaying lists, no-jump, "
                "threshold hit exactly; uniform streams dyadic): real NoisyMPSBackendImpl with kernels stubbed vs the "
                "Gallina machine incl. the generated Brent root finder, every event/attribute, times bit-exact; "
                "non-trivial = >= 10 events (trace) / >= 1 jump (oracle)")
    ctx.assumptions += ["termination for every oracle stream is NOT proved (an adversarial norm stream can request "
                        "jumps forever); the falsifier bounds real runs by 5000 progress() calls",
                        "math.isclose(norm, 1) after a jump is modelled as equality with 1 (streams script exactly 1.0 or 2.0)"]


def replay(ctx, path):
    import json
    rp = json.load(open(path))
    r = T.run_impl(rp["case"])
    print("replay outcome:", r["outcome"], "events:", len(r["events"]))


META = {
    "category": "proof",
    "technique": "Coq state-machine model (with the generated Brent root finder inside) + exact trace correspondence; theorems on the sweep schedule and the root finder (C19); property oracle on scripted norm streams",
    "text": ("Proved for every N>=3, every increasing target-time list and EVERY norm/uniform/matrix-change oracle stream, by "
             "induction over sweeps: the run either stops with one of three explicit errors (oracle exhausted, norm gap exactly 0 "
             "at the root-finder constructor, renormalised norm != 1) or keeps the invariant: current time inside the step in "
             "progress; a running root search has a valid Brent bracket inside the step and its pending abscissa as target "
             "(uses the C19 theorems on the same generated term); fill_results exactly once per step, in order, at the step's "
             "end time; every quantum jump at a time inside the step in progress. Each sweep is exactly 2N-3 progress() calls "
             "with the symmetric kernel schedule. Termination for all streams is false (an adversarial norm stream can request "
             "jumps forever) and is only bounded on the real code by the falsifier."),
    "note": "Trusted: Coq kernel+VM, hand-written machine model validated by trace correspondence, generated Brent model (C19).",
}
