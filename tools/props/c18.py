"""C18 — quantum-jump stepping completes every time step once, in order, and terminates."""
from props import _mps_trace as T
from props.c02 import trace_stage
from vlib import common


def _probe(times):
    """A do-nothing observable due at the end of every time step, so that fill_results runs its full body."""
    from pulser.backend import Observable

    class Probe(Observable):
        @property
        def _base_tag(self):
            return "probe"

        def apply(self, *, config, state, hamiltonian, **kw):
            return 0.0

    try:  # pulser-core >= 1.9 wants the aggregation method declared
        from pulser.backend.observable import AggregationMethod
        kw = {"default_aggregation_method": AggregationMethod.SKIP}
    except ImportError:
        kw = {}
    return Probe(evaluation_times=[t / times[-1] for t in times[1:]], **kw)


def falsifier(ctx, n_cases):
    """Property-level oracle on the REAL NoisyMPSBackendImpl with scripted norm/uniform streams:
    fills once per step in order at the step's end time; every jump time inside the step in progress;
    every intermediate target time inside the step; termination within the budget."""
    for i in range(n_cases):
        case = T.gen_case(ctx.rng, "Noisy")
        case["nprog"] = 5000
        r = T.run_impl(case, observables=[_probe(case["times"])] if i % 2 == 0 else None)
        if r["outcome"] in ("assert", "oracle", "index", "value"):
            continue  # scripted stream made the run stop (threshold hit exactly, stream exhausted, ...)
        times = case["times"]
        fills = [(e[1][0], e[2][0]) for e in r["events"] if e[0] == 11]
        exp = [(0, 0.0)] + [(k, times[k + 1]) for k in range(len(fills) - 1)]
        ser = {k: v for k, v in case.items()}
        if fills != exp:
            ctx.violation("fill_results not called once per time step, in order, at the step's end time",
                          {"case": ser, "fills": fills, "finding_key": "noisy-fill-order"})
        if r["outcome"] == "finished" and len(fills) != case["steps"] + 1:
            ctx.violation("finished run did not record every time step",
                          {"case": ser, "fills": fills, "finding_key": "noisy-fill-count"})
        if r.get("rescaled"):
            ctx.violation("the evolving state was rescaled in place outside do_random_quantum_jump at (time, inside "
                          f"fill_results) = {r['rescaled'][:3]}: its norm is the quantum-jump clock (jump when norm^2 falls "
                          "below the threshold), so jumps are delayed or lost",
                          {"case": ser, "rescaled": r["rescaled"][:10], "finding_key": "norm-clock-reset"})
        if r["outcome"] == "budget":
            ctx.violation("noisy run did not terminate within 5000 progress() calls",
                          {"case": ser, "finding_key": "noisy-nontermination"})
        # jumps and intermediate targets inside the step in progress
        k = 0
        for e in r["events"]:
            if e[0] == 11 and e[2][0] != 0.0:
                k = e[1][0] + 1
            if e[0] == 14 and k + 1 < len(times):
                t = e[2][0]
                if not (times[k] - 1e-9 <= t <= times[k + 1] + 1e-9):
                    ctx.violation(f"quantum jump applied at t={t} outside the current step [{times[k]},{times[k+1]}]",
                                  {"case": ser, "finding_key": "jump-outside-step"})
        for snap in r["snapshots"]:
            tidx, tgt = snap[0][2], snap[1][1]
            if tidx + 1 < len(times) and not (times[tidx] - 1e-9 <= tgt <= times[tidx + 1] + 1e-9):
                ctx.violation(f"target_time {tgt} outside the step in progress [{times[tidx]},{times[tidx+1]}]",
                              {"case": ser, "finding_key": "target-outside-step"})
        ctx.count_case({"kind": "noisy-oracle", "N": case["N"], "steps": case["steps"],
                        "jumps": sum(1 for e in r["events"] if e[0] == 14), "outcome": r["outcome"]},
                       nontrivial=any(e[0] == 14 for e in r["events"]))


def jump_time_oracle(ctx, n_cases):
    """Jump-time clause on the REAL NoisyMPSBackendImpl: the squared norm decays smoothly, 2^(-2 r (t - t_last)), with
    rates from fast down to far below config.precision per ns; every jump must be applied within the 1 ns root
    tolerance of the time at which the squared norm crosses the threshold in force (analytic crossing time)."""
    import math
    worst = 0.0
    for i in range(n_cases):
        rng = ctx.rng
        steps = rng.randint(1, 4)
        length = rng.choice([200.0, 2000.0, 10000.0, 50000.0])
        times = [0.0]
        for _ in range(steps):
            times.append(times[-1] + length * rng.choice([0.5, 1.0, 1.5]))
        rate = rng.choice([3e-7, 1e-6, 1e-5, 1e-4, 1e-3, 1e-2]) * rng.uniform(0.5, 2.0)
        thr = [rng.randint(1, 63) / 64.0 for _ in range(60)]
        case = dict(kind="Noisy", N=rng.choice([2, 3, 4]), steps=steps, times=times, etol=1e-5, maxsw=2000, onorm=[],
                    ounif=thr, oenergy=[], osame=[True] * steps, nprog=20000, jump_norm_one=True,
                    physical={"rate": rate, "bad_jump_norm": 0.0, "smooth": True}, jump_seed=rng.randint(0, 10 ** 6))
        r = T.run_impl(case)
        jumps = [e[2][0] for e in r["events"] if e[0] == 14]
        ctx.count_case({"kind": "jump-time", "steps": steps, "length": length, "rate_exp": round(math.log10(rate)),
                        "jumps": len(jumps), "outcome": r["outcome"]}, nontrivial=bool(jumps))
        if r["outcome"] not in ("finished",):
            if r["outcome"] == "budget":
                ctx.violation("noisy run did not terminate within 20000 progress() calls",
                              {"case": case, "finding_key": "noisy-nontermination"})
            continue
        t_last = 0.0
        for k, tj in enumerate(jumps):
            tc = t_last + math.log2(1.0 / thr[k]) / (2.0 * rate)
            worst = max(worst, abs(tj - tc))
            if abs(tj - tc) > 1.0 + 1e-6:
                ctx.violation(f"jump {k} applied at t={tj!r} but the squared norm 2^(-2*{rate:.3g}*(t-{t_last!r})) crosses "
                              f"the threshold {thr[k]} at t={tc!r}: {abs(tj - tc):.3g} ns away (root tolerance 1 ns)",
                              {"case": {k2: v for k2, v in case.items() if k2 != "onorm"}, "jump_index": k,
                               "finding_key": "jump-time-off"})
                break
            t_last = tj
        # no jump may be missing either: the norm at the end must still be above the threshold in force
        end = times[-1]
        if 2.0 ** (-2.0 * rate * (end - t_last)) < thr[len(jumps)] - 1e-9 and end - t_last > 1.0:
            tc = t_last + math.log2(1.0 / thr[len(jumps)]) / (2.0 * rate)
            if tc < end - 1.0:
                ctx.violation(f"the squared norm crosses the threshold {thr[len(jumps)]} at t={tc!r} < end {end} but no jump "
                              "was applied", {"case": {k2: v for k2, v in case.items() if k2 != "onorm"},
                                              "finding_key": "jump-missing"})
    ctx.extra["worst_jump_time_error_ns"] = worst


def run(ctx):
    common.coq_make(["Model/MpsMachine.vo"])
    common.standard_proof_stage(ctx, "C18", ["Properties/C18.vo", "Properties/C19.vo"])
    trace_stage(ctx, "Noisy", ctx.n(80, 1500), "C18trace")
    falsifier(ctx, ctx.n(60, 1000))
    jump_time_oracle(ctx, ctx.n(40, 600))
    ctx.rule = ("scripted noisy stepping cases (N 2..9, 1-5 steps; norm streams: physical exponential decay with "
                "renormalisation at jumps (several jumps per step), random dyadic, decaying lists, no-jump, "
                "threshold hit exactly; uniform streams dyadic): real NoisyMPSBackendImpl with kernels stubbed vs the "
                "Gallina machine incl. the generated Brent root finder, every event/attribute, times bit-exact; "
                "non-trivial = >= 10 events (trace) / >= 1 jump (oracle)")
    ctx.assumptions += ["termination for every oracle stream is NOT proved (an adversarial norm stream can request "
                        "jumps forever); the falsifier bounds real runs by 5000 progress() calls",
                        "math.isclose(norm, 1) after a jump is modelled as equality with 1 (streams script exactly 1.0 or 2.0)"]


def replay(ctx, path):
    import json
    rp = json.load(open(path))
    r = T.run_impl(rp["case"])
    print("replay outcome:", r["outcome"], "events:", len(r["events"]))


META = {
    "category": "proof",
    "technique": "Coq state-machine model (with the generated Brent root finder inside) + exact trace correspondence (incl. forced qubit orders); theorems on the sweep schedule, the run loop and the root finder (C19); property oracles on scripted and analytic norm streams",
    "text": ("Proved for every N>=3 (and separately for the two-site corner case N=2), every increasing target-time list and EVERY norm/uniform/matrix-change oracle stream, by "
             "induction over sweeps: the run either stops with one of three explicit errors (oracle exhausted, norm gap exactly 0 "
             "at the root-finder constructor, renormalised norm != 1) or keeps the invariant: current time inside the step in "
             "progress; a running root search has a valid Brent bracket inside the step and its pending abscissa as target "
             "(uses the C19 theorems on the same generated term); fill_results exactly once per step, in order, at the step's "
             "end time; every quantum jump at a time inside the step in progress. Each sweep is exactly 2N-3 progress() calls "
             "with the symmetric kernel schedule. Termination for all streams is false (an adversarial norm stream can request "
             "jumps forever) and is only bounded on the real code by the falsifier; what IS proved about the loop "
             "`while not finished: progress()` of MPSBackend._run (source shape pinned): whenever it returns, the state is "
             "finished, satisfies the invariant and has recorded every step exactly once. Validated on the real class only: "
             "with a smoothly decaying norm (rates from fast to far below config.precision per ns) every jump is applied within "
             "the 1 ns root tolerance of the analytic crossing time and none is missing; the evolving state is never rescaled in "
             "place outside a jump (its norm is the jump clock)."),
    "note": "Trusted: Coq kernel+VM, hand-written machine model validated by trace correspondence, generated Brent model (C19).",
}
