"""C33 — configuration safeguards are always applied (DESIGN.md §4 C33).

Tie: a dedicated fail-closed ast extractor regenerates coq/Gen/Guards.v from
/repo/emu_mps/mps_config.py (MPSConfig.__init__, check_permutable_observables) and
/repo/emu_mps/mps_backend_impl.py (DMRGBackendImpl.__init__, create_impl, permute_* tags)
on every run; the generated term at PrimFloat is compared bit-for-bit with real MPSConfig
construction, the dispatch/guard with the real create_impl.
"""
from __future__ import annotations

import ast
import itertools
import json
import logging
import math
import struct
from fractions import Fraction

from vlib import common

CFG_SRC = common.REPO / "emu_mps/mps_config.py"
IMPL_SRC = common.REPO / "emu_mps/mps_backend_impl.py"
GEN = common.COQ / "Gen" / "Guards.v"

EXC = {"AssertionError": 1, "ZeroDivisionError": 2, "NotImplementedError": 3, "ValueError": 4,
       "TypeError": 5}
EXC_INV = {v: k for k, v in EXC.items()}


class Unsupported(Exception):
    pass


def _fail(node, why=""):
    raise Unsupported(f"line {getattr(node, 'lineno', '?')}: unsupported {type(node).__name__} {why}: "
                      f"{ast.unparse(node)[:100] if isinstance(node, ast.AST) else node}")


def _err(cls, node):
    return f"(Err ({EXC[cls] * 100000 + node.lineno})%Z)"


# ------------------------------------------------------------------------------------------
# extractor
# ------------------------------------------------------------------------------------------
def _is_logging_call(node) -> bool:
    """`logger.warning(...)`, `logging.getLogger(...).warning(...)` as an expression statement."""
    if not (isinstance(node, ast.Expr) and isinstance(node.value, ast.Call)):
        return False
    f = node.value.func
    if not (isinstance(f, ast.Attribute) and f.attr in ("warning", "info", "debug", "error")):
        return False
    base = f.value
    if isinstance(base, ast.Name) and base.id == "logger":
        return True
    if (isinstance(base, ast.Call) and isinstance(base.func, ast.Attribute)
            and base.func.attr == "getLogger" and isinstance(base.func.value, ast.Name)
            and base.func.value.id == "logging"):
        return True
    return False


def _no_calls(node) -> bool:
    return not any(isinstance(n, (ast.Call, ast.NamedExpr, ast.Await, ast.Yield)) for n in ast.walk(node))


class Env:
    def __init__(self):
        self.coq = {}   # python key -> coq identifier
        self.ty = {}    # python key -> 'F' | 'B'
        self.count = {}
        self.out = {}   # backend option -> coq term

    def copy(self):
        e = Env()
        e.coq, e.ty, e.count, e.out = dict(self.coq), dict(self.ty), self.count, dict(self.out)
        return e

    def fresh(self, name):
        n = self.count.get(name, 0)
        self.count[name] = n + 1
        return name if n == 0 else f"{name}_{n}"

    def bind(self, key, ty):
        c = self.fresh(key.replace(".", "_"))
        self.coq[key], self.ty[key] = c, ty
        return c


def _float_const(node, v: float) -> str:
    fr = Fraction(ast.unparse(node).replace("_", "")) if isinstance(v, float) else Fraction(v)
    p, q = fr.numerator, fr.denominator
    if abs(p) >= 2 ** 53 or q >= 2 ** 53:
        _fail(node, "(literal is not a quotient of two exactly representable integers)")
    if q == 1:
        if float(p) != float(v):
            _fail(node, "(literal)")
        return f"(a_ofZ ar ({p})%Z)"
    if float(p) / float(q) != float(v):  # binary64 division is correctly rounded, so is the literal
        _fail(node, "(literal differs from the rounded quotient)")
    return f"(a_div ar (a_ofZ ar ({p})%Z) (a_ofZ ar ({q})%Z))"


class Tr:
    """Statement translator for the scalar/boolean guard code of a constructor body."""

    def __init__(self, env: Env):
        self.env = env

    def key(self, node):
        if isinstance(node, ast.Name):
            return node.id
        if (isinstance(node, ast.Attribute) and isinstance(node.value, ast.Name)
                and node.value.id == "self"):
            return "self." + node.attr
        return None

    def expr(self, node, env, guards):
        k = self.key(node)
        if k is not None:
            if k not in env.coq:
                _fail(node, "(unbound name)")
            return env.coq[k], env.ty[k]
        if isinstance(node, ast.Constant):
            v = node.value
            if isinstance(v, bool):
                return ("true" if v else "false"), "B"
            if isinstance(v, (int, float)):
                return _float_const(node, v), "F"
            _fail(node)
        if isinstance(node, ast.BinOp):
            ops = {ast.Add: "a_add", ast.Sub: "a_sub", ast.Mult: "a_mul", ast.Div: "a_div"}
            if type(node.op) not in ops:
                _fail(node)
            l, tl = self.expr(node.left, env, guards)
            r, tr_ = self.expr(node.right, env, guards)
            if tl != "F" or tr_ != "F":
                _fail(node, "(non-scalar operand)")
            if isinstance(node.op, ast.Div):
                guards.append((r, node))
            return f"({ops[type(node.op)]} ar {l} {r})", "F"
        if isinstance(node, ast.Compare):
            if len(node.ops) != 1:
                _fail(node, "(chained comparison)")
            l, tl = self.expr(node.left, env, guards)
            r, tr_ = self.expr(node.comparators[0], env, guards)
            if tl != "F" or tr_ != "F":
                _fail(node, "(non-scalar comparison)")
            op = node.ops[0]
            if isinstance(op, ast.Lt):
                return f"(a_ltb ar {l} {r})", "B"
            if isinstance(op, ast.LtE):
                return f"(a_leb ar {l} {r})", "B"
            if isinstance(op, ast.Gt):
                return f"(a_ltb ar {r} {l})", "B"
            if isinstance(op, ast.GtE):
                return f"(a_leb ar {r} {l})", "B"
            _fail(node)
        if isinstance(node, ast.BoolOp):
            # `and` / `or` of boolean sub-expressions; a division inside would be evaluated
            # conditionally (short circuit): not supported
            inner = []
            parts = [self.expr(v, env, inner) for v in node.values]
            if inner:
                _fail(node, "(division inside and/or)")
            if any(ty != "B" for _, ty in parts):
                _fail(node, "(non-boolean operand of and/or)")
            op = "andb" if isinstance(node.op, ast.And) else "orb"
            out = parts[-1][0]
            for t, _ in reversed(parts[:-1]):
                out = f"({op} {t} {out})"
            return out, "B"
        if isinstance(node, ast.UnaryOp) and isinstance(node.op, ast.Not):
            t, ty = self.expr(node.operand, env, guards)
            if ty != "B":
                _fail(node)
            return f"(negb {t})", "B"
        _fail(node)

    def with_guards(self, guards, body):
        for g, node in reversed(guards):
            body = f"(if a_eqb ar {g} (a_ofZ ar 0%Z) then {_err('ZeroDivisionError', node)} else\n  {body})"
        return body

    def assigned(self, stmts):
        out = []
        for s in stmts:
            if isinstance(s, ast.Assign) and len(s.targets) == 1 and isinstance(s.targets[0], ast.Name):
                if s.targets[0].id not in out:
                    out.append(s.targets[0].id)
            elif isinstance(s, ast.If):
                for n in self.assigned(s.body) + self.assigned(s.orelse):
                    if n not in out:
                        out.append(n)
        return out

    def block(self, stmts, env, k):
        """k(env) -> coq term of type `res T` for the continuation."""
        if not stmts:
            return k(env)
        s, rest = stmts[0], stmts[1:]
        cont = lambda e: self.block(rest, e, k)  # noqa: E731
        if _is_logging_call(s):
            return cont(env)
        if isinstance(s, ast.Expr) and isinstance(s.value, ast.Call):
            return self.call_stmt(s, env, cont)
        if isinstance(s, ast.Assign) and len(s.targets) == 1:
            t = s.targets[0]
            if isinstance(t, ast.Name):
                if (isinstance(s.value, ast.Call) and isinstance(s.value.func, ast.Name)
                        and s.value.func.id == "init_logging"):
                    return cont(env)  # logger = init_logging(...): no effect on the configuration
                guards = []
                v, ty = self.expr(s.value, env, guards)
                e2 = env.copy()
                name = e2.bind(t.id, ty)
                return self.with_guards(guards, f"let {name} := {v} in\n  {self.block(rest, e2, k)}")
            opt = self.option_target(t)
            if opt is not None:
                guards = []
                v, ty = self.expr(s.value, env, guards)
                e2 = env.copy()
                e2.out[opt] = (v, ty)
                return self.with_guards(guards, self.block(rest, e2, k))
            _fail(s)
        if isinstance(s, ast.AugAssign):
            opt = self.option_target(s.target)
            if (opt is None or not isinstance(s.op, ast.BitAnd) or opt not in env.out
                    or env.out[opt][1] != "B"):
                _fail(s)
            c = s.value
            if not (isinstance(c, ast.Call) and not c.args and not c.keywords
                    and ast.unparse(c.func) == "self.check_permutable_observables"):
                _fail(s, "(only `&= self.check_permutable_observables()` is understood)")
            e2 = env.copy()
            e2.out[opt] = (f"(andb {env.out[opt][0]} (check_permutable_observables tags))", "B")
            return self.block(rest, e2, k)
        if isinstance(s, ast.Assert):
            guards = []
            t, ty = self.expr(s.test, env, guards)
            if ty != "B":
                _fail(s)
            return self.with_guards(guards, f"(if {t} then\n  {cont(env)}\n  else {_err('AssertionError', s)})")
        if isinstance(s, ast.If):
            if all(_is_logging_call(x) for x in s.body + s.orelse) and _no_calls(s.test):
                return cont(env)  # only logs
            guards = []
            t, ty = self.expr(s.test, env, guards)
            if ty != "B":
                _fail(s)
            names = self.assigned([s])
            if not names:
                _fail(s, "(if without assignments)")
            for sub in ast.walk(s):
                if isinstance(sub, (ast.AugAssign, ast.Subscript, ast.Return, ast.Raise)):
                    _fail(sub, "(inside if)")

            def tup(e):
                for n in names:
                    if n not in e.coq:
                        _fail(s, f"({n} not assigned on every path)")
                return "Ok (" + ", ".join(e.coq[n] for n in names) + ")"

            b1 = self.block(s.body, env.copy(), tup)
            b2 = self.block(s.orelse, env.copy(), tup)
            e2 = env.copy()
            tys = []
            for n in names:
                # type = that of the then-branch value (both branches are checked to agree below)
                tys.append("F")
            pats = [e2.bind(n, "F") for n in names]
            pat = pats[0] if len(pats) == 1 else "'(" + ", ".join(pats) + ")"
            return self.with_guards(
                guards,
                f"res_bind (if {t} then\n    {b1}\n  else\n    {b2})\n  (fun {pat} =>\n  {self.block(rest, e2, k)})")
        _fail(s)

    def option_target(self, t):
        if (isinstance(t, ast.Subscript) and ast.unparse(t.value) == "self._backend_options"
                and isinstance(t.slice, ast.Constant) and isinstance(t.slice.value, str)):
            return t.slice.value
        return None

    def call_stmt(self, s, env, cont):
        c = s.value
        fn = ast.unparse(c.func)
        if fn == "super().__init__":
            # every constructor parameter must be forwarded unchanged: the base class stores it as
            # the backend option of the same name (validated by the correspondence)
            if c.args:
                _fail(s)
            e2 = env.copy()
            for kw in c.keywords:
                if kw.arg is None:
                    continue
                if not (isinstance(kw.value, ast.Name) and kw.value.id == kw.arg):
                    _fail(s, f"(keyword {kw.arg} is not forwarded unchanged)")
                if kw.arg in env.coq:
                    e2.coq["self." + kw.arg], e2.ty["self." + kw.arg] = env.coq[kw.arg], env.ty[kw.arg]
                    e2.out[kw.arg] = (env.coq[kw.arg], env.ty[kw.arg])
            for need in INIT_PARAMS:
                if "self." + need not in e2.coq:
                    _fail(s, f"({need} not forwarded to the base class)")
            return cont(e2)
        if fn == "self.monkeypatch_observables" and not c.args and not c.keywords:
            return cont(env)  # side condition checked by check_monkeypatch()
        _fail(s, "(call with unknown effect)")


INIT_PARAMS = {"precision": "F", "extra_krylov_tolerance": "F", "autosave_dt": "F",
               "optimize_qubit_ordering": "B"}


def _find_class(tree, name):
    for n in tree.body:
        if isinstance(n, ast.ClassDef) and n.name == name:
            return n
    raise Unsupported(f"class {name} not found")


def _find_def(body, name):
    for n in body:
        if isinstance(n, ast.FunctionDef) and n.name == name:
            return n
    raise Unsupported(f"def {name} not found")


def _strip_doc(body):
    if body and isinstance(body[0], ast.Expr) and isinstance(body[0].value, ast.Constant) \
            and isinstance(body[0].value.value, str):
        return body[1:]
    return body


def _coq_strlist(xs):
    return "[" + "; ".join('"' + x + '"' for x in xs) + "]"


def extract_init(cls) -> str:
    fn = _find_def(cls.body, "__init__")
    a = fn.args
    if a.args[1:] or a.posonlyargs or a.vararg:
        _fail(fn, "(positional parameters)")
    kwonly = [x.arg for x in a.kwonlyargs]
    for p in INIT_PARAMS:
        if p not in kwonly:
            _fail(fn, f"(parameter {p} missing)")
    env = Env()
    for p, ty in INIT_PARAMS.items():
        env.bind(p, ty)
    tr = Tr(env)

    def final(e):
        for o in ("extra_krylov_tolerance", "optimize_qubit_ordering"):
            if o not in e.out:
                _fail(fn, f"(option {o} never set)")
        return f"Ok ({e.out['extra_krylov_tolerance'][0]}, {e.out['optimize_qubit_ordering'][0]})"

    body = tr.block(_strip_doc(fn.body), env, final)
    return ("Definition mps_config_init (precision extra_krylov_tolerance autosave_dt : A) "
            "(optimize_qubit_ordering : bool) (tags : list string) : res (A * bool) :=\n  " + body + ".\n")


def check_monkeypatch(cls):
    """monkeypatch_observables may only replace the observables tuple by per-element copies."""
    fn = _find_def(cls.body, "monkeypatch_observables")
    for n in ast.walk(fn):
        if isinstance(n, ast.Subscript) and ast.unparse(n.value) == "self._backend_options":
            if not (isinstance(n.slice, ast.Constant) and n.slice.value == "observables"):
                _fail(n, "(monkeypatch_observables touches another option)")
        if isinstance(n, ast.Attribute) and n.attr in ("_base_tag", "tag_suffix", "_tag_suffix"):
            _fail(n, "(monkeypatch_observables touches tags)")
        if isinstance(n, (ast.Raise, ast.Assert, ast.Delete)):
            _fail(n, "(monkeypatch_observables)")
    src = ast.unparse(fn)
    for needle in ("obs_copy = copy.deepcopy(obs)", "obs_list.append(obs_copy)",
                   "for _, obs in enumerate(self.observables):",
                   "self._backend_options['observables'] = tuple(obs_list)"):
        if needle not in src:
            raise Unsupported(f"monkeypatch_observables: expected `{needle}`")


def extract_whitelist(cls):
    fn = _find_def(cls.body, "check_permutable_observables")
    body = _strip_doc(fn.body)
    if len(body) != 5:
        _fail(fn, "(expected 5 statements)")
    s0, s1, s2, s3, s4 = body
    if not (isinstance(s0, ast.Assign) and ast.unparse(s0.targets[0]) == "allowed_permutable_obs"):
        _fail(s0)
    v = s0.value
    if isinstance(v, ast.Call) and ast.unparse(v.func) == "set" and len(v.args) == 1 \
            and isinstance(v.args[0], (ast.List, ast.Tuple, ast.Set)):
        elts = v.args[0].elts
    elif isinstance(v, ast.Set):
        elts = v.elts
    else:
        _fail(s0)
    tags = []
    for e in elts:
        if not (isinstance(e, ast.Constant) and isinstance(e.value, str)):
            _fail(e)
        if '"' in e.value:
            _fail(e)
        tags.append(e.value)
    if ast.unparse(s1) != "actual_obs = set([obs._base_tag for obs in self.observables])":
        _fail(s1)
    if ast.unparse(s2) != "not_allowed = actual_obs.difference(allowed_permutable_obs)":
        _fail(s2)
    if not (isinstance(s3, ast.If) and ast.unparse(s3.test) == "not_allowed" and not s3.orelse
            and all(_is_logging_call(x) for x in s3.body)):
        _fail(s3)
    if ast.unparse(s4) != "return not_allowed == set()":
        _fail(s4)
    return tags


def extract_dmrg_guard(tree):
    cls = _find_class(tree, "DMRGBackendImpl")
    fn = _find_def(cls.body, "__init__")
    params = [x.arg for x in fn.args.args]
    if params[:3] != ["self", "mps_config", "pulser_data"]:
        _fail(fn)
    body = _strip_doc(fn.body)
    out = []
    idx = 0
    # leading guards of the form `if <cfg>.noise_model.noise_types != (): raise X(...)`
    while idx < len(body) and isinstance(body[idx], ast.If):
        s = body[idx]
        if ast.unparse(s.test) != "mps_config.noise_model.noise_types != ()" or s.orelse \
                or len(s.body) != 1 or not isinstance(s.body[0], ast.Raise):
            _fail(s)
        exc = s.body[0].exc
        name = exc.func.id if isinstance(exc, ast.Call) and isinstance(exc.func, ast.Name) else None
        if name not in EXC:
            _fail(s.body[0])
        out.append(f"if negb (match noise_types with [] => true | _ => false end) then {_err(name, s.body[0])} else")
        idx += 1
    rest = body[idx:]
    if not rest or ast.unparse(rest[0]) != "super().__init__(mps_config, pulser_data)":
        _fail(fn, "(expected super().__init__(mps_config, pulser_data) after the guards)")
    for s in rest[1:]:
        # only plain attribute initialisation may follow
        if not (isinstance(s, (ast.Assign, ast.AnnAssign)) and _no_calls(s)):
            _fail(s)
    return ("Definition dmrg_init_guard (noise_types : list string) : res unit :=\n  "
            + "\n  ".join(out) + "\n  Ok tt.\n")


IMPL_KINDS = {"NoisyMPSBackendImpl": "ImplNoisy", "DMRGBackendImpl": "ImplDMRG", "MPSBackendImpl": "ImplPlain"}
DISPATCH_TESTS = {"data.lindblad_ops": "has_lindblad", "config.solver == Solver.DMRG": "solver_is_dmrg"}


def extract_create_impl(tree):
    fn = _find_def(tree.body, "create_impl")
    if [x.arg for x in fn.args.args] != ["data", "config"]:
        _fail(fn)
    body = _strip_doc(fn.body)

    def ret(s):
        if not (isinstance(s, ast.Return) and isinstance(s.value, ast.Call)
                and isinstance(s.value.func, ast.Name) and s.value.func.id in IMPL_KINDS
                and [ast.unparse(x) for x in s.value.args] == ["config", "data"] and not s.value.keywords):
            _fail(s)
        return IMPL_KINDS[s.value.func.id]

    def go(stmts):
        if not stmts:
            _fail(fn, "(falls off the end)")
        s = stmts[0]
        if isinstance(s, ast.Return):
            return ret(s)
        if isinstance(s, ast.If):
            t = ast.unparse(s.test)
            if t not in DISPATCH_TESTS:
                _fail(s, "(unknown dispatch test)")
            then = go(s.body)
            els = go(s.orelse) if s.orelse else go(stmts[1:])
            return f"(if {DISPATCH_TESTS[t]} then {then} else {els})"
        _fail(s)

    return ("Definition create_impl (has_lindblad solver_is_dmrg : bool) : impl_kind :=\n  "
            + go(body) + ".\n")


def extract_permuted_tags(tree):
    """Tags whose stored values permute_results un-permutes."""
    fn = _find_def(_find_class(tree, "MPSBackendImpl").body, "permute_results")
    calls = [n.func.id for n in ast.walk(fn) if isinstance(n, ast.Call) and isinstance(n.func, ast.Name)]
    tags = []
    for name in calls:
        if not name.startswith("permute_") or name == "permute_atom_order":
            continue
        f = _find_def(tree.body, name)
        for n in ast.walk(f):
            # `"tag" not in results.get_result_tags()` / `for corr in ["a", "b"]`
            if isinstance(n, ast.Compare) and isinstance(n.left, ast.Constant) and isinstance(n.left.value, str):
                tags.append(n.left.value)
            if isinstance(n, ast.For) and isinstance(n.iter, (ast.List, ast.Tuple)):
                tags += [e.value for e in n.iter.elts if isinstance(e, ast.Constant) and isinstance(e.value, str)]
            # `_tags_with_base(results, "tag")` (tags with or without tag_suffix)
            if (isinstance(n, ast.Call) and isinstance(n.func, ast.Name) and n.func.id == "_tags_with_base"
                    and len(n.args) == 2 and isinstance(n.args[1], ast.Constant) and isinstance(n.args[1].value, str)):
                tags.append(n.args[1].value)
    if not tags:
        raise Unsupported("permute_results: no permuted tags found")
    return sorted(set(tags))


GEN_DISPATCH = common.COQ / "Gen" / "Dispatch.v"


def gen_dispatch():
    """Gen/Dispatch.v: create_impl and the DMRG constructor guard (shared with C04)."""
    impl_tree = ast.parse(IMPL_SRC.read_text())
    text = f"""(* GENERATED by tools/props/c33.py from emu_mps/mps_backend_impl.py (create_impl, DMRGBackendImpl.__init__); do not edit. *)
From Coq Require Import ZArith Bool List String.
From EV Require Import Base.Arith.
Import ListNotations.
Open Scope string_scope.

(* exception classes are encoded as Err (class * 100000 + source line) *)
Definition exc_AssertionError : Z := 1. Definition exc_ZeroDivisionError : Z := 2.
Definition exc_NotImplementedError : Z := 3. Definition exc_ValueError : Z := 4.

Inductive impl_kind := ImplPlain | ImplNoisy | ImplDMRG.
{extract_create_impl(impl_tree)}
{extract_dmrg_guard(impl_tree)}"""
    return [(GEN_DISPATCH, text)]


def gen_guards():
    """Gen/Guards.v: MPSConfig.__init__, the whitelist and the tags permute_results un-permutes."""
    cfg_tree = ast.parse(CFG_SRC.read_text())
    impl_tree = ast.parse(IMPL_SRC.read_text())
    cls = _find_class(cfg_tree, "MPSConfig")
    check_monkeypatch(cls)
    wl = extract_whitelist(cls)
    text = f"""(* GENERATED by tools/props/c33.py from emu_mps/mps_config.py and emu_mps/mps_backend_impl.py; do not edit. *)
From Coq Require Import ZArith Bool List String.
From EV Require Import Base.Arith.
From EV Require Export Gen.Dispatch.
Import ListNotations.
Open Scope string_scope.

Definition allowed_permutable_obs : list string := {_coq_strlist(wl)}.
Definition permuted_result_tags : list string := {_coq_strlist(extract_permuted_tags(impl_tree))}.

(* MPSConfig.check_permutable_observables; `tags` = [obs._base_tag for obs in self.observables] *)
Definition check_permutable_observables (tags : list string) : bool :=
  let actual_obs := tags in
  let not_allowed := filter (fun t => negb (existsb (String.eqb t) allowed_permutable_obs)) actual_obs in
  match not_allowed with [] => true | _ => false end.

Section Guards.
Variable A : Type.
Variable ar : Arith A.

(* MPSConfig.__init__: returns the effective (extra_krylov_tolerance, optimize_qubit_ordering) *)
{extract_init(cls)}
End Guards.
Arguments mps_config_init {{A}} ar.
"""
    return [(GEN, text)]


def gen():
    return gen_dispatch() + gen_guards()


# ------------------------------------------------------------------------------------------
# shared helper (also used by c04/c31): unconditional theorem from a closed boolean premise
# ------------------------------------------------------------------------------------------
def closed_theorem(ctx, tag, requires, name, statement, proof_term, timeout=600):
    """Compile `Theorem name : statement. Proof. exact proof_term. Qed.` in build/closed/ and check
    Print Assumptions.  `proof_term` typically applies a conditional theorem of Properties/*.v to
    `(eq_refl : <closed boolean> = true)`, which type-checks only if the boolean evaluates to true
    on the model generated from the current source.  Records one obligation; returns ok."""
    d = common.BUILD / "closed"
    d.mkdir(parents=True, exist_ok=True)
    f = d / f"{tag}.v"
    f.write_text(f"{requires}\nTheorem {name} : {statement}.\n"
                 f"Proof. exact ({proof_term}). Qed.\n"
                 f'Goal True. idtac "@@BEGIN". Abort.\nPrint Assumptions {name}.\n'
                 f'Goal True. idtac "@@END". Abort.\n')
    rc, out = common.coqc_file(f, timeout)
    ok = rc == 0 and "@@END" in out
    detail = "" if ok else out[-1200:]
    if ok:
        block = out.split("@@BEGIN", 1)[1].split("@@END", 1)[0]
        if "Closed under the global context" not in block:
            axs = [ln.split(":")[0].strip() for ln in block.splitlines()
                   if ":" in ln and not ln.startswith(" ") and not ln.startswith("Axioms")]
            bad = [a for a in axs if a and a not in common.ALLOWED_AXIOMS
                   and not a.startswith(common.PRIMITIVE_PREFIXES)]
            if bad:
                ok, detail = False, "unexpected axioms: " + ", ".join(bad)
    ctx.obligation(f"closed:{name}", ok, detail, kind="theorem")
    return ok


# ------------------------------------------------------------------------------------------
# real code drivers
# ------------------------------------------------------------------------------------------
HEADER = """From Coq Require Import ZArith List String PrimFloat.
Import ListNotations.
From EV Require Import Base.Arith Gen.Guards Model.ConfigGuards.
Open Scope string_scope. Open Scope float_scope."""

HEADER_D = """From Coq Require Import ZArith List String.
Import ListNotations.
From EV Require Import Base.Arith Gen.Dispatch Model.DispatchModel.
Open Scope string_scope."""

OBS_KINDS = ["bitstrings", "correlation_matrix", "energy", "energy_second_moment", "energy_variance",
             "occupation", "state", "expectation", "fidelity", "entanglement_entropy", "statistics"]
# specification of the property oracle (independent of the source whitelist): observables that
# permute_results un-permutes or whose value does not depend on the qubit order
SPEC_PERMUTABLE = {"bitstrings", "occupation", "correlation_matrix", "statistics", "energy",
                   "energy_variance", "energy_second_moment"}
_OBS_CACHE = {}


def make_observable(kind: str):
    """kind = base tag, optionally `base+suffix` (tag_suffix) or `custom:<base tag>`."""
    from pulser.backend import (BitStrings, CorrelationMatrix, Energy, EnergySecondMoment, EnergyVariance,
                                Occupation, StateResult, Expectation, Fidelity)
    from pulser.backend.observable import Observable
    from emu_mps import MPS, MPO, EntanglementEntropy
    from emu_mps.mps_backend_impl import Statistics
    from emu_base.utils import observable_aggregation_kwargs

    if kind in _OBS_CACHE:
        return _OBS_CACHE[kind]
    if kind.startswith("custom:"):
        base = kind.split(":", 1)[1]

        class Custom(Observable):
            def __init__(self):
                super().__init__(**observable_aggregation_kwargs("MEAN"))

            @property
            def _base_tag(self):
                return base

            def apply(self, **kw):
                return 0.0

        o = Custom()
    else:
        base, _, suffix = kind.partition("+")
        kw = {"tag_suffix": suffix} if suffix else {}
        simple = {"bitstrings": BitStrings, "correlation_matrix": CorrelationMatrix, "energy": Energy,
                  "energy_second_moment": EnergySecondMoment, "energy_variance": EnergyVariance,
                  "occupation": Occupation, "state": StateResult}
        if base in simple:
            o = simple[base](**kw)
        elif base == "expectation":
            o = Expectation(MPO.from_operator_repr(eigenstates=("r", "g"), n_qudits=2,
                                                   operations=[(1.0, [({"rr": 1.0}, [0])])]), **kw)
        elif base == "fidelity":
            o = Fidelity(MPS.from_state_amplitudes(eigenstates=("r", "g"), amplitudes={"rr": 1.0}), **kw)
        elif base == "entanglement_entropy":
            o = EntanglementEntropy(0, **kw)
        elif base == "statistics":
            o = Statistics(None, [], 1)
        else:
            raise ValueError(kind)
    _OBS_CACHE[kind] = o
    return o


SOLVERS = [None, "tdvp-enum", "dmrg-enum", "tdvp-str", "dmrg-str"]


def _solver_kw(spelling):
    from emu_mps.solver import Solver
    if spelling is None:
        return {}
    name, how = spelling.split("-")
    member = Solver.TDVP if name == "tdvp" else Solver.DMRG
    return {"solver": member if how == "enum" else member.value}


def impl_config(case):
    """Construct the REAL MPSConfig (directly, and re-created through the abstract representation and
    through with_changes); returns outcome class and the effective safeguarded options of each."""
    from emu_mps import MPSConfig

    obs = [make_observable(k) for k in case["obs"]]
    tags = [o._base_tag for o in obs]
    skw = _solver_kw(case.get("solver"))
    a_arg = case["a"]
    if case.get("a_type") == "int":
        a_arg = int(a_arg)
    elif case.get("a_type") == "np.float64":
        import numpy as np
        a_arg = np.float64(a_arg)
    try:
        cfg = MPSConfig(precision=case["p"], extra_krylov_tolerance=case["e"], autosave_dt=a_arg,
                        optimize_qubit_ordering=case["o"], observables=obs, log_level=logging.CRITICAL, **skw)
    except (AssertionError, ZeroDivisionError) as ex:
        return {"outcome": type(ex).__name__, "tags": tags}

    def view(c):
        return {"extra": float(c.extra_krylov_tolerance), "opt": bool(c.optimize_qubit_ordering),
                "precision": float(c.precision), "solver": str(getattr(c.solver, "value", c.solver)),
                "cfg_tags": [o._base_tag for o in c.observables]}

    r = {"outcome": "ok", "tags": tags, **view(cfg), "variants": {}}
    if case.get("variants", True):
        try:  # abstract-repr round trip (what a remote backend / a saved job does)
            r["variants"]["abstract-repr"] = view(MPSConfig.from_abstract_repr(cfg.to_abstract_repr()))
        except (AssertionError, ZeroDivisionError) as ex:
            r["variants"]["abstract-repr"] = {"raised": type(ex).__name__}
        except Exception:  # observable / value not serialisable: variant not available
            pass
        try:  # a default-precision config of the same solver, then with_changes to the requested values
            base = MPSConfig(autosave_dt=case["a"], optimize_qubit_ordering=case["o"], observables=obs,
                             log_level=logging.CRITICAL, **skw)
            r["variants"]["with_changes"] = view(base.with_changes(precision=case["p"],
                                                                   extra_krylov_tolerance=case["e"]))
        except (AssertionError, ZeroDivisionError) as ex:
            r["variants"]["with_changes"] = {"raised": type(ex).__name__}
    return r


def model_config_expr(case, tags):
    fl = common.float_lit
    return (f"config_float {fl(float(case['p']))} {fl(float(case['e']))} {fl(float(case['a']))} "
            f"{'true' if case['o'] else 'false'} {_coq_strlist(tags)}")


def decode_res(v):
    from vlib.coqparse import bits
    if isinstance(v, tuple) and v[0] == "Ok":
        e, o = v[1]
        return {"outcome": "ok", "extra": bits(e), "opt": o}
    if isinstance(v, tuple) and v[0] == "Err":
        return {"outcome": EXC_INV.get(v[1] // 100000, f"Err{v[1]}")}
    return {"outcome": str(v)}


def _i64(x: float) -> int:
    return struct.unpack("<q", struct.pack("<d", x))[0]


def config_oracle(ctx, case, r, obs_stats):
    """What C33 demands of the real constructor, checked directly on the attributes of every configuration
    object obtained for the case (independent of the model and of the extractor)."""
    p, e, a = float(case["p"]), float(case["e"]), float(case["a"])
    how = f"solver={case.get('solver') or 'default'}"
    if not (a > 10):  # includes nan
        if r["outcome"] != "AssertionError":
            ctx.violation(f"autosave_dt={a!r} (<= 10 s) was not rejected ({how})",
                          {"case": case, "impl": r, "finding_key": "autosave-not-rejected"})
        return
    if r["outcome"] == "AssertionError":
        ctx.violation(f"autosave_dt={a!r} (> 10 s) was rejected ({how})",
                      {"case": case, "impl": r, "finding_key": "autosave-wrongly-rejected"})
        return
    in_domain = 1e-300 <= p <= 1e290 and math.isfinite(e)
    if r["outcome"] != "ok":
        if in_domain:
            ctx.violation(f"valid precision={p!r} extra={e!r} raised {r['outcome']} ({how})",
                          {"case": case, "impl": r, "finding_key": "floor-raises"})
        return
    views = [("direct", r)] + list(r.get("variants", {}).items())
    for via, v in views:
        if "raised" in v:
            if in_domain:
                ctx.violation(f"{via}: valid precision={p!r} extra={e!r} raised {v['raised']} ({how})",
                              {"case": case, "impl": r, "via": via, "finding_key": "floor-raises"})
            continue
        want = bool(case["o"]) and all(t in SPEC_PERMUTABLE for t in r["tags"])
        if v["opt"] != want:
            ctx.violation(f"{via}: optimize_qubit_ordering is {v['opt']} but requested={case['o']} with observables "
                          f"{r['tags']} requires {want}",
                          {"case": case, "impl": r, "via": via, "finding_key": "reordering-guard"})
        if v["cfg_tags"] != r["tags"]:
            ctx.violation(f"{via}: the observables' base tags changed",
                          {"case": case, "impl": r, "via": via, "finding_key": "monkeypatch-tags"})
        if not in_domain:
            continue
        tol = 1e-12
        if v["precision"].hex() != p.hex():
            ctx.violation(f"{via}: precision changed from {p!r} to {v['precision']!r}",
                          {"case": case, "impl": r, "via": via, "finding_key": "precision-changed"})
            continue
        prod = p * v["extra"]
        if p * e >= tol and v["extra"].hex() != e.hex():
            ctx.violation(f"{via}: extra_krylov_tolerance changed although precision*extra >= 1e-12 ({how})",
                          {"case": case, "impl": r, "via": via, "finding_key": "floor-changes-valid"})
        if prod >= tol:
            obs_stats["floor_reached"] += 1
        else:
            short = _i64(tol) - _i64(prod) if prod > 0 else 1 << 62
            if short <= 1:
                obs_stats["floor_1ulp_short"] += 1
                obs_stats.setdefault("floor_1ulp_witness", {"precision": p, "extra": e,
                                                            "effective_extra": v["extra"], "product": prod})
            else:
                ctx.violation(f"{via}, {how}: effective precision*extra_krylov_tolerance = {p!r}*{v['extra']!r} = "
                              f"{prod!r} < 1e-12: the Krylov tolerance floor was not applied",
                              {"case": case, "impl": r, "via": via, "finding_key": "krylov-floor-not-applied"})


# ---- generators -----------------------------------------------------------------------------
def _nextafter(x, k):
    for _ in range(abs(k)):
        x = math.nextafter(x, math.inf if k > 0 else -math.inf)
    return x


P_GRID = [5e-324, 1e-310, 1e-300, 1e-30, 1e-20, 1e-16, 1e-13, 1e-12, 1e-10, 1e-9, 1e-7, 1e-5, 1e-3, 0.3, 0.5,
          1.0, 3.0, 1e6, 1e12, 1e150, 1e290, 1e300, 1.7e308]
P_ODD = [0.0, -0.0, -1e-5, -1.0, float("nan"), float("inf"), float("-inf")]
A_GRID = [float("inf"), 11.0, 10.5, _nextafter(10.0, 1), _nextafter(10.0, 2), 10.0, _nextafter(10.0, -1), 9.0,
          1.0, 0.0, -0.0, -1.0, -11.0, float("nan"), 1e308, float("-inf"), 5e-324, 1e6]


def gen_float_case(rng, kind):
    if kind == "straddle":  # extra within a few ulps of 1e-12/precision, or exactly representable products
        p = rng.choice(P_GRID[2:-2]) if rng.random() < 0.4 else 10 ** rng.uniform(-18, 3)
        e = _nextafter(1e-12 / p, rng.randint(-3, 3))
        a = rng.choice([float("inf"), 11.0, 1e6])
    elif kind == "grid":
        p = rng.choice(P_GRID + P_ODD)
        e = rng.choice(P_GRID + P_ODD + [1e-3])
        a = rng.choice(A_GRID)
    elif kind == "autosave":
        p, e = rng.choice([1e-5, 1e-9, 0.0, 1e-13]), rng.choice([1e-3, 1e-9, 0.0])
        a = rng.choice(A_GRID + [10 + rng.uniform(-1e-9, 1e-9), rng.uniform(-20, 40)])
    else:  # random
        p = 10 ** rng.uniform(-25, 4) if rng.random() < 0.9 else 10 ** rng.uniform(-320, 305)
        e = 10 ** rng.uniform(-25, 4) if rng.random() < 0.9 else 10 ** rng.uniform(-320, 305)
        a = rng.choice([float("inf"), 11.0, rng.uniform(0, 30)])
    nobs = rng.choice([0, 0, 1, 2, 3])
    obs = rng.sample(OBS_KINDS, nobs)
    return {"kind": kind, "p": p, "e": e, "a": a, "o": rng.random() < 0.7, "obs": obs,
            "solver": rng.choice(SOLVERS), "variants": rng.random() < 0.5}


def solver_grid_cases():
    """Every solver spelling x precision x (extra far below / just below / at / above the floor)."""
    out = []
    for sv in SOLVERS:
        for p in (1e-12, 1e-9, 1e-5, 1e-3, 0.5):
            for e in (0.0, 1e-30, _nextafter(1e-12 / p, -2), 1e-12 / p, _nextafter(1e-12 / p, 2), 1e-3, 1.0):
                out.append({"kind": "solver-grid", "p": p, "e": e, "a": float("inf"), "o": True, "obs": ["occupation"],
                            "solver": sv, "variants": True})
    return out


def autosave_edge_cases():
    """autosave_dt exactly at / next to the limit, spelled as float, int and numpy scalar."""
    out = []
    for a, ty in [(10.0, "float"), (10, "int"), (10.0, "np.float64"), (_nextafter(10.0, 1), "float"),
                  (_nextafter(10.0, 1), "np.float64"), (_nextafter(10.0, -1), "float"), (_nextafter(10.0, -1), "np.float64"),
                  (11, "int"), (9, "int"), (0, "int"), (-10, "int")]:
        for sv in (None, "dmrg-enum"):
            out.append({"kind": "autosave-edge", "p": 1e-5, "e": 1e-3, "a": float(a), "a_type": ty, "o": True,
                        "obs": [], "solver": sv, "variants": False})
    return out


def subset_cases(ctx):
    """All subsets of the 11 observable kinds (2048), both requested flags for a sample."""
    out = []
    for mask in range(1 << len(OBS_KINDS)):
        obs = [k for i, k in enumerate(OBS_KINDS) if mask >> i & 1]
        flags = [True, False] if (ctx.thorough() or mask % 8 == 0) else [True]
        for o in flags:
            out.append({"kind": "subset", "p": 1e-5, "e": 1e-3, "a": float("inf"), "o": o, "obs": obs,
                        "solver": SOLVERS[mask % len(SOLVERS)], "variants": mask % 16 == 0})
    extra = [["occupation+x"], ["occupation", "occupation+x"], ["fidelity+a", "energy"], ["energy+e2", "bitstrings+b"],
             ["custom:my_observable"], ["custom:energy_x"], ["custom:Occupation"], ["custom:occupation "],
             ["custom:", "energy"], ["state+s", "occupation"], ["custom:statistics2", "statistics"]]
    for obs in extra:
        for o in (True, False):
            out.append({"kind": "subset-extra", "p": 1e-5, "e": 1e-3, "a": float("inf"), "o": o, "obs": obs,
                        "solver": None, "variants": False})
    return out


# ---- DMRG / dispatch --------------------------------------------------------------------------
NOISE_PARAMS = {
    "SPAM": dict(p_false_pos=0.01),
    "doppler": dict(temperature=50.0),
    "amplitude": dict(amp_sigma=0.05),
    "detuning": dict(detuning_sigma=0.1),
    "register": dict(trap_waist=1.0, trap_depth=150.0, temperature=50.0),
    "relaxation": dict(relaxation_rate=0.1),
    "dephasing": dict(dephasing_rate=0.1),
    "depolarizing": dict(depolarizing_rate=0.1),
    "eff_noise": "eff2",
    "leakage": "eff3",
    "dmm_sigma": dict(dmm_sigma=0.1),
    "dmm_crosstalk": dict(detuning_map_spot_waist=1.0),
}
NOISE_KEYS = list(NOISE_PARAMS)


def make_noise_model(keys):
    import numpy as np
    from pulser.noise_model import NoiseModel

    kw = {}
    for k in keys:
        v = NOISE_PARAMS[k]
        if isinstance(v, dict):
            kw.update(v)
    if "leakage" in keys:
        kw.update(with_leakage=True, eff_noise_rates=(0.1,), eff_noise_opers=(np.diag([0.0, 0.0, 1.0]),))
    elif "eff_noise" in keys:
        kw.update(eff_noise_rates=(0.1,), eff_noise_opers=(np.array([[0.0, 1.0], [0.0, 0.0]]),))
    return NoiseModel(**kw)


def small_sequence(channel="rydberg_global", n=2):
    from pulser import Sequence, Register, Pulse
    from pulser.devices import MockDevice

    reg = Register.from_coordinates([(7.0 * i, 0.0) for i in range(n)], prefix="q")
    seq = Sequence(reg, MockDevice)
    seq.declare_channel("ch", channel)
    seq.add(Pulse.ConstantPulse(40, 3.0, 0.5 if channel != "mw_global" else 0.0, 0.0), "ch")
    return seq


def impl_dispatch(case, seq):
    """Real PulserData -> first SequenceData -> create_impl; no time step is executed."""
    import warnings
    from pulser.backend import Occupation
    from emu_mps import MPSConfig
    from emu_mps.solver import Solver
    from emu_mps.mps_backend_impl import create_impl
    from emu_base import PulserData

    with warnings.catch_warnings():
        warnings.simplefilter("ignore")
        try:
            nm = make_noise_model(case["noise"])
        except Exception as ex:  # pulser refuses the combination: nothing to check
            return {"stage": "noise-model", "outcome": type(ex).__name__}
        cfg = MPSConfig(observables=[Occupation(evaluation_times=[1.0])], noise_model=nm,
                        solver=((Solver.DMRG if case["dmrg"] else Solver.TDVP).value if case.get("solver_str")
                                else (Solver.DMRG if case["dmrg"] else Solver.TDVP)),
                        dt=10, optimize_qubit_ordering=False,
                        log_level=logging.CRITICAL, **({"n_trajectories": 1} if case.get("ntraj") else {}))
        try:
            data = next(iter(PulserData(sequence=seq, config=cfg, dt=cfg.dt).get_sequences()))
        except Exception as ex:
            return {"stage": "pulser-data", "outcome": type(ex).__name__, "noise_types": list(nm.noise_types)}
        r = {"stage": "create_impl", "noise_types": list(nm.noise_types), "has_lindblad": bool(data.lindblad_ops)}
        try:
            impl = create_impl(data, cfg)
            r["outcome"] = type(impl).__name__
        except Exception as ex:
            r["outcome"] = type(ex).__name__
        return r


def dispatch_oracle(ctx, case, r):
    if r["stage"] != "create_impl":
        return
    if case["dmrg"] and r["noise_types"] and r["outcome"] != "NotImplementedError":
        ctx.violation(f"solver=DMRG with noise types {r['noise_types']} is not refused: create_impl returned "
                      f"{r['outcome']}" + (" (the sequence is then emulated with TDVP + quantum jumps)"
                                          if r["outcome"] == "NoisyMPSBackendImpl" else " (the DMRG run goes ahead)"),
                      {"case": case, "impl": r, "finding_key": "dmrg-noise-not-refused"})
    if (not case["dmrg"] or not r["noise_types"]) and r["outcome"].endswith("Error"):
        ctx.violation(f"supported solver/noise combination refused: {r['outcome']}",
                      {"case": case, "impl": r, "finding_key": "dispatch-wrongly-refused"})


import re as _re
_NEGZERO = _re.compile(r"(?<![\w.])-0(?![\w.])")  # PrimFloat prints -0.0 as `-0`
KIND_INV = {"ImplPlain": "MPSBackendImpl", "ImplNoisy": "NoisyMPSBackendImpl", "ImplDMRG": "DMRGBackendImpl"}


def corpus_cases():
    p = common.VERIF / "corpus" / "C33.json"
    return json.loads(p.read_text()) if p.exists() else []


def _restore_logging():
    lg = logging.getLogger("emulators")
    for h in list(lg.handlers):
        lg.removeHandler(h)


def run(ctx):
    import time
    import warnings
    from vlib.coqparse import parse, bits

    warnings.simplefilter("ignore")
    T0 = time.time()

    # ---- translators (two independent files) + proofs; the oracles below run whatever happens here
    def _gen(name, fn):
        try:
            for path, text in fn():
                common.write_if_changed(path, text)
            ctx.obligation(name, True, kind="translator")
            return True
        except (Unsupported, SyntaxError, OSError) as ex:
            ctx.obligation(name, False, str(ex), kind="translator")
            return False

    disp_ok = _gen("translate:mps_backend_impl.py(create_impl,DMRGBackendImpl)->Gen/Dispatch.v", gen_dispatch)
    gen_ok = disp_ok and _gen("translate:mps_config.py+permute_results->Gen/Guards.v", gen_guards)
    model_ok = dmodel_ok = False
    if disp_ok:
        rc, out = common.coq_make(["Model/DispatchModel.vo"])
        dmodel_ok = rc == 0
        if not dmodel_ok:
            ctx.obligation("build:Model/DispatchModel.vo", False, out, kind="build")
    if gen_ok:
        rc, out = common.coq_make(["Model/ConfigGuards.vo"])
        model_ok = rc == 0
        if not model_ok:
            ctx.obligation("build:Model/ConfigGuards.vo", False, out, kind="build")
        if common.standard_proof_stage(ctx, "C33", ["Properties/C33.vo"]):
            closed_theorem(
                ctx, "C33_closed",
                "From Coq Require Import ZArith List String.\nImport ListNotations.\n"
                "From EV Require Import Base.Arith Gen.Guards Model.ConfigGuards Properties.C33.",
                "C33_dmrg_refuses_noise",
                "forall has_lindblad noise_types, noise_types <> [] -> "
                "err_class (mps_select has_lindblad true noise_types) = Some exc_NotImplementedError",
                "C33_dmrg_refuses_noise_if_dispatched (eq_refl : dmrg_dispatch_ok = true)")
    else:
        for n in common.theorems_in(common.COQ / "Properties" / "C33.v"):
            ctx.obligation(n, False, "not checked: the model could not be regenerated from the source")

    ctx.log(f"proof stage {time.time() - T0:.1f}s")
    # ---- constructor cases on the real code
    corpus = corpus_cases()
    cases = [c for c in corpus if c.get("what") == "config"]
    cases += solver_grid_cases()
    cases += autosave_edge_cases()
    cases += subset_cases(ctx)
    for kind, nq, nt in (("straddle", 500, 6000), ("grid", 400, 4000), ("autosave", 200, 1500), ("random", 300, 4000)):
        cases += [gen_float_case(ctx.rng, kind) for _ in range(ctx.n(nq, nt))]
    obs_stats = {"floor_reached": 0, "floor_1ulp_short": 0}
    impl = []
    for c in cases:
        r = impl_config(c)
        impl.append(r)
        config_oracle(ctx, c, r, obs_stats)
    _restore_logging()

    ctx.log(f"config cases {time.time() - T0:.1f}s")
    # ---- dispatch cases on the real code
    dcases = [c for c in corpus if c.get("what") == "dispatch"]
    singles = [[k] for k in NOISE_KEYS] + [[]]
    if ctx.thorough():
        subsets = [[k for i, k in enumerate(NOISE_KEYS) if m >> i & 1] for m in range(1 << len(NOISE_KEYS))]
    else:
        subsets = singles + [sorted(ctx.rng.sample(NOISE_KEYS, ctx.rng.randint(2, 6))) for _ in range(40)]
    for s in subsets:
        for dm in (False, True):
            dcases.append({"what": "dispatch", "noise": s, "dmrg": dm, "solver_str": len(dcases) % 3 == 0})
    seq = small_sequence()
    dimpl = []
    for c in dcases:
        r = impl_dispatch(c, seq)
        dimpl.append(r)
        dispatch_oracle(ctx, c, r)
    _restore_logging()

    ctx.log(f"dispatch cases {time.time() - T0:.1f}s")
    # ---- correspondence (bit-exact / exact); each part needs only its own generated file
    B = 16
    hist = {}
    corr_ok, detail = model_ok, "" if model_ok else "model did not build"
    if model_ok:
        try:
            ev = common.CoqEval("C33", HEADER)
            for i in range(0, len(cases), B):
                ev.add("[" + "; ".join(model_config_expr(c, r["tags"]) for c, r in
                                       zip(cases[i:i + B], impl[i:i + B])) + "]")
            mvals = [v for o in ev.run() for v in parse(_NEGZERO.sub("-0x0p+0", o))]
            for c, r, v in zip(cases, impl, mvals):
                m = decode_res(v)
                i = {"outcome": r["outcome"]}
                if r["outcome"] == "ok":
                    i.update(extra=bits(r["extra"]), opt=r["opt"])
                if m != i and corr_ok:
                    corr_ok, detail = False, f"case={c} impl={i} model={m}"
                    ctx.extra["first_disagreement"] = {"case": c, "impl": i, "model": m}
        except (common.CoqEvalError, ValueError, KeyError, TypeError) as ex:
            corr_ok, detail = False, str(ex)
    for c, r in zip(cases, impl):
        nontrivial = r["outcome"] != "ok" or r["extra"].hex() != float(c["e"]).hex() or bool(c["obs"])
        ctx.count_case(c, nontrivial)
        key = f"{c['kind']}/{r['outcome']}"
        hist[key] = hist.get(key, 0) + 1
    live = [(c, r) for c, r in zip(dcases, dimpl) if r["stage"] == "create_impl"]
    dcorr_ok, ddetail = dmodel_ok, "" if dmodel_ok else "model did not build"
    if dmodel_ok:
        try:
            ev = common.CoqEval("C33d", HEADER_D)
            for i in range(0, len(live), B):
                ev.add("[" + "; ".join(
                    f"mps_select {'true' if r['has_lindblad'] else 'false'} {'true' if c['dmrg'] else 'false'} "
                    f"{_coq_strlist(r['noise_types'])}" for c, r in live[i:i + B]) + "]")
            dvals = [v for o in ev.run() for v in parse(o)]
            for (c, r), v in zip(live, dvals):
                if isinstance(v, tuple) and v[0] == "Ok":
                    m = KIND_INV[getattr(v[1], "name", v[1])]
                else:
                    m = EXC_INV.get(v[1] // 100000, str(v))
                if m != r["outcome"] and dcorr_ok:
                    dcorr_ok, ddetail = False, f"case={c} impl={r} model={m}"
        except (common.CoqEvalError, ValueError, KeyError, TypeError) as ex:
            dcorr_ok, ddetail = False, str(ex)
    for c, r in live:
        ctx.count_case(c | {"noise_types": r["noise_types"]}, bool(r["noise_types"]))
        key = f"dispatch/{'dmrg' if c['dmrg'] else 'tdvp'}/{r['outcome']}"
        hist[key] = hist.get(key, 0) + 1
    hist["dispatch/not-buildable-in-pulser-or-rejected-before-dispatch"] = sum(
        1 for r in dimpl if r["stage"] != "create_impl")
    ctx.extra["input_distribution"] = dict(sorted(hist.items()))
    ctx.obligation("correspondence:Gen.Guards.mps_config_init@binary64==MPSConfig(...) (outcome class, bits of "
                   "extra_krylov_tolerance, reordering flag)", corr_ok, detail, kind="correspondence")
    ctx.obligation("correspondence:Model.mps_select==create_impl(PulserData(...)) (class or exception)",
                   dcorr_ok, ddetail, kind="correspondence")
    ctx.extra["binary64_floor_observation"] = obs_stats | {
        "note": "in binary64 precision*(1e-12/precision) may round to the float just below 1e-12; a shortfall of "
                "<= 1 ulp satisfies the safeguard, which is specified (and proved) in real arithmetic"}
    ctx.rule = ("all 2048 subsets of the 11 observable kinds (+ suffixed/custom tags), every solver spelling (default, enum, "
                "string) x direct / abstract-repr round trip / with_changes construction, float grids for "
                "precision x extra (subnormal..huge, products within 3 ulp of 1e-12), autosave_dt around 10 "
                "(nextafter, nan, inf), noise-type subsets x {TDVP, DMRG}; non-trivial when the constructor "
                "raised, changed extra_krylov_tolerance or received observables / a noisy model")
    ctx.trusted_base += ["ast extractor in tools/props/c33.py (fail closed; validated by the correspondences)",
                         "Coq PrimFloat = IEEE binary64 as in CPython"]
    ctx.assumptions += ["the Krylov floor and autosave theorems are in exact real arithmetic; in binary64 the "
                        "floor holds up to 1 ulp for 1e-300 <= precision <= 1e290 (checked on the real code)",
                        "assert-based rejection of autosave_dt disappears under `python -O` (not modelled)",
                        "order_invariant_tags (statistics, energy, energy_variance, energy_second_moment) is a "
                        "specification list; that permute_results really un-permutes its tags is C03"]


def replay(ctx, path):
    rp = json.loads(open(path).read())
    c = rp["case"]
    if c.get("what") == "dispatch" or "noise" in c:
        r = impl_dispatch(c, small_sequence())
        print("replay dispatch:", r)
        dispatch_oracle(ctx, c, r)
    else:
        r = impl_config(c)
        print("replay config:", r)
        config_oracle(ctx, c, r, {"floor_reached": 0, "floor_1ulp_short": 0})


META = {
    "category": "proof",
    "technique": ("Coq proof over guards regenerated by a fail-closed ast extractor from mps_config.py / "
                  "mps_backend_impl.py (R instance) + bit-exact PrimFloat correspondence with real MPSConfig "
                  "construction and exact correspondence with create_impl"),
    "text": ("For all precision>0, extra, autosave_dt, flags and observable lists (real arithmetic): effective "
             "precision*extra_krylov_tolerance >= 1e-12 and unchanged when already large enough; autosave_dt <= 10 "
             "is rejected; reordering = requested AND every base tag whitelisted (any arithmetic); every whitelisted "
             "tag is un-permuted by permute_results or order-invariant; DMRGBackendImpl refuses every non-empty "
             "noise-type tuple; a DMRG request with noise is refused whenever create_impl dispatches DMRG requests "
             "to the DMRG constructor (closed premise evaluated on the generated create_impl each run). Validated "
             "only: binary64 floor within 1 ulp; pulser base class stores options unchanged."),
    "note": ("Trusted: Coq kernel+VM, stdlib real axioms, the ast extractor (validated by the correspondence), "
             "PrimFloat==binary64. assert-based guards vanish under python -O."),
}
