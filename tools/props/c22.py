"""C22 — per-step drive values are the interpolated Pulser samples; amplitude never negative (DESIGN.md §4 C22).

Model: coq/Model/DriveSamples.v (+ Model/Pchip.v of C20).  Tie: bit-exact correspondence between the PrimFloat
instance of `extract` and the real `_extract_omega_delta_phi`, on synthetic sample dictionaries and on samples
of real Pulser sequences, every run.  Theorems: coq/Properties/C22.v.  Falsifier: property oracle on the real
function's outputs (column count, sign of the amplitude, SciPy PCHIP of the samples at the step midpoints)."""
import json
import math
from types import SimpleNamespace

from vlib import common

HEADER = """From Coq Require Import ZArith List PrimFloat.
Import ListNotations.
From EV Require Import Base.Arith Model.Pchip Model.DriveSamples.
Open Scope float_scope."""
F05 = "drive-columns-only-addressed-atoms"
F09 = "negative-amplitude-rows"
F11 = "pchip-flat-end-overshoot"


def L(v):
    return "[" + "; ".join(common.float_lit(float(a)) for a in v) + "]"


# ---- inputs: a case is {qids, samples: {qid: {amp, det, phase}}, tt, max_duration} ------------------------
class FakeSamples:
    """Duck-typed pulser SequenceSamples: the function under test reads only these two members."""

    def __init__(self, case):
        import torch
        self.max_duration = case["max_duration"]
        self._d = {q: {k: torch.tensor(v, dtype=torch.float64) for k, v in s.items()}
                   for q, s in case["samples"].items()}
        self._basis = case.get("basis", "ground-rydberg")

    def to_nested_dict(self, all_local=False, samples_type="array"):
        assert all_local and samples_type == "tensor"
        return {"Local": {self._basis: self._d}}


def impl_run(case, samples_obj=None, all_atoms=True):
    from emu_base.pulser_adapter import _extract_omega_delta_phi

    import inspect

    obj = samples_obj if samples_obj is not None else FakeSamples(case)
    # all_atoms=True: call it the way PulserData.get_sequences does (keyword added by the fix of F-05);
    # all_atoms=False: the keyword's default.  A source without the keyword is called plainly (and the
    # column-count oracle then reports F-05).
    has_kw = "all_register_atoms" in inspect.signature(_extract_omega_delta_phi).parameters
    kw = {"all_register_atoms": all_atoms} if has_kw else {}
    try:
        om, de, ph = _extract_omega_delta_phi(obj, tuple(case["qids"]), list(case["tt"]), **kw)
    except ValueError as ex:
        return {"outcome": "ValueError", "msg": str(ex)}
    except AssertionError:
        return {"outcome": "AssertionError"}
    out = {"outcome": "ok", "imag_zero": all(bool((t.imag == 0).all()) for t in (om, de, ph))}
    for name, t in (("om", om), ("de", de), ("ph", ph)):
        out[name] = [[float(v) for v in t.real[:, j]] for j in range(t.shape[1])]
    return out


ERRMSG = {1: "x and y must have the same length", 2: "Need at least 2 points", 3: "x must be strictly increasing"}


def canon_impl(r):
    from vlib.coqparse import bits
    if r["outcome"] == "AssertionError":
        return ("err", 10)
    if r["outcome"] == "ValueError":
        code = [k for k, v in ERRMSG.items() if v == r["msg"]]
        return ("err", code[0] if code else r["msg"])
    return ("ok",) + tuple([[bits(v) for v in col] for col in r[k]] for k in ("om", "de", "ph"))


def canon_model(v):
    from vlib.coqparse import bits
    if isinstance(v, tuple) and v and v[0] == "Ok":
        om, de, ph = v[1]
        return ("ok",) + tuple([[bits(x) for x in col] for col in q] for q in (om, de, ph))
    if isinstance(v, tuple) and v and v[0] == "Err":
        return ("err", v[1])
    return ("?", str(v))


def model_expr(case, all_atoms=True):
    ids = {q: i for i, q in enumerate(case["qids"])}
    for q in case["samples"]:
        ids.setdefault(q, len(ids))
    ss = "; ".join(f"({ids[q]}%Z, ({L(s['amp'])}, {L(s['det'])}, {L(s['phase'])}))" for q, s in case["samples"].items())
    qs = "; ".join(f"{ids[q]}%Z" for q in case["qids"])
    fn = "extract float_arith" if all_atoms else "extract_with float_arith true false"
    return f"{fn} [{ss}] [{qs}] {L(case['tt'])} {int(case['max_duration'])}%Z"


# ---- generators ------------------------------------------------------------------------------------------
def target_times(rng, T, dt, extra):
    n = math.floor(T / dt)
    rel = {i * float(dt) / T for i in range(n + 1)} | {1.0} | set(extra)
    return sorted({t * T for t in rel})


def gen_signal(rng, T, kind):
    if kind == "constant":
        a = rng.uniform(0, 12)
        return [a] * T
    if kind == "ramp":
        a, b = rng.uniform(0, 12), rng.choice([0.0, 0.1, rng.uniform(0, 12)])
        return [a + (b - a) * i / max(T - 1, 1) for i in range(T)]
    if kind == "blackman":
        return [max(0.0, 5 * (0.42 - 0.5 * math.cos(2 * math.pi * i / max(T - 1, 1)) + 0.08 * math.cos(4 * math.pi * i / max(T - 1, 1))))
                for i in range(T)]
    if kind == "zeros_then_pulse":
        k = rng.randint(1, max(1, T - 1))
        return [0.0] * k + [rng.uniform(1, 10)] * (T - k)
    if kind == "pulse_then_zeros":
        k = rng.randint(1, max(1, T - 1))
        return [rng.uniform(1, 10)] * k + [0.0] * (T - k)
    return [abs(rng.gauss(0, 3)) for _ in range(T)]


AMP_KINDS = ["constant", "ramp", "blackman", "zeros_then_pulse", "pulse_then_zeros", "random"]


def gen_synthetic(rng):
    T = rng.choice([2, 3, 4, 5, 8, 12, 20, rng.randint(2, 40)])
    nq = rng.randint(1, 4)
    qids = [f"q{i}" for i in range(nq)]
    mode = rng.choice(["all", "all", "subset", "subset_gap"])
    if mode == "all" or nq == 1:
        addressed = list(qids)
    else:
        addressed = [q for q in qids if rng.random() < 0.5] or [qids[-1]]
    samples = {}
    akind = rng.choice(AMP_KINDS)
    for q in addressed:
        samples[q] = {"amp": gen_signal(rng, T, akind),
                      "det": [rng.gauss(0, 5) for _ in range(T)] if rng.random() < 0.5 else [rng.uniform(-5, 5)] * T,
                      "phase": [rng.choice([0.0, 0.3, 1.57])] * T}
    dt = rng.choice([0.1, 0.25, 0.3, 0.5, 0.7, 0.8, 1.0, 2.5, 10.0, 40.0])
    if T / dt > 130:
        dt = 0.5
    # extra evaluation times, also such that a step STARTS before the last sample (T-1) and has its midpoint after it
    extra = [rng.choice([0.5, 0.97, 0.999, 1 - 0.3 / T, 1 - 0.9 / T, 1 - 1.1 / T, 1 - 1.5 / T, 1 - 1.9 / T])
             for _ in range(rng.randint(0, 2))]
    return {"kind": "synthetic", "amp_kind": akind, "mode": mode, "dt": dt, "qids": qids, "samples": samples,
            "tt": target_times(rng, T, dt, extra), "max_duration": T}


def gen_malformed(rng):
    c = gen_synthetic(rng)
    how = rng.choice(["short_signal", "duration_mismatch", "one_sample"])
    q = next(iter(c["samples"]))
    if how == "short_signal":
        c["samples"][q]["det"] = c["samples"][q]["det"][:-1] + ([] if len(c["samples"][q]["det"]) > 1 else [0.0, 0.0])
    elif how == "duration_mismatch":
        c["tt"] = c["tt"][:-1] + [c["tt"][-1] + 1.0]
    else:
        for s in c["samples"].values():
            for k in s:
                s[k] = s[k][:1]
        c["max_duration"] = 1
        c["tt"] = [0.0, 0.5, 1.0]
    c["kind"] = "malformed:" + how
    return c


def gen_pulser(rng):
    """A real Pulser sequence -> (case, real SequenceSamples object)."""
    import numpy as np
    import pulser
    from pulser import Pulse, Register, Sequence
    from pulser.devices import MockDevice
    from pulser.noise_model import NoiseModel
    from pulser.waveforms import (BlackmanWaveform, CompositeWaveform, ConstantWaveform, InterpolatedWaveform,
                                  RampWaveform)
    from pulser._hamiltonian_data import HamiltonianData
    from emu_base.pulser_adapter import _get_target_times

    nq = rng.randint(2, 4)
    reg = Register({f"q{i}": (8.0 * i, 0.0) for i in range(nq)})
    seq = Sequence(reg, MockDevice)
    layout = rng.choice(["global", "local", "global+local", "global+dmm"])
    if layout == "global+dmm":
        from pulser.register.weight_maps import DetuningMap  # noqa: F401
        dmap = reg.define_detuning_map({f"q{i}": (1.0 if i == 0 else 0.5) for i in range(nq)})
        seq = Sequence(reg, MockDevice)
        seq.config_detuning_map(dmap, "dmm_0")

    def wf(dur):
        k = rng.choice(["constant", "ramp", "blackman", "interpolated", "composite"])
        if k == "constant":
            return k, ConstantWaveform(dur, rng.uniform(0.5, 10))
        if k == "ramp":
            return k, RampWaveform(dur, rng.uniform(1, 12), rng.choice([0.0, 0.1, 2.0]))
        if k == "blackman":
            return k, BlackmanWaveform(dur, rng.uniform(0.5, 3.0))
        if k == "interpolated":
            return k, InterpolatedWaveform(dur, [0.0, rng.uniform(1, 9), rng.uniform(1, 9), 0.0])
        d1 = max(4, dur // 2)
        return k, CompositeWaveform(RampWaveform(d1, 0.0, 5.0), ConstantWaveform(max(4, dur - d1), 5.0))

    kinds = []
    if layout != "local":
        seq.declare_channel("glob", "rydberg_global")
        dur = rng.choice([8, 12, 20, 36])
        k, w = wf(dur)
        kinds.append(k)
        seq.add(Pulse(w, RampWaveform(w.duration, -5.0, 5.0), rng.choice([0.0, 0.4])), "glob")
    if layout in ("local", "global+local"):
        tgt = rng.choice([f"q{i}" for i in range(nq)])
        seq.declare_channel("loc", "rydberg_local", initial_target=tgt)
        dur = rng.choice([8, 16, 20])
        k, w = wf(dur)
        kinds.append(k)
        seq.add(Pulse(w, ConstantWaveform(w.duration, rng.uniform(-4, 4)), 0.3), "loc")
    if layout == "global+dmm":
        seq.add_dmm_detuning(RampWaveform(12, -1.0, -6.0), "dmm_0")
    noise = rng.choice(["none", "none", "amplitude", "detuning"])
    nm = NoiseModel()
    if noise == "amplitude":
        nm = NoiseModel(amp_sigma=0.1, runs=1, samples_per_run=1)
    elif noise == "detuning":
        nm = NoiseModel(detuning_sigma=0.5, runs=1, samples_per_run=1)
    np.random.seed(rng.randrange(2 ** 31))
    hd = HamiltonianData.from_sequence(seq, with_modulation=False, noise_model=nm, n_trajectories=1)
    s = next(iter(hd.noisy_samples)).samples
    dt = rng.choice([0.1, 0.25, 0.5, 1.0, 2.5, 10.0, 40.0])
    T = s.max_duration
    if T / dt > 130:
        dt = 0.5
    extra = [1 - 0.4 / T] if rng.random() < 0.4 else []
    cfg = SimpleNamespace(with_modulation=False, default_evaluation_times="Full",
                          observables=[SimpleNamespace(evaluation_times=extra)])
    tt = _get_target_times(seq, cfg, dt)
    d = s.to_nested_dict(all_local=True, samples_type="tensor")["Local"]
    basis = next(iter(d))
    samples = {q: {k: [float(x) for x in v[k].real] for k in ("amp", "det", "phase")} for q, v in d[basis].items()}
    seqdata = None
    if noise == "none":  # observe at SequenceData.omega as well (what the backends consume)
        from pulser.backend.config import EmulationConfig
        from emu_base.pulser_adapter import PulserData
        import warnings
        with warnings.catch_warnings():
            warnings.simplefilter("ignore")
            pd = PulserData(sequence=seq, config=EmulationConfig(interaction_cutoff=0.0, noise_model=nm), dt=dt)
        sd = next(iter(pd.get_sequences()))
        seqdata = {"cols": int(sd.omega.shape[1]), "steps": int(sd.omega.shape[0]),
                   "min_amp": float(sd.omega.real.min())}
    case = {"kind": "pulser", "seqdata": seqdata, "layout": layout, "waveforms": kinds, "noise": noise, "dt": dt,
            "qids": list(reg.qubit_ids), "samples": samples, "tt": [float(t) for t in tt], "max_duration": int(T)}
    return case, s


# ---- every noise trajectory: SequenceData tables == interpolation of THAT trajectory's own samples ----------------
STALE = "trajectory-drives-stale"
# one noise model per NoiseTrajectory field (pulser 1.9.1) in which ONLY that field varies between trajectories;
# interaction_matrix varies with `register` and does not enter the drives.  An unknown field fails closed.
FIELD_MODELS = {
    "bad_atoms": dict(state_prep_error=0.4),
    "doppler_detune": dict(temperature=50.0),
    "amp_fluctuations": dict(amp_sigma=0.1),
    "det_fluctuations": dict(detuning_sigma=0.5),
    "det_phases": dict(detuning_hf_psd=(0.02, 0.015, 0.01, 0.005), detuning_hf_omegas=(10.0, 40.0, 90.0, 160.0)),
    "register": dict(temperature=50.0, trap_depth=150.0, trap_waist=1.0, laser_waist=20.0, disable_doppler=True),
    "interaction_matrix": None,  # covered by "register"
    "dmm_det_fluctuation": dict(dmm_sigma=0.3),
}


def _multi_sequence():
    import pulser

    reg = pulser.Register({"q0": [0.0, 0.0], "q1": [8.0, 0.0], "q2": [16.0, 0.0], "q3": [24.0, 0.0]})
    seq = pulser.Sequence(reg, pulser.MockDevice)
    seq.declare_channel("ryd", "rydberg_global")
    dmap = reg.define_detuning_map({"q0": 0.1, "q1": 0.2, "q2": 0.3, "q3": 0.4})
    seq.config_detuning_map(dmap, "dmm_0")
    seq.add(pulser.Pulse(pulser.BlackmanWaveform(40, 2.0), pulser.RampWaveform(40, -4.0, 6.0), 0.3), "ryd")
    seq.add_dmm_detuning(pulser.RampWaveform(40, -2.0, -25.0), "dmm_0")
    return seq


def _field_repr(v):
    try:
        import torch
        if hasattr(v, "as_tensor"):
            v = v.as_tensor()
        if isinstance(v, torch.Tensor):
            return [float(a) for a in v.flatten()]
        if hasattr(v, "qubits"):
            return {str(k): [float(a) for a in torch.as_tensor(p).flatten()] for k, p in v.qubits.items()}
    except Exception:
        pass
    if isinstance(v, dict):
        return {str(k): _field_repr(a) for k, a in v.items()}
    return repr(v)


def multi_trajectory(field, dt, n_traj, seed):
    """Returns (trajectory cases with their samples objects, SequenceData per trajectory, fields that vary)."""
    import dataclasses
    import warnings
    import numpy as np
    import torch
    from pulser.backend.config import EmulationConfig
    from pulser.noise_model import NoiseModel
    from emu_base.pulser_adapter import PulserData

    np.random.seed(seed)
    torch.manual_seed(seed)
    seq = _multi_sequence()
    with warnings.catch_warnings():
        warnings.simplefilter("ignore")
        cfg = EmulationConfig(noise_model=NoiseModel(**FIELD_MODELS[field]), n_trajectories=n_traj,
                              interaction_cutoff=0.0, default_evaluation_times=(0.5, 1.0))
        data = PulserData(sequence=seq, config=cfg, dt=dt)
        per_traj = []
        for smp in data.hamiltonian.noisy_samples:
            per_traj.extend([smp] * smp.reps)
        emu = list(data.get_sequences())
    varies = set()
    reprs = [{f.name: _field_repr(getattr(t.trajectory, f.name)) for f in dataclasses.fields(t.trajectory)} for t in per_traj]
    for name in reprs[0]:
        if any(r[name] != reprs[0][name] for r in reprs[1:]):
            varies.add(name)
    out = []
    for k, smp in enumerate(per_traj):
        d = smp.samples.to_nested_dict(all_local=True, samples_type="tensor")["Local"]
        basis = next(iter(d))
        samples = {q: {kk: [float(x) for x in v[kk].real] for kk in ("amp", "det", "phase")} for q, v in d[basis].items()}
        case = {"kind": "trajectory", "layout": "multi:" + field, "dt": dt, "trajectory": k,
                "multi": {"field": field, "dt": dt, "n_traj": n_traj, "seed": seed},
                "qids": list(data.qubit_ids), "samples": samples, "tt": [float(t) for t in data.target_times],
                "max_duration": int(smp.samples.max_duration)}
        out.append((case, smp.samples))
    return out, emu, varies


def trajectory_check(ctx, case, samples_obj, sd):
    """SequenceData of trajectory k must be the drive tables of THAT trajectory's samples (bit for bit: same code)."""
    import torch
    from emu_base.pulser_adapter import _extract_omega_delta_phi

    want = _extract_omega_delta_phi(samples_obj, tuple(case["qids"]), list(case["tt"]), all_register_atoms=True)
    for name, got, w in zip(("omega", "delta", "phi"), (sd.omega, sd.delta, sd.phi), want):
        if got.shape != w.shape or not torch.equal(got, w):
            err = float((got - w).abs().max()) if got.shape == w.shape else float("inf")
            ctx.violation(f"SequenceData.{name} of trajectory {case['trajectory']} (noise model varying only "
                          f"`{case['multi']['field']}`, dt={case['dt']}) is not the interpolation of that trajectory's own "
                          f"Pulser samples: max difference {err:.3g}",
                          {"case": {k: v for k, v in case.items() if k != "samples"}, "finding_key": STALE,
                           "multi": case["multi"], "trajectory": case["trajectory"], "table": name})
            return False
    return True


def multi_search(ctx):
    """All trajectories of multi-trajectory noise models, one model per NoiseTrajectory field."""
    import dataclasses
    from pulser._hamiltonian_data import NoiseTrajectory

    fields = [f.name for f in dataclasses.fields(NoiseTrajectory)]
    unknown = [f for f in fields if f not in FIELD_MODELS]
    ctx.obligation("harness:every NoiseTrajectory field has a noise model in which only it varies", not unknown,
                   f"fields without a model: {unknown}", kind="harness")
    cases, objs, vary_ok, vary_detail, stats, not_varied = [], [], True, "", {}, {}
    for field in fields:
        if FIELD_MODELS.get(field) is None:
            continue
        for dt in ((10, 0.5) if not ctx.thorough() else (10, 0.5, 0.3, 2.5)):
            for rep in range(ctx.n(1, 4)):
                n_traj = ctx.rng.choice([3, 4])
                seed = ctx.rng.randrange(2 ** 31)
                try:
                    trajs, emu, varies = multi_trajectory(field, dt, n_traj, seed)
                except Exception as ex:
                    vary_ok, vary_detail = False, f"{field}: {type(ex).__name__}: {ex}"
                    continue
                if len(trajs) != len(emu):
                    ctx.violation(f"get_sequences yields {len(emu)} SequenceData for {len(trajs)} trajectories",
                                  {"case": {"kind": "trajectory"}, "multi": {"field": field, "dt": dt, "n_traj": n_traj, "seed": seed},
                                   "finding_key": "trajectory-count"})
                    continue
                # interaction_matrix is derived (register positions, bad atoms) and does not enter the drives
                expected = {field, "interaction_matrix"}
                # pulser 1.9.1 draws dmm_det_fluctuation once per HamiltonianData (equal in all trajectories) and SPAM may
                # draw no bad atom in 3-4 shots: a field that does not vary cannot be stale; recorded, not an error
                if field not in varies:
                    not_varied[field] = not_varied.get(field, 0) + 1
                    if field not in ("bad_atoms", "dmm_det_fluctuation"):
                        vary_ok, vary_detail = False, f"noise model for `{field}` did not vary it (varies: {sorted(varies)})"
                if varies - expected:
                    vary_ok, vary_detail = False, f"noise model for `{field}` also varies {sorted(varies - expected)}"
                ok = all([trajectory_check(ctx, c, o, sd) for (c, o), sd in zip(trajs, emu)])
                stats[field] = stats.get(field, 0) + len(trajs)
                # the Coq correspondence gets every trajectory on the coarse grid and the later ones on the fine grid
                for k, (c, o) in enumerate(trajs):
                    if dt == 10 or (rep == 0 and k >= 1 and dt == 0.5):
                        cases.append(c)
                        objs.append(o)
    ctx.obligation("harness:each per-field noise model varies exactly its field between trajectories", vary_ok,
                   vary_detail, kind="harness")
    ctx.extra["trajectories_checked_per_field"] = stats
    ctx.extra["runs_in_which_the_field_did_not_vary"] = not_varied
    return cases, objs


def corpus_cases():
    p = common.VERIF / "corpus" / "C22.json"
    return json.loads(p.read_text()) if p.exists() else []


# ---- property oracle on the real code (falsifier) -----------------------------------------------------------
def property_check(ctx, case, r):
    if case["kind"].startswith("malformed"):
        return
    if r["outcome"] != "ok":
        ctx.violation(f"_extract_omega_delta_phi raised {r['outcome']} on well-formed samples",
                      {"case": case, "finding_key": "raises"})
        return
    qids, samples, tt, T = case["qids"], case["samples"], case["tt"], case["max_duration"]
    if not r["imag_zero"]:
        ctx.violation("drive values have a non-zero imaginary part", {"case": case, "finding_key": "imag"})
    sd = case.get("seqdata")
    if sd and sd["cols"] != len(qids):
        ctx.violation(f"SequenceData.omega has {sd['cols']} column(s) for a register of {len(qids)} atoms "
                      f"(addressed: {sorted(samples)}): the backends index columns by register position",
                      {"case": case, "finding_key": F05})
    # (1) one column per register atom
    if len(r["om"]) != len(qids) or len(r["de"]) != len(qids) or len(r["ph"]) != len(qids):
        ctx.violation(f"omega/delta/phi have {len(r['om'])} column(s) for a register of {len(qids)} atoms "
                      f"(addressed: {sorted(samples)}): columns exist only for addressed atoms",
                      {"case": case, "finding_key": F05})
        cols = [q for q in qids if q in samples]
    else:
        cols = list(qids)
    if len(cols) != len(r["om"]):
        return
    import numpy as np
    from scipy.interpolate import PchipInterpolator

    mids = [0.5 * (a + b) for a, b in zip(tt[:-1], tt[1:])]
    grid = np.arange(T, dtype=float)
    for j, q in enumerate(cols):
        for name, key in (("om", "amp"), ("de", "det"), ("ph", "phase")):
            col = r[name][j]
            sig = samples.get(q, {}).get(key, [0.0] * T)
            f11 = len(sig) >= 3 and ((sig[1] == sig[0] and sig[2] != sig[1]) or (sig[-2] == sig[-1] and sig[-3] != sig[-2]))
            # (2) amplitude never negative
            if name == "om":
                neg = [(k, v) for k, v in enumerate(col) if v < 0]
                if neg:
                    k, v = neg[0]
                    inside = mids[k] <= T - 1
                    key_ = F11 if (inside and f11) else F09
                    ctx.violation(f"amplitude of atom {q} at step {k} (t_mid={mids[k]!r} ns, samples end at {T - 1} ns, "
                                  f"{len(col)} steps) is {v!r} < 0" + ("" if inside else ": a step whose midpoint lies after the last sample is extrapolated and must be clamped"),
                                  {"case": case, "finding_key": key_, "step": k, "atom": q})
            # (3) equals the shape-preserving interpolation of the samples at the midpoint
            ref = PchipInterpolator(grid, np.array(sig), extrapolate=True)(np.array(mids))
            scale = 1e-9 * (max(abs(x) for x in sig) + 1e-300) * 10
            for k, (v, w) in enumerate(zip(col, ref)):
                w = float(w)
                ok = abs(v - w) <= scale * (1 + max(0.0, mids[k] - (T - 1))) ** 3
                if name == "om" and not ok and w < 0 and v == 0:
                    ok = True  # clamped
                if name == "om" and not ok and v < 0:
                    ok = True  # reported above
                if not ok:
                    ctx.violation(f"{key} of atom {q} at step {k} (t_mid={mids[k]!r}) is {v!r}, the standard PCHIP "
                                  f"interpolation of the samples gives {w!r}",
                                  {"case": case, "finding_key": F11 if f11 else "not-midpoint-interpolation",
                                   "step": k, "atom": q})
                    break


# ---- run ---------------------------------------------------------------------------------------------------
def run(ctx):
    from vlib.coqparse import parse

    rc, out = common.coq_make(["Model/DriveSamples.vo"])
    ctx.obligation("build:Model/DriveSamples.vo", rc == 0, out, kind="build")
    common.standard_proof_stage(ctx, "C22", ["Properties/C22.vo"])

    cases, objs = [], []
    for c in corpus_cases():
        cases.append(dict(c))
        objs.append(None)
    for _ in range(ctx.n(90, 1500)):
        cases.append(gen_synthetic(ctx.rng))
        objs.append(None)
    for _ in range(ctx.n(15, 150)):
        cases.append(gen_malformed(ctx.rng))
        objs.append(None)
    pulser_ok, pulser_detail = True, ""
    for _ in range(ctx.n(30, 400)):
        try:
            c, s = gen_pulser(ctx.rng)
        except Exception as ex:  # building the sequence failed: harness problem, not a verdict on the code
            pulser_ok, pulser_detail = False, f"{type(ex).__name__}: {ex}"
            break
        cases.append(c)
        objs.append(s)
    ctx.obligation("harness:real Pulser sequences could be built and sampled", pulser_ok, pulser_detail, kind="harness")
    mc, mo = multi_search(ctx)   # all trajectories of multi-trajectory noise models (falsifier + more tie cases)
    cases += mc
    objs += mo

    impl = [impl_run(c, o) for c, o in zip(cases, objs)]
    for c, r in zip(cases, impl):
        property_check(ctx, c, r)

    corr_ok, detail, hist = True, "", {}
    try:
        ev = common.CoqEval("C22", HEADER)
        for c in cases:
            ev.add(model_expr(c))
        outs = ev.run(shard=ctx.n(12, 60))
        for c, r, o in zip(cases, impl, outs):
            m, i = canon_model(parse(o)), canon_impl(r)
            k = (c["kind"], str(c.get("amp_kind", c.get("layout", ""))), "dt=" + str(c.get("dt")))
            hist[k] = hist.get(k, 0) + 1
            ctx.count_case({"kind": c["kind"], "qids": c["qids"], "addressed": sorted(c["samples"]), "dt": c.get("dt"),
                            "T": c["max_duration"], "steps": len(c["tt"]) - 1, "layout": c.get("layout"),
                            "waveforms": c.get("waveforms"), "noise": c.get("noise"), "amp_kind": c.get("amp_kind"),
                            "amp0": next(iter(c["samples"].values()))["amp"][:4], "outcome": r["outcome"]},
                           nontrivial=(r["outcome"] == "ok" and len(c["tt"]) >= 3))
            if m != i and corr_ok:
                corr_ok = False
                detail = f"case={json.dumps(c)[:600]} impl={str(i)[:300]} model={str(m)[:300]}"
                ctx.extra["first_disagreement"] = {"case": c, "impl": i, "model": m}
        # the keyword's default (columns only for addressed atoms) on the cases where it differs
        sub = [c for c, o in zip(cases, objs) if o is None and len(c["samples"]) < len(c["qids"])]
        ev2 = common.CoqEval("C22b", HEADER)
        for c in sub:
            ev2.add(model_expr(c, all_atoms=False))
        outs2 = ev2.run(shard=ctx.n(12, 60)) if sub else []
        for c, o in zip(sub, outs2):
            m, i = canon_model(parse(o)), canon_impl(impl_run(c, all_atoms=False))
            if m != i and corr_ok:
                corr_ok = False
                detail = f"[all_register_atoms=False] case={json.dumps(c)[:600]} impl={str(i)[:300]} model={str(m)[:300]}"
        ctx.extra["default_keyword_cases"] = len(sub)
    except (common.CoqEvalError, ValueError) as ex:
        corr_ok, detail = False, str(ex)
    ctx.extra["input_distribution"] = {"/".join(k): v for k, v in sorted(hist.items())}
    ctx.obligation("correspondence:Model.DriveSamples.extract(float_arith)==_extract_omega_delta_phi (bit-exact)",
                   corr_ok, detail, kind="correspondence")
    ctx.rule = ("synthetic sample dictionaries (2..40 ns; amplitude constant/ramp/Blackman/zeros+pulse/random; 1..4 "
                "atoms, all or a subset addressed; dt in {0.1,0.25,0.3,0.5,0.7,0.8,1,2.5,10,40}; extra evaluation times inside the "
                "last two ns, so that steps straddle the last sample), malformed ones (short signal, duration mismatch, 1 sample) and real Pulser sequences "
                "(constant/ramp/Blackman/interpolated/composite waveforms; global, local, global+local, global+DMM; "
                "amplitude/detuning noise) sampled by HamiltonianData; ALL trajectories (3-4) of PulserData.get_sequences "
                "for one noise model per NoiseTrajectory field in which only that field varies (SPAM, doppler, "
                "amp_sigma, detuning_sigma, detuning_hf, register+laser_waist, dmm_sigma), SequenceData tables compared "
                "with the function applied to that trajectory's own samples; grids from _get_target_times; one PRNG; "
                "non-trivial = returned with >= 2 steps; distinct by input hash")
    ctx.trusted_base += ["hand-written models coq/Model/DriveSamples.v and coq/Model/Pchip.v (validated bit-for-bit each run)",
                         "pulser's to_nested_dict / HamiltonianData produce the samples (inputs of the model)",
                         "Coq PrimFloat = torch float64 elementwise arithmetic",
                         "scipy PchipInterpolator only as a falsifier oracle"]
    ctx.assumptions += ["samples are real tensors of length max_duration on the 1 ns grid (what Pulser produces)",
                        "at least two target times; theorems in exact real arithmetic",
                        "findings F-09 / F-05 / F-11 are fixed in /repo (085d359, 8603313, b976cb3); their witnesses "
                        "are regression cases in corpus/C22.json and would be reported under the same finding keys; "
                        "the function is exercised as get_sequences calls it (all_register_atoms=True) and, for the "
                        "correspondence, also with the keyword's default"]


def replay(ctx, path):
    rp = json.loads(open(path).read())
    if "multi" in rp:
        m = rp["multi"]
        trajs, emu, varies = multi_trajectory(m["field"], m["dt"], m["n_traj"], m["seed"])
        print("replay multi-trajectory:", m, "fields that vary:", sorted(varies))
        for (c, o), sd in zip(trajs, emu):
            print(" trajectory", c["trajectory"], "ok" if trajectory_check(ctx, c, o, sd) else "STALE/WRONG")
        return
    c = rp["case"]
    r = impl_run(c)
    print("replay outcome:", r["outcome"], "columns:", len(r.get("om", [])), "atoms:", len(c["qids"]),
          "min amplitude:", min([v for col in r.get("om", []) for v in col] or [0.0]))
    property_check(ctx, c, r)


META = {
    "category": "proof",
    "technique": "Coq proof (R instance of a hand-written Arith-generic model of _extract_omega_delta_phi over the C20 PCHIP model) + bit-exact PrimFloat correspondence with the real function on synthetic and real Pulser samples",
    "text": ("Proved for all sample dictionaries, registers and time grids: step midpoints; whenever the function "
             "returns (as get_sequences calls it), omega/delta/phi have one column per register atom in register "
             "order, zero for atoms no channel addresses; delta and phi are the C20 PCHIP interpolation of the atom's "
             "samples at every step midpoint, omega is max(that interpolation, 0); every amplitude entry is >= 0; and "
             "for non-negative samples the amplitude at every midpoint inside the sampled range IS the interpolation "
             "and is >= 0 by C20's shape preservation (the clamp only acts on extrapolated steps). The pre-fix "
             "variants (F-09, F-05) are still refuted in Proofs/DriveProofs.v. The PrimFloat instance is compared "
             "bit-for-bit with the real function on synthetic and real Pulser samples, for both keyword values. "
             "Validated only (falsifier on the real code): for one noise model per NoiseTrajectory field of pulser in "
             "which only that field varies, every SequenceData yielded by PulserData.get_sequences (3-4 trajectories) "
             "equals the function applied to that trajectory's own samples (key trajectory-drives-stale); those "
             "per-trajectory samples also enter the bit-exact correspondence."),
    "note": ("Trusted: Coq kernel+VM, stdlib real axioms, the hand-written models (validated by the bit-exact "
             "correspondence), pulser as the producer of samples. Exact arithmetic in theorems."),
}
