"""C06 — emu-sv operators apply exactly the Hamiltonian and Lindbladian they represent (DESIGN.md C06).

Proof: coq/Properties/C06.v (theorems for every register size N and every commutative ring with
involution).  Tie: the Gallina model coq/Model/SvHam.v is executed at the dyadic Gaussian rationals
and compared EXACTLY with the real torch code on integer / half-integer data (all float64 + - * are
exact there); genuine phases (torch.exp/cos/sin) are compared with a stated tolerance.  Falsifier:
the real code against an independent dense numpy reference (kron sums), N up to 8.
"""
from fractions import Fraction
import json
import math

from vlib import common

HEADER = """From Coq Require Import ZArith List Bool.
Import ListNotations.
From EV Require Import Model.SvBase Model.SvHam.
Open Scope Z_scope."""

TOL = 1e-9  # relative to the scale of the data; rounding is ~1e-16 * scale, a bookkeeping bug is O(scale)


# ------------------------------------------------------------------------------------------------
# exact literals
def dy(z) -> str:
    z = complex(z)
    fr, fi = Fraction(z.real), Fraction(z.imag)
    e = max(fr.denominator.bit_length(), fi.denominator.bit_length()) - 1
    a, b = fr * (1 << e), fi * (1 << e)
    assert a.denominator == 1 and b.denominator == 1
    return f"({int(a)}, {int(b)}, {e}%N)"


def dyl(zs) -> str:
    return "[" + "; ".join(dy(z) for z in zs) + "]"


def cplx(p):
    return complex(p[0], p[1])


def m2lit(m) -> str:  # m = [[a,b],[c,d]] of pairs
    return "(" + ", ".join(dy(cplx(m[i][j])) for i in (0, 1) for j in (0, 1)) + ")"


def from_dy(t) -> complex:
    a, b, e = t
    return complex(Fraction(a, 1 << e), Fraction(b, 1 << e))


# ------------------------------------------------------------------------------------------------
# interposition: the modules' name `torch` is rebound to a proxy so that exp / cos / sin return
# prescribed exact values (the model treats them as arbitrary ring elements)
class _TorchProxy:
    def __init__(self, real, overrides):
        self._real = real
        self._ov = overrides

    def __getattr__(self, name):
        if name in self._ov:
            return self._ov[name]
        return getattr(self._real, name)


class _Rebind:
    def __init__(self, module, overrides):
        self.module, self.overrides = module, overrides

    def __enter__(self):
        import torch
        self.saved = self.module.torch
        self.module.torch = _TorchProxy(torch, self.overrides)

    def __exit__(self, *a):
        self.module.torch = self.saved


# ------------------------------------------------------------------------------------------------
# case generation (everything JSON serialisable; complex numbers are [re, im])
def _gi(rng, m=4):
    return [rng.randint(-m, m), rng.randint(-m, m)]


def gen_common(rng, N):
    style = rng.choice(["dense", "dense", "sparse", "zero-omega", "zero-delta"])
    om = [rng.randint(-6, 6) for _ in range(N)]
    de = [rng.randint(-6, 6) for _ in range(N)]
    if style == "sparse":
        om = [x if rng.random() < 0.5 else 0 for x in om]
        de = [x if rng.random() < 0.5 else 0 for x in de]
    if style == "zero-omega":
        om = [0] * N
    if style == "zero-delta":
        de = [0] * N
    U = [[0] * N for _ in range(N)]
    sym = rng.random() < 0.8
    for i in range(N):
        for j in range(i + 1, N):
            U[i][j] = rng.randint(-7, 7)
            U[j][i] = U[i][j] if sym else rng.randint(-7, 7)
    return {"N": N, "omega": om, "delta": de, "U": U, "style": style, "symU": sym}


def gen_phases(rng, N, mode):
    """mode: real (all phi = 0) | exact (proxy returns prescribed Gaussian integers for exp / cos / sin)
    | true (genuine float phases)."""
    if mode == "real":
        return {"mode": mode, "phis": [0.0] * N}
    nz = [rng.random() < 0.7 for _ in range(N)]
    if not any(nz):
        nz[rng.randrange(N)] = True
    if mode == "exact":
        phis = [float(i + 1) if nz[i] else 0.0 for i in range(N)]  # codes looked up by the proxy
        units = [[1, 0], [0, 1], [-1, 0], [0, -1]]
        arbitrary = rng.random() < 0.5
        E, C, S = [], [], []
        for i in range(N):
            if not nz[i]:
                E.append([1, 0]); C.append([1, 0]); S.append([0, 0])
            elif arbitrary:
                E.append(_gi(rng, 3)); C.append(_gi(rng, 3)); S.append(_gi(rng, 3))
            else:
                u = rng.choice(units)
                E.append(u); C.append([u[0], 0]); S.append([u[1], 0])
        return {"mode": mode, "phis": phis, "E": E, "C": C, "S": S, "arbitrary": arbitrary}
    if rng.random() < 0.3:
        # every phase an exact multiple of pi, at least one odd multiple: sin(phi) = 0 everywhere but the drive of
        # those qubits changes sign (a 'skip the complex path when sin vanishes' shortcut is wrong exactly here)
        phis = [rng.choice([0.0, math.pi, -math.pi, 2 * math.pi, 3 * math.pi]) for _ in range(N)]
        phis[rng.randrange(N)] = rng.choice([math.pi, -math.pi])
        return {"mode": mode, "phis": phis}
    phis = [(rng.choice([math.pi / 2, math.pi, 1.5 * math.pi, -math.pi / 2]) if rng.random() < 0.4
             else rng.uniform(-7, 7)) if nz[i] else 0.0 for i in range(N)]
    return {"mode": mode, "phis": phis}


def gen_ham_case(rng, N, mode):
    c = gen_common(rng, N)
    c.update(gen_phases(rng, N, mode))
    vs = rng.choice(["dense", "dense", "basis", "sparse"])
    if vs == "basis":
        vec = [[0, 0]] * (2 ** N)
        vec[rng.randrange(2 ** N)] = [1, 0]
    else:
        vec = [_gi(rng, 5) if (vs == "dense" or rng.random() < 0.3) else [0, 0] for _ in range(2 ** N)]
    c.update({"kind": "ham", "vec": vec, "vec_style": vs})
    return c


def gen_lind_case(rng, N, mode, nj=None):
    c = gen_common(rng, N)
    c.update(gen_phases(rng, N, mode))
    nj = rng.randint(0, 6) if nj is None else nj
    Ls = []
    for _ in range(nj):
        t = rng.choice(["gauss", "gauss", "lower", "diag", "real"])
        m = [[_gi(rng, 3), _gi(rng, 3)], [_gi(rng, 3), _gi(rng, 3)]]
        if t == "lower":
            m[0][0] = m[1][1] = m[1][0] = [0, 0]
        if t == "diag":
            m[0][1] = m[1][0] = [0, 0]
        if t == "real":
            m = [[[x[0], 0] for x in r] for r in m]
        Ls.append(m)
    D = 2 ** N
    herm = rng.random() < 0.75
    A = [[_gi(rng, 3) for _ in range(D)] for _ in range(D)]
    if herm:
        rho = [[[A[r][c][0] + A[c][r][0], A[r][c][1] - A[c][r][1]] for c in range(D)] for r in range(D)]
    else:
        rho = A
    c.update({"kind": "lind", "Ls": Ls, "rho": rho, "hermitian": herm})
    return c


# ------------------------------------------------------------------------------------------------
# the REAL code
def _tensors(c):
    import torch
    om = torch.tensor(c["omega"], dtype=torch.float64)
    de = torch.tensor(c["delta"], dtype=torch.float64)
    ph = torch.tensor(c["phis"], dtype=torch.float64)
    U = torch.tensor(c["U"], dtype=torch.float64)
    return om, de, ph, U


def impl_ham(c):
    """returns (H*vec as list of complex, e = exp(1j*phis) as used, list of complex)"""
    import torch
    import emu_sv.hamiltonian as hm
    om, de, ph, U = _tensors(c)
    vec = torch.tensor([cplx(p) for p in c["vec"]], dtype=torch.complex128)
    if c["mode"] == "exact":
        E = torch.tensor([cplx(p) for p in c["E"]], dtype=torch.complex128)
        with _Rebind(hm, {"exp": lambda x: E.clone()}):
            h = hm.RydbergHamiltonian(omegas=om, deltas=de, phis=ph, interaction_matrix=U, device="cpu")
            out = h * vec
        e = E
    else:
        h = hm.RydbergHamiltonian(omegas=om, deltas=de, phis=ph, interaction_matrix=U, device="cpu")
        out = h * vec
        e = torch.exp(1.0j * ph)
    assert torch.equal(vec, torch.tensor([cplx(p) for p in c["vec"]], dtype=torch.complex128)), "input mutated"
    return [complex(x) for x in out.tolist()], [complex(x) for x in e.tolist()]


def impl_lind(c):
    import torch
    import emu_sv.lindblad_operator as lo
    om, de, ph, U = _tensors(c)
    Ls = [torch.tensor([[cplx(x) for x in r] for r in m], dtype=torch.complex128) for m in c["Ls"]]
    rho = torch.tensor([[cplx(x) for x in r] for r in c["rho"]], dtype=torch.complex128)
    rho0 = rho.clone()

    def build_and_apply():
        lind = lo.RydbergLindbladian(omegas=om, deltas=de, phis=ph, pulser_lindblads=Ls,
                                     interaction_matrix=U, device="cpu")
        return lind @ rho

    if c["mode"] == "exact":
        C = {float(i + 1): torch.tensor(cplx(c["C"][i]), dtype=torch.complex128) for i in range(c["N"])}
        S = {float(i + 1): torch.tensor(cplx(c["S"][i]), dtype=torch.complex128) for i in range(c["N"])}
        one, zero = torch.tensor(1 + 0j, dtype=torch.complex128), torch.tensor(0j, dtype=torch.complex128)
        with _Rebind(lo, {"cos": lambda x: C.get(float(x), one), "sin": lambda x: S.get(float(x), zero)}):
            out = build_and_apply()
        cs = [cplx(p) for p in c["C"]]
        sn = [cplx(p) for p in c["S"]]
    else:
        out = build_and_apply()
        cs = [complex(float(torch.cos(p))) for p in ph]
        sn = [complex(float(torch.sin(p))) for p in ph]
    assert torch.equal(rho, rho0), "input mutated"
    return [complex(x) for x in out.reshape(-1).tolist()], cs, sn


# ------------------------------------------------------------------------------------------------
# independent dense reference (numpy, Kronecker sums).  Conventions (Pulser, basis g = 0, r = 1,
# qubit 0 most significant):  H = sum_q (Omega_q/2)(e^{-i phi_q}|g><r| + e^{+i phi_q}|r><g|)_q
#                                 - sum_q delta_q n_q + sum_{i<j} U_ij n_i n_j
def _site(np, op, q, N):
    return np.kron(np.kron(np.eye(2 ** q), op), np.eye(2 ** (N - 1 - q)))


def dense_H(c, hq_of):
    import numpy as np
    N = c["N"]
    n = np.array([[0, 0], [0, 1]], dtype=complex)
    H = np.zeros((2 ** N, 2 ** N), dtype=complex)
    for q in range(N):
        H = H + _site(np, hq_of(q), q, N)
        for j in range(q + 1, N):
            H = H + c["U"][q][j] * (_site(np, n, q, N) @ _site(np, n, j, N))
    return H


def ref_ham(c, e):
    import numpy as np

    def hq(q):
        cq = (c["omega"][q] / 2.0) * e[q]
        return np.array([[0, np.conj(cq)], [cq, -c["delta"][q]]], dtype=complex)

    return dense_H(c, hq) @ np.array([cplx(p) for p in c["vec"]], dtype=complex)


def ref_lind(c, cs, sn):
    import numpy as np
    N = c["N"]
    sx = np.array([[0, 1], [1, 0]], dtype=complex)
    sy = np.array([[0, -1j], [1j, 0]], dtype=complex)
    n = np.array([[0, 0], [0, 1]], dtype=complex)

    def hq(q):
        return (c["omega"][q] / 2.0) * (cs[q] * sx + sn[q] * sy) - c["delta"][q] * n

    H = dense_H(c, hq)
    Ls = [np.array([[cplx(x) for x in r] for r in m], dtype=complex) for m in c["Ls"]]
    rho = np.array([[cplx(x) for x in r] for r in c["rho"]], dtype=complex)
    A = np.zeros_like(H)
    jump = np.zeros_like(H)
    for q in range(N):
        for Lk in Ls:
            Lq = _site(np, Lk, q, N)
            A = A + Lq.conj().T @ Lq
            jump = jump + Lq @ rho @ Lq.conj().T
    Heff = H - 0.5j * A
    return (Heff @ rho - rho @ Heff.conj().T + 1j * jump).reshape(-1)


def scale_of(xs):
    return max([1.0] + [abs(x) for x in xs])


def close(a, b, exact):
    if len(a) != len(b):
        return False
    if exact:
        return all(x == y for x, y in zip(a, b))
    s = scale_of(list(a) + list(b))
    return all(abs(x - y) <= TOL * s for x, y in zip(a, b))


# ------------------------------------------------------------------------------------------------
# model expressions
def _nat(n):
    return f"{n}%nat"


def _bools(bs):
    return "[" + "; ".join("true" if b else "false" for b in bs) + "]"


def _Ulit(U):
    return "[" + "; ".join(dyl(r) for r in U) + "]"


def ham_expr(c, e, expected=None):
    args = (f"DyK {_nat(c['N'])} {dyl(c['omega'])} {dyl(c['delta'])} {_bools([p != 0 for p in c['phis']])} "
            f"{dyl(e)} {_Ulit(c['U'])} {dyl([cplx(p) for p in c['vec']])}")
    if expected is None:
        return f"ham_mul_checked {args}"
    return (f"match ham_mul_checked {args} with Some r => dy_first_diff 0 r {dyl(expected)} | None => -3 end")


def lind_expr(c, cs, sn, expected=None, cpu=True):
    Ls = "[" + "; ".join(m2lit(m) for m in c["Ls"]) + "]"
    rho = dyl([cplx(x) for r in c["rho"] for x in r])
    args = (f"DyK {'true' if cpu else 'false'} {_nat(c['N'])} {dyl(c['omega'])} {dyl(c['delta'])} "
            f"{_bools([p != 0 for p in c['phis']])} {dyl(cs)} {dyl(sn)} {_Ulit(c['U'])} {Ls} {rho}")
    if expected is None:
        return f"lind_matmul_checked {args}"
    return f"match lind_matmul_checked {args} with Some r => dy_first_diff 0 r {dyl(expected)} | None => -3 end"


def gen_mm_case(rng):
    d0, d2 = rng.choice([1, 2, 3, 4, 8]), rng.choice([1, 2, 3, 5, 8])
    return {"kind": "matmul", "d0": d0, "d2": d2, "op": [[_gi(rng, 5), _gi(rng, 5)], [_gi(rng, 5), _gi(rng, 5)]],
            "x": [_gi(rng, 6) for _ in range(d0 * 2 * d2)]}


def impl_mm(c):
    import torch
    from emu_base.math.matmul import matmul_2x2_with_batched
    op = torch.tensor([[cplx(x) for x in r] for r in c["op"]], dtype=torch.complex128)
    x = torch.tensor([cplx(p) for p in c["x"]], dtype=torch.complex128).view(c["d0"], 2, c["d2"])
    a = matmul_2x2_with_batched(op, x)
    b = op @ x
    return [complex(v) for v in a.reshape(-1).tolist()], [complex(v) for v in b.reshape(-1).tolist()]


def mm_expr(c, expected, batched):
    f = "matmul_2x2_with_batched" if batched else "matmul_batched"
    return (f"dy_first_diff 0 ({f} DyK {m2lit(c['op'])} {_nat(c['d2'])} {dyl([cplx(p) for p in c['x']])}) "
            f"{dyl(expected)}")


# ------------------------------------------------------------------------------------------------
# property oracle on the real code (falsifier)
def check_case(ctx, c, report=True):
    """Run the real code and the dense reference; returns the data needed for the model tie."""
    exact = c.get("mode") != "true"
    if c["kind"] == "fprec":
        return check_fprec(ctx, c, report)
    if c["kind"] == "alias":
        return check_alias(ctx, c, report)
    if c["kind"] == "ham":
        out, e = impl_ham(c)
        ref = [complex(x) for x in ref_ham(c, e)]
        ok = close(out, ref, exact)
        if not ok and report:
            k = next(i for i, (x, y) in enumerate(zip(out, ref)) if not close([x], [y], exact))
            ctx.violation(f"RydbergHamiltonian * v differs from the dense Hamiltonian times v at index {k} "
                          f"({out[k]} vs {ref[k]}), N={c['N']}, mode={c['mode']}",
                          {"case": c, "finding_key": "ham-apply-" + c["mode"]})
        return ok, (out, e)
    if c["kind"] == "lind":
        out, cs, sn = impl_lind(c)
        ok = True
        if c["hermitian"]:
            ref = [complex(x) for x in ref_lind(c, cs, sn)]
            ok = close(out, ref, exact)
            if not ok and report:
                k = next(i for i, (x, y) in enumerate(zip(out, ref)) if not close([x], [y], exact))
                ctx.violation(f"RydbergLindbladian @ rho differs from the dense Lindblad generator at flat index {k} "
                              f"({out[k]} vs {ref[k]}), N={c['N']}, jumps={len(c['Ls'])}, mode={c['mode']}",
                              {"case": c, "finding_key": "lind-apply-" + c["mode"]})
            # trace of the generator vanishes
            D = 2 ** c["N"]
            tr = sum(out[i * D + i] for i in range(D))
            if exact and tr != 0 and ok and report and c["mode"] == "real":
                ctx.violation(f"trace of L@rho is {tr}, not 0", {"case": c, "finding_key": "lind-trace"})
        return ok, (out, cs, sn)
    a, b = impl_mm(c)
    ok = a == b
    if not ok and report:
        ctx.violation("matmul_2x2_with_batched differs from torch matmul", {"case": c, "finding_key": "matmul-2x2"})
    return ok, (a, b)


# ------------------------------------------------------------------------------------------------
# precision stream: GENERIC (non-dyadic) float64 / complex128 inputs over several decades; every returned tensor
# must be complex128 (float64 for expect) and agree with the numpy complex128 dense reference to PREC_TOL relative to
# the magnitude of the data entering each entry (|H| |v| etc.).  float64 rounding here is <= ~1e-14; a pass through
# float32 / complex64 is ~6e-8.
PREC_TOL = 1e-12


def _fl(rng, lo=-2.0, hi=1.0):
    if rng.random() < 0.4:
        return rng.choice([0.1, 0.3, 1 / 3, 0.7, 1.1, 2.9, 0.6, 0.8]) * rng.choice([1, -1])
    return rng.choice([1, -1]) * 10 ** rng.uniform(lo, hi)


def gen_fprec_case(rng, N, real_path):
    D = 2 ** N
    U = [[0.0] * N for _ in range(N)]
    for i in range(N):
        for j in range(i + 1, N):
            U[i][j] = U[j][i] = abs(_fl(rng, -1, 1.5))
    Ls = [[[[_fl(rng, -1.5, 0.3), _fl(rng, -1.5, 0.3)] for _ in range(2)] for _ in range(2)]
          for _ in range(rng.randint(0, 3))]
    A = [[[_fl(rng), _fl(rng)] for _ in range(D)] for _ in range(D)] if N <= 5 else None
    rho = None if A is None else [[[A[r][c][0] + A[c][r][0], A[r][c][1] - A[c][r][1]] for c in range(D)] for r in range(D)]
    d0, d2 = rng.choice([1, 2, 3, 4]), rng.choice([1, 2, 3, 5])
    return {"kind": "fprec", "N": N, "real_path": real_path,
            "omega": [_fl(rng, -1, 1.3) for _ in range(N)], "delta": [_fl(rng, -1, 1.5) for _ in range(N)],
            "phis": [0.0] * N if real_path else [rng.uniform(-7, 7) for _ in range(N)], "U": U, "Ls": Ls,
            "vec": [[_fl(rng), _fl(rng)] for _ in range(D)], "rho": rho,
            "mm": {"d0": d0, "d2": d2, "op": [[[_fl(rng), _fl(rng)] for _ in range(2)] for _ in range(2)],
                   "x": [[_fl(rng), _fl(rng)] for _ in range(d0 * 2 * d2)]}}


def impl_fprec(c):
    import torch
    import emu_sv.hamiltonian as hm
    import emu_sv.lindblad_operator as lo
    from emu_sv.state_vector import StateVector
    from emu_sv.density_matrix_state import DensityMatrix
    from emu_base.math.matmul import matmul_2x2_with_batched
    from emu_base import compute_noise_from_lindbladians
    om, de, ph, U = _tensors(c)
    out = {}

    def rec(name, t):
        out[name] = ([complex(x) for x in t.reshape(-1).tolist()], str(t.dtype))

    vec = torch.tensor([cplx(p) for p in c["vec"]], dtype=torch.complex128)
    h = hm.RydbergHamiltonian(omegas=om, deltas=de, phis=ph, interaction_matrix=U, device="cpu")
    rec("H*v", h * vec)
    rec("H.expect", h.expect(StateVector(vec, gpu=False)))
    if c["rho"] is not None:
        Ls = [torch.tensor([[cplx(x) for x in r] for r in m], dtype=torch.complex128) for m in c["Ls"]]
        rho = torch.tensor([[cplx(x) for x in r] for r in c["rho"]], dtype=torch.complex128)
        lind = lo.RydbergLindbladian(omegas=om, deltas=de, phis=ph, pulser_lindblads=Ls, interaction_matrix=U,
                                     device="cpu")
        rec("L@rho", lind @ rho)
        S = compute_noise_from_lindbladians(Ls)
        rec("compute_noise", S)
        rec("h_eff", lind.h_eff(rho, S))
        rec("L.expect", lind.expect(DensityMatrix(rho, gpu=False)))
    m = c["mm"]
    op = torch.tensor([[cplx(x) for x in r] for r in m["op"]], dtype=torch.complex128)
    x = torch.tensor([cplx(p) for p in m["x"]], dtype=torch.complex128).view(m["d0"], 2, m["d2"])
    rec("matmul_2x2", matmul_2x2_with_batched(op, x))
    return out


def ref_fprec(c):
    """name -> (reference array, magnitude scale of the data entering it)"""
    import numpy as np
    N = c["N"]
    sx = np.array([[0, 1], [1, 0]], dtype=complex)
    sy = np.array([[0, -1j], [1j, 0]], dtype=complex)
    n = np.array([[0, 0], [0, 1]], dtype=complex)

    def hq(q):
        return (c["omega"][q] / 2.0) * (math.cos(c["phis"][q]) * sx + math.sin(c["phis"][q]) * sy) - c["delta"][q] * n

    H = dense_H(c, hq)
    Habs = dense_H(dict(c, U=[[abs(x) for x in r] for r in c["U"]]), lambda q: np.abs(hq(q)))
    v = np.array([cplx(p) for p in c["vec"]], dtype=complex)
    out = {"H*v": (H @ v, np.max(Habs @ np.abs(v))),
           "H.expect": (np.array([np.vdot(v, H @ v).real]), float(np.abs(v) @ (Habs @ np.abs(v))))}
    if c["rho"] is not None:
        Ls = [np.array([[cplx(x) for x in r] for r in m], dtype=complex) for m in c["Ls"]]
        rho = np.array([[cplx(x) for x in r] for r in c["rho"]], dtype=complex)
        ar = np.abs(rho)
        S = -0.5j * sum((L.conj().T @ L for L in Ls), np.zeros((2, 2), dtype=complex))
        Sabs = 0.5 * sum((np.abs(L).T @ np.abs(L) for L in Ls), np.zeros((2, 2)))
        Heff, Heffabs = H.copy(), Habs.copy()
        jump, jumpabs = np.zeros_like(H), np.zeros_like(Habs)
        for q in range(N):
            Heff = Heff + _site(np, S, q, N)
            Heffabs = Heffabs + _site(np, Sabs, q, N)
            for L in Ls:
                Lq = _site(np, L, q, N)
                jump = jump + Lq @ rho @ Lq.conj().T
                jumpabs = jumpabs + np.abs(Lq) @ ar @ np.abs(Lq).T
        out["L@rho"] = (Heff @ rho - rho @ Heff.conj().T + 1j * jump,
                        np.max(Heffabs @ ar + ar @ Heffabs.T + jumpabs))
        out["compute_noise"] = (S, max(1e-300, float(np.max(Sabs))))
        out["h_eff"] = (Heff @ rho, np.max(Heffabs @ ar))
        out["L.expect"] = (np.array([np.trace(H @ rho).real]), float(np.trace(Habs @ ar)))
    m = c["mm"]
    op = np.array([[cplx(x) for x in r] for r in m["op"]], dtype=complex)
    x = np.array([cplx(p) for p in m["x"]], dtype=complex).reshape(m["d0"], 2, m["d2"])
    out["matmul_2x2"] = (op @ x, np.max(np.abs(op) @ np.abs(x)))
    return out


def check_fprec(ctx, c, report=True):
    import numpy as np
    r = impl_fprec(c)
    ok = True
    for name, (want, scale) in ref_fprec(c).items():
        got, dt = r[name]
        got = np.array(got, dtype=complex)
        want = np.asarray(want, dtype=complex).reshape(-1)
        tol = PREC_TOL * max(float(scale), 1e-300)
        err = float(np.max(np.abs(got - want))) if got.shape == want.shape else float("inf")
        if not (err <= tol):
            ok = False
            if report:
                ctx.violation(f"{name}: deviates from the complex128 dense reference by {err:.3e} (allowed {tol:.1e}) on "
                              f"generic float inputs, N={c['N']}, {'phi=0 path' if c['real_path'] else 'complex path'}",
                              {"case": c, "finding_key": "operator-lost-precision", "where": name, "max_abs_error": err})
        want_dt = "torch.float64" if name.endswith(".expect") else "torch.complex128"
        if dt != want_dt:
            ok = False
            if report:
                ctx.violation(f"{name}: returned dtype {dt} instead of {want_dt}",
                              {"case": c, "finding_key": "operator-dtype", "where": name})
    return ok, None



# ------------------------------------------------------------------------------------------------
# aliasing / purity oracle: the SAME operator object applied several times, all results kept and compared with the
# dense reference only AFTER all applications; nested applications; inputs must stay bit-identical; results must not
# share storage with each other, with the inputs, or with tensors held by the operator object.
ALIAS_TOL = 1e-10


def gen_alias_case(rng, N, real_path):
    c = gen_common(rng, N)
    if not any(c["omega"]):
        c["omega"][rng.randrange(N)] = rng.choice([-3, 2, 5])
    D = 2 ** N
    c.update({"kind": "alias", "real_path": real_path,
              "phis": [0.0] * N if real_path else [rng.uniform(-3, 3) for _ in range(N)],
              "vecs": [[_gi(rng, 5) for _ in range(D)] for _ in range(3)],
              "Ls": [[[_gi(rng, 2), _gi(rng, 2)], [_gi(rng, 2), _gi(rng, 2)]] for _ in range(rng.randint(1, 2))],
              "mm_op": [[_gi(rng, 4), _gi(rng, 4)], [_gi(rng, 4), _gi(rng, 4)]]})
    if N <= 4:
        rhos = []
        for _ in range(2):
            A = [[_gi(rng, 3) for _ in range(D)] for _ in range(D)]
            rhos.append([[[A[r][k][0] + A[k][r][0], A[r][k][1] - A[k][r][1]] for k in range(D)] for r in range(D)])
        c["rhos"] = rhos
    else:
        c["rhos"] = None
    return c


def _storage_ptr(t):
    try:
        return t.untyped_storage().data_ptr()
    except Exception:
        return t.data_ptr()


def _obj_tensors(obj):
    import torch
    out = {}
    for k, v in vars(obj).items():
        if isinstance(v, torch.Tensor) and v.numel() > 0:
            out[k] = v
        elif isinstance(v, (list, tuple)):
            for i, x in enumerate(v):
                if isinstance(x, torch.Tensor) and x.numel() > 0:
                    out[f"{k}[{i}]"] = x
    return out


def check_alias(ctx, c, report=True):
    import numpy as np
    import torch
    import emu_sv.hamiltonian as hm
    import emu_sv.lindblad_operator as lo
    from emu_sv import time_evolution as te
    from emu_sv.state_vector import StateVector
    from emu_base.math.matmul import matmul_2x2_with_batched
    from emu_base import compute_noise_from_lindbladians
    N, D = c["N"], 2 ** c["N"]
    problems = []

    def bad(what):
        problems.append(what)

    def run_family(name, apply, inputs, ref, holder=None, nested=True):
        """apply(x) -> tensor; inputs: list of tensors; ref(np array) -> np array."""
        saved = [x.clone() for x in inputs]
        outs = []
        for i, x in enumerate(inputs):
            try:
                outs.append(apply(x))
            except Exception as ex:  # noqa: BLE001
                bad(f"{name}: application #{i} raised {type(ex).__name__}: {str(ex)[:120]}")
                return
        nest = None
        if nested:
            try:
                nest = apply(apply(inputs[0]))
            except Exception as ex:  # noqa: BLE001
                bad(f"{name}: nested application op(op(x)) raised {type(ex).__name__}: {str(ex)[:120]}")
        # --- only now compare
        for i, (x, x0) in enumerate(zip(inputs, saved)):
            if not torch.equal(x, x0):
                bad(f"{name}: input #{i} was modified in place")
        refs = [ref(x0.numpy()) for x0 in saved]
        for i, (o, r) in enumerate(zip(outs, refs)):
            sc = max(1.0, float(np.max(np.abs(r))))
            if tuple(o.shape) != r.shape or float(np.max(np.abs(o.numpy() - r))) > ALIAS_TOL * sc:
                bad(f"{name}: result #{i} (kept while the operator was applied again) no longer equals the dense reference")
        if nest is not None:
            r2 = ref(refs[0])
            sc = max(1.0, float(np.max(np.abs(r2))))
            if tuple(nest.shape) != r2.shape or float(np.max(np.abs(nest.numpy() - r2))) > ALIAS_TOL * sc:
                bad(f"{name}: nested application op(op(x)) differs from the dense reference")
        ptrs = {}
        for i, o in enumerate(outs):
            ptrs.setdefault(_storage_ptr(o), []).append(f"result#{i}")
        for i, x in enumerate(inputs):
            ptrs.setdefault(_storage_ptr(x), []).append(f"input#{i}")
        if holder is not None:
            for k, t in _obj_tensors(holder).items():
                ptrs.setdefault(_storage_ptr(t), []).append(f"operator.{k}")
        for names in ptrs.values():
            if len(names) > 1 and any(n.startswith("result") for n in names):
                bad(f"{name}: tensors share storage: {names}")

    om, de, ph, U = _tensors(c)
    cs, sn = [math.cos(p) for p in c["phis"]], [math.sin(p) for p in c["phis"]]
    sx = np.array([[0, 1], [1, 0]], dtype=complex)
    sy = np.array([[0, -1j], [1j, 0]], dtype=complex)
    nn = np.array([[0, 0], [0, 1]], dtype=complex)
    hq = lambda q: (c["omega"][q] / 2.0) * (cs[q] * sx + sn[q] * sy) - c["delta"][q] * nn
    H = dense_H(c, hq)
    vecs = [torch.tensor([cplx(p) for p in v], dtype=torch.complex128) for v in c["vecs"]]
    h = hm.RydbergHamiltonian(omegas=om, deltas=de, phis=ph, interaction_matrix=U, device="cpu")
    run_family("RydbergHamiltonian.__mul__", lambda v: h * v, vecs, lambda v: H @ v, holder=h)
    # expect twice on the same object
    es = [float(h.expect(StateVector(v.clone(), gpu=False))) for v in vecs]
    for i, (e, v) in enumerate(zip(es, vecs)):
        r = float(np.vdot(v.numpy(), H @ v.numpy()).real)
        if abs(e - r) > ALIAS_TOL * max(1.0, abs(r)):
            bad(f"RydbergHamiltonian.expect: value #{i} wrong when the operator object is reused")
    # derivative operators (batched vectors)
    batch = [torch.stack([vecs[0], vecs[1]]), torch.stack([vecs[2], vecs[0]])]
    k = N - 1
    dO = te.DHDOmegaSparse(k, "cpu", N, ph[k])
    SO = 0.5 * (cs[k] * sx + sn[k] * sy)
    run_family("DHDOmegaSparse.__matmul__", lambda b: dO @ b, batch, lambda b: b @ _site(np, SO, k, N).T, holder=dO)
    dP = te.DHDPhiSparse(k, "cpu", N, om[k], ph[k])
    SP = 0.5 * c["omega"][k] * (math.cos(c["phis"][k] + math.pi / 2) * sx + math.sin(c["phis"][k] + math.pi / 2) * sy)
    run_family("DHDPhiSparse.__matmul__", lambda b: dP @ b, batch, lambda b: b @ _site(np, SP, k, N).T, holder=dP)
    dD = te.DHDDeltaSparse(0, N)
    run_family("DHDDeltaSparse.__matmul__", lambda b: dD @ b, batch, lambda b: b @ (-_site(np, nn, 0, N)).T, holder=dD)
    if N >= 2:
        dU = te.DHDUSparse(0, N - 1, N)
        NU = _site(np, nn, 0, N) @ _site(np, nn, N - 1, N)
        run_family("DHDUSparse.__matmul__", lambda b: dU @ b, batch, lambda b: b @ NU.T, holder=dU)
    # batched 2x2 matmul
    op = torch.tensor([[cplx(x) for x in r] for r in c["mm_op"]], dtype=torch.complex128)
    xs = [v.view(-1, 2, 1) if N == 1 else v.view(2, 2, -1) for v in vecs]
    run_family("matmul_2x2_with_batched", lambda x: matmul_2x2_with_batched(op, x), xs,
               lambda x: op.numpy() @ x)
    if c["rhos"] is not None:
        Ls = [torch.tensor([[cplx(x) for x in r] for r in m], dtype=torch.complex128) for m in c["Ls"]]
        rhos = [torch.tensor([[cplx(x) for x in r] for r in m], dtype=torch.complex128) for m in c["rhos"]]
        lind = lo.RydbergLindbladian(omegas=om, deltas=de, phis=ph, pulser_lindblads=Ls, interaction_matrix=U,
                                     device="cpu")
        Lsn = [L.numpy() for L in Ls]
        S = -0.5j * sum((L.conj().T @ L for L in Lsn), np.zeros((2, 2), dtype=complex))
        Heff = H + sum(_site(np, S, q, N) for q in range(N))
        Lq = [_site(np, L, q, N) for q in range(N) for L in Lsn]

        def G(X):   # what the code computes for ANY X (C06_lindblad_apply_general)
            Y = Heff @ X
            return Y - Y.conj().T + 1j * sum(M @ X @ M.conj().T for M in Lq)

        run_family("RydbergLindbladian.__matmul__", lambda r: lind @ r, rhos, G, holder=lind)
        St = compute_noise_from_lindbladians(Ls)
        run_family("RydbergLindbladian.h_eff", lambda r: lind.h_eff(r, St), rhos, lambda X: Heff @ X, holder=lind)
    ok = not problems
    if problems and report:
        ctx.violation("operator application is not pure (result aliased / input modified / nested application fails): "
                      + "; ".join(problems[:4]),
                      {"case": c, "finding_key": "operator-result-aliased", "problems": problems})
    return ok, None



def corpus_cases():
    p = common.VERIF / "corpus" / "C06.json"
    return json.loads(p.read_text()) if p.exists() else []


def run(ctx):
    from vlib.coqparse import parse

    rc, out = common.coq_make(["Model/SvHam.vo"])
    ctx.obligation("build:Model/SvHam.vo", rc == 0, out, kind="build")
    model_ok = rc == 0
    common.standard_proof_stage(ctx, "C06", ["Properties/C06.vo"])

    rng = ctx.rng
    th = ctx.thorough()
    cases = [dict(c, corpus=True) for c in corpus_cases()]
    # --- Hamiltonian, model tie + oracle
    maxN = 8 if th else 6
    for N in range(1, maxN + 1):
        for mode in ("real", "exact", "true"):
            reps = ctx.n(3, 24) if N <= 6 else ctx.n(0, 8)
            for _ in range(reps):
                cases.append(gen_ham_case(rng, N, mode))
    # --- Lindbladian, model tie (small N: the list model is quadratic) + oracle
    for N, reps in ((1, ctx.n(4, 30)), (2, ctx.n(5, 40)), (3, ctx.n(4, 30)), (4, ctx.n(1, 8)), (5, ctx.n(0, 2))):
        for i in range(reps):
            mode = ("real", "exact", "true")[i % 3]
            cases.append(dict(gen_lind_case(rng, N, mode, nj=(0 if i % 7 == 6 else None) if N < 5 else 2), tie=True))
    # --- Lindbladian, oracle only (dense reference), larger N
    for N in range(4, (8 if th else 6) + 1):
        for i in range(ctx.n(2, 6) if N < 8 else 2):
            mode = ("real", "exact", "true")[i % 3]
            cases.append(dict(gen_lind_case(rng, N, mode, nj=rng.randint(0, 6 if N < 7 else 3)), tie=False))
    for _ in range(ctx.n(30, 300)):
        cases.append(gen_mm_case(rng))
    # --- aliasing / purity stream (same operator object reused, nested applications)
    for N in range(1, (7 if th else 5) + 1):
        for i in range(ctx.n(2, 6)):
            cases.append(gen_alias_case(rng, N, real_path=(i % 2 == 0)))
    # --- precision / dtype stream (generic floats, oracle only: float rounding is outside the model)
    for N in range(1, (8 if th else 6) + 1):
        for i in range(ctx.n(2, 10) if N <= 5 else ctx.n(1, 3)):
            cases.append(gen_fprec_case(rng, N, real_path=(i % 2 == 0)))

    ev = common.CoqEval("C06", HEADER)
    pending = []  # (case, how, expr index, data)
    hist = {}
    for c in cases:
        ok, data = check_case(ctx, c)
        key = f"{c['kind']}/N={c.get('N', '-')}/{c.get('mode', '-')}"
        hist[key] = hist.get(key, 0) + 1
        nontrivial = c["kind"] == "matmul" or (c["N"] >= 2 and any(c["omega"]) and (c["kind"] in ("ham", "fprec", "alias") or c["Ls"]))
        ctx.count_case({k: c[k] for k in c if k not in ("vec", "rho", "mm", "vecs", "rhos")} | {"oracle_ok": ok}, nontrivial)
        if not model_ok or c["kind"] in ("fprec", "alias"):
            continue
        exact = c.get("mode") != "true"
        if c["kind"] == "ham":
            outv, e = data
            pending.append((c, "idx" if exact else "val", ev.add(ham_expr(c, e, outv if exact else None)), outv))
        elif c["kind"] == "lind" and c.get("tie", True) and c["N"] <= 5:
            outv, cs, sn = data
            pending.append((c, "idx" if exact else "val",
                            ev.add(lind_expr(c, cs, sn, outv if exact else None)), outv))
            if c["N"] <= 3 and exact:  # the GPU (matmul_2x2_with_batched) path of the model gives the same
                pending.append((c, "idx", ev.add(lind_expr(c, cs, sn, outv, cpu=False)), outv))
        elif c["kind"] == "matmul":
            a, b = data
            pending.append((c, "idx", ev.add(mm_expr(c, a, True)), a))
            pending.append((c, "idx", ev.add(mm_expr(c, b, False)), b))
    ctx.extra["input_distribution"] = dict(sorted(hist.items()))

    corr_ok, detail, n_exact, n_tol = model_ok, "" if model_ok else "model does not build", 0, 0
    if model_ok:
        try:
            outs = ev.run(shard=40 if th else 12, jobs=12)
            for (c, how, idx, outv) in pending:
                v = parse(outs[idx])
                if how == "idx":
                    n_exact += 1
                    good = v == -1
                    why = f"first differing index {v}"
                else:
                    n_tol += 1
                    good = isinstance(v, tuple) and v[0] == "Some" and close([from_dy(t) for t in v[1]], outv, False)
                    why = "tolerance comparison failed"
                if not good and corr_ok:
                    corr_ok = False
                    detail = f"{why}; case={json.dumps({k: c[k] for k in c if k not in ('vec', 'rho')})}"
                    ctx.extra["first_disagreement"] = {"case": c, "why": why}
        except (common.CoqEvalError, ValueError) as ex:
            corr_ok, detail = False, str(ex)
    ctx.extra["tie_comparisons"] = {"exact": n_exact, "tolerance_1e-9": n_tol}
    ctx.obligation("correspondence:Model.SvHam==RydbergHamiltonian/RydbergLindbladian/matmul_2x2_with_batched "
                   "(exact on dyadic Gaussian data; tol 1e-9 for genuine phases)", corr_ok, detail,
                   kind="correspondence")
    ctx.rule = ("per N and phase mode (real: phi=0 fast path; exact: torch.exp/cos/sin rebound to prescribed "
                "Gaussian integers; true: genuine phases, tolerance 1e-9*scale): random integer Omega, delta, "
                "signed (mostly symmetric) U, Gaussian-integer vectors / Hermitian and non-Hermitian matrices, "
                "0-6 random Gaussian-integer 2x2 jump operators; non-trivial = N >= 2, some Omega != 0 and (for "
                "the Lindbladian) at least one jump operator; distinct by input hash")
    ctx.trusted_base += ["hand-written Gallina model coq/Model/SvHam.v + SvBase.v (index-map semantics of view / "
                         "select / index_add_ / in-place +=), validated by the exact correspondence on every run",
                         "float64 + - * on small integers and half-integers is exact (so torch == dyadic model)",
                         "numpy kron/matmul for the independent dense reference of the falsifier"]
    ctx.assumptions += [f"precision stream: generic float inputs, tolerance {PREC_TOL} relative to |H||v| (resp. the "
                        "analogous magnitude bound); float64 rounding there is <= ~1e-14, float32 is ~6e-8",
                        "CPU tensors; the GPU branch (matmul_2x2_with_batched) is covered by the theorem "
                        "C06_matmul_2x2_batched_spec, by its own exact tie, and by the model's cpu=false path",
                        "genuine phases: rounding of torch.exp/cos/sin and of float products is outside the theorems "
                        "(compared with tolerance 1e-9 relative to the data scale)",
                        "Lindbladian theorem and oracle are for Hermitian rho (the code uses X - X^dagger)"]


def replay(ctx, path):
    rp = json.loads(open(path).read())
    c = rp["case"]
    ok, _ = check_case(ctx, c)
    print("replay: oracle", "agrees" if ok else "DISAGREES", "kind", c["kind"], "N", c.get("N"))


META = {
    "category": "proof",
    "technique": "Coq proof over an arbitrary commutative ring with involution (all N) + exact dyadic "
                 "correspondence of the Gallina model with the torch code + dense-reference falsifier",
    "text": ("Proved for every N and every commutative *-ring: the diagonal builder yields -sum delta_i b_i + "
             "sum_{i<j} U_ij b_i b_j; the real and complex sigma loops add sum_n (c_n sigma+_n + conj(c_n) sigma-_n) v "
             "and coincide for real amplitudes; H*v equals the entrywise-defined dense matrix times v; the dense "
             "matrix is Hermitian for real parameters; matmul_2x2_with_batched equals the batched 2x2 product; "
             "L@rho equals H_eff rho - rho H_eff^dagger + i sum L rho L^dagger entrywise for Hermitian rho. "
             "Validated (not proved): that the Gallina model is the torch code (exact tie, N<=8 / N<=5)."),
    "note": ("Trusted: Coq kernel+VM, the hand-written model (tied exactly on every run), exactness of float64 "
             "on small dyadic data. Float rounding for genuine phases is outside the theorems."),
}
