"""C17 — emu-mps quantum-jump trajectories reproduce Lindblad dynamics on average (DESIGN.md §4 C17).

Proof: coq/Properties/C17.v — over any commutative ring with involution, every dimension and every jump list:
the noise term / aggregated operators, H_eff - H_eff^dagger = -i sum J^dagger J, the norm-decay identity, the
first-order Monte-Carlo-wave-function identity (average of no-jump and jump branches = rho + dt*Lindblad(rho) +
dt^2 ...), jump weight = |J psi|^2, and the row-major ordering of jump candidates and weights.
Tie: Model/McwfOps.v against the real NoisyMPSBackendImpl: init_lindblad_noise EXACT (dyadic Gaussian rationals);
do_random_quantum_jump with the module name `random` rebound to a recorder: candidate order exact, weights and
jumped state against the model evaluated exactly on the contracted MPS (1e-9 relative: the code goes through QR).
Falsifier: (a) deterministic scripted trajectories (thresholds / choices scripted through the same rebinding):
no-jump and single-forced-jump runs against a dense H_eff evolution; (b) statistical: trajectory averages of
occupations against the dense Lindblad reference of C16 with a Bernstein bound at family-wise error <= 1e-6.
"""
import json
import logging
import math
import random as pyrandom
import warnings

import numpy as np

from props import _dense_ref as D
from props import c06 as C6
from props.c16 import liouvillian
from vlib import common
from vlib.coqparse import parse

HEADER = """From Coq Require Import ZArith List Bool.
Import ListNotations.
From EV Require Import Model.SvBase Model.SvHam Model.McwfOps.
Open Scope Z_scope."""

FWER = 1e-6          # family-wise error of the statistical stage, per run
BIAS = 0.02          # allowance for the systematic error of the real algorithm (TDVP step, 1 ns jump location)
DET_TOL_NOJUMP = 2e-3   # observed <= 7e-5 (TDVP error of the no-jump evolution)
DET_TOL_JUMP = 4e-2     # occupations; the jump time is located only to 1 ns (is_converged(tolerance=1)); observed <= 4e-3 for candidates of non-negligible weight
DET_TOL_WEIGHT = 1e-1   # relative; weights move by ~Omega * 1 ns around the crossing; observed <= 2e-2


# =====================================================================================================
# helpers on the real code
def _seqdata(prob, ops, d, bad=None):
    import torch
    from emu_base.pulser_adapter import HamiltonianType, SequenceData

    n = prob["n"]
    U = torch.tensor(np.asarray(prob["U"], dtype=float), dtype=torch.float64)
    c = lambda a: torch.tensor(np.asarray(a), dtype=torch.complex128)  # noqa: E731
    return SequenceData(c(prob["omega"]), c(prob["delta"]), c(prob["phi"]), lambda t: U,
                        tuple(f"q{i}" for i in range(n)),
                        tuple(bool(b) for b in bad) if bad else tuple(False for _ in range(n)),
                        [torch.tensor(np.asarray(o), dtype=torch.complex128) for o in ops],
                        0.1 if bad else 0.0, list(prob["times"]),
                        ["r", "g"] if d == 2 else ["r", "g", "x"], HamiltonianType.Rydberg)


def _config(observables, precision=None, reorder=False):
    """precision=None: the default truncation precision (1e-5 per truncation) — used by the statistical runs.
    The deterministic scripted runs use 1e-8: they check the jump logic, not the truncation accuracy (with the
    default, three qutrits already deviate by ~5e-3 in occupation from the exact H_eff evolution)."""
    import emu_mps
    kw = {} if precision is None else {"precision": precision}
    with warnings.catch_warnings():
        warnings.simplefilter("ignore")
        return emu_mps.MPSConfig(observables=observables, log_level=logging.CRITICAL,
                                 optimize_qubit_ordering=bool(reorder), num_gpus_to_use=0, **kw)


class _CallbackProbe:
    """Wraps one observable of the run's config: records the norm of the state object the backend hands to it (for
    runs with badly prepared atoms that is the padded full-register state built inside fill_results)."""

    def __init__(self, inner, log):
        self.__dict__["_inner"] = inner
        self.__dict__["_log"] = log

    def __call__(self, config, t, state, hamiltonian, result):
        self._log.append((float(t), float(state.norm())))
        return self._inner(config, t, state, hamiltonian, result)

    def __getattr__(self, name):
        return getattr(self._inner, name)


class probed_fills:
    """Rebinds emu_mps.mps_backend.create_impl: the created implementation is kept (.impl) and every observable
    callback is wrapped by _CallbackProbe (.log = [(fractional time, norm of the state handed over)]).  The config
    itself is untouched before construction, so qubit reordering stays enabled."""

    def __init__(self):
        self.log, self.impl = [], None

    def __enter__(self):
        import emu_mps.mps_backend as mb
        self.mb, self.orig = mb, mb.create_impl

        def create(data, config):
            impl = self.orig(data, config)
            opts = impl.config._backend_options
            opts["observables"] = tuple(_CallbackProbe(o, self.log) for o in opts["observables"])
            self.impl = impl
            return impl

        mb.create_impl = create
        return self

    def __exit__(self, *a):
        self.mb.create_impl = self.orig

    def worst(self):
        return max((abs(nv - 1.0) for _, nv in self.log), default=0.0)


def good_indices(case):
    bad = case.get("bad")
    return [i for i in range(case["n"]) if not (bad and bad[i])]


def sub_problem(prob, good):
    """The problem restricted to the well-prepared atoms (badly prepared atoms stay in |g> and do not interact)."""
    q = dict(prob)
    q["n"] = len(good)
    for k in ("omega", "delta", "phi"):
        q[k] = np.asarray(prob[k])[:, good]
    q["U"] = np.asarray(prob["U"])[np.ix_(good, good)]
    return q


class RandProxy:
    """Stands for the module `random` inside emu_mps.mps_backend_impl: scripted thresholds and choices."""

    def __init__(self, uniforms=None, choice_index=None, real=None):
        self.uniforms = list(uniforms) if uniforms is not None else None
        self.choice_index = choice_index
        self.real = real
        self.uniform_calls = []
        self.choices_calls = []

    def uniform(self, a, b):
        self.uniform_calls.append((a, b))
        if self.uniforms:
            return a + (b - a) * self.uniforms.pop(0)
        if self.uniforms is not None:
            return a           # script exhausted: threshold 0 -> no further jump
        return self.real.uniform(a, b)

    def choices(self, population, weights=None, **kw):
        self.choices_calls.append((list(population), list(weights), dict(kw)))
        if self.choice_index is not None:
            return [population[self.choice_index]]
        return self.real.choices(population, weights=weights, **kw)


class rebound_random:
    def __init__(self, proxy):
        self.proxy = proxy

    def __enter__(self):
        import emu_mps.mps_backend_impl as mbi
        self.mbi, self.saved = mbi, mbi.random
        mbi.random = self.proxy
        return self.proxy

    def __exit__(self, *a):
        self.mbi.random = self.saved


def mps_to_dense(state):
    v = np.ones((1, 1), dtype=complex)
    for f in state.factors:
        a = f.detach().cpu().numpy()
        v = np.tensordot(v, a, axes=([v.ndim - 1], [0]))
    return v.reshape(-1)


# =====================================================================================================
# tie t1: init_lindblad_noise (exact)
def _gi(rng, m=3):
    return [rng.randint(-m, m), rng.randint(-m, m)]


def gen_ops_case(rng):
    k = rng.randint(1, 5)
    Ls = []
    for _ in range(k):
        t = rng.choice(["gauss", "gauss", "lower", "diag", "real", "half"])
        m = [[_gi(rng), _gi(rng)], [_gi(rng), _gi(rng)]]
        if t == "lower":
            m[0][0] = m[1][1] = m[1][0] = [0, 0]
        if t == "diag":
            m[0][1] = m[1][0] = [0, 0]
        if t == "real":
            m = [[[x[0], 0] for x in r] for r in m]
        if t == "half":
            m = [[[x[0] / 2, x[1] / 4] for x in r] for r in m]
        Ls.append(m)
    return {"kind": "init-noise", "Ls": Ls}


def _tiny_prob(n=2, steps=1):
    return dict(n=n, steps=steps, times=[10.0 * k for k in range(steps + 1)], omega=np.ones((steps, n)),
                delta=np.zeros((steps, n)), phi=np.zeros((steps, n)), U=np.zeros((n, n)), xy=False)


def _make_impl(prob, ops, d=2):
    from emu_mps.mps_backend_impl import create_impl
    from pulser.backend import Occupation
    return create_impl(_seqdata(prob, ops, d), _config([Occupation(evaluation_times=[1.0])]))


def init_noise_stage(ctx, n_cases):
    cases = [gen_ops_case(ctx.rng) for _ in range(n_cases)]
    ok, detail = True, ""
    try:
        ev = common.CoqEval("C17init", HEADER)
        for c in cases:
            ops = [np.array([[C6.cplx(x) for x in r] for r in m]) for m in c["Ls"]]
            impl = _make_impl(_tiny_prob(), ops)
            if type(impl).__name__ != "NoisyMPSBackendImpl":
                ok, detail = False, f"create_impl returned {type(impl).__name__} for a sequence with lindblad_ops"
            impl.init_lindblad_noise()
            agg = [complex(x) for x in impl.aggregated_lindblad_ops.reshape(-1).tolist()]
            noise = [complex(x) for x in impl.lindblad_noise.reshape(-1).tolist()]
            Ls = "[" + "; ".join(C6.m2lit(m) for m in c["Ls"]) + "]"
            ev.add(f"dy_first_diff 0 (flat_map (@m2_list DyK) (aggregate DyK {Ls})) {C6.dyl(agg)}")
            ev.add(f"dy_first_diff 0 (@m2_list DyK (lindblad_noise DyK {Ls})) {C6.dyl(noise)}")
            ctx.count_case({"kind": "init-noise", "jumps": len(c["Ls"]), "first": c["Ls"][0]}, nontrivial=True)
        outs = ev.run()
        for i, c in enumerate(cases):
            a, b = parse(outs[2 * i]), parse(outs[2 * i + 1])
            if (a != -1 or b != -1) and ok:
                ok, detail = False, f"aggregated diff at {a}, lindblad_noise diff at {b} for {c}"
    except (common.CoqEvalError, ValueError) as ex:
        ok, detail = False, str(ex)
    ctx.obligation("correspondence:Model.McwfOps.aggregate/lindblad_noise==init_lindblad_noise (exact, dyadic)", ok,
                   detail, kind="correspondence")


# =====================================================================================================
# tie t2: do_random_quantum_jump (candidate order exact; weights / jumped state 1e-9)
def gen_jump_case(rng):
    n = rng.choice([2, 2, 3])
    k = rng.randint(1, 3)
    ops = [[[[round(rng.gauss(0, 1), 3), round(rng.gauss(0, 1), 3)] for _ in range(2)] for _ in range(2)]
           for _ in range(k)]
    bonds = [1] + [rng.choice([1, 2]) for _ in range(n - 1)] + [1]
    factors = [[[[[rng.gauss(0, 1), rng.gauss(0, 1)] for _ in range(bonds[i + 1])] for _ in range(2)]
                for _ in range(bonds[i])] for i in range(n)]
    return {"kind": "jump", "n": n, "ops": ops, "factors": factors, "scale": rng.choice([1.0, 0.5, 0.9]),
            "choice": rng.randrange(n * k), "u": rng.random()}


def impl_jump(c):
    import torch
    from emu_mps import MPS

    n = c["n"]
    ops = [np.array([[complex(*x) for x in r] for r in m]) for m in c["ops"]]
    impl = _make_impl(_tiny_prob(n), ops)
    proxy0 = RandProxy(uniforms=[0.5])
    with rebound_random(proxy0):
        impl.init()
    factors = [torch.tensor(np.array([[[complex(*z) for z in y] for y in x] for x in f]), dtype=torch.complex128)
               for f in c["factors"]]
    st = MPS(factors, eigenstates=("r", "g"), num_gpus_to_use=0)
    st.orthogonalize(0)
    st *= c["scale"] / float(st.norm())
    impl.state = st
    psi = mps_to_dense(st)
    proxy = RandProxy(uniforms=[c["u"]], choice_index=c["choice"])
    with rebound_random(proxy):
        impl.do_random_quantum_jump()
    pop, weights, kw = proxy.choices_calls[0]
    cand = []
    for q, op in pop:
        idx = [i for i, L in enumerate(impl.lindblad_ops) if L is op]
        cand.append((int(q), idx[0] if idx else -1))
    after = mps_to_dense(impl.state)
    return {"psi": psi, "cand": cand, "weights": [float(w) for w in weights], "kw": kw, "after": after,
            "uniform_calls": proxy.uniform_calls, "threshold": impl.jump_threshold,
            "gap": impl.norm_gap_before_jump, "norm_after": float(impl.state.norm()),
            "ncalls": len(proxy.choices_calls)}


def jump_stage(ctx, n_cases):
    cases = [gen_jump_case(ctx.rng) for _ in range(n_cases)]
    ok, detail = True, ""
    try:
        ev = common.CoqEval("C17jump", HEADER)
        impl = []
        for c in cases:
            r = impl_jump(c)
            impl.append(r)
            n, k = c["n"], len(c["ops"])
            Ls = "[" + "; ".join(C6.m2lit(m) for m in c["ops"]) + "]"
            psi = C6.dyl(r["psi"])
            q, kk = divmod(c["choice"], k)
            ev.add(f"jump_candidates {n}%nat {k}%nat")
            ev.add(f"jump_weights DyK {n}%nat {Ls} {psi}")
            ev.add(f"apply_site DyK {n}%nat {q}%nat {C6.m2lit(c['ops'][kk])} {psi}")
        outs = ev.run()
        for i, (c, r) in enumerate(zip(cases, impl)):
            mc = [tuple(x) for x in parse(outs[3 * i])]
            mw = [C6.from_dy(t) for t in parse(outs[3 * i + 1])]
            ma = np.array([C6.from_dy(t) for t in parse(outs[3 * i + 2])])
            ma = ma / np.linalg.norm(ma)
            scale = max(1.0, max(abs(w) for w in mw))
            good = (mc == r["cand"] and r["ncalls"] == 1 and not r["kw"]
                    and len(mw) == len(r["weights"])
                    and all(abs(a.real - b) <= 1e-9 * scale and abs(a.imag) <= 1e-9 * scale for a, b in zip(mw, r["weights"]))
                    and float(np.abs(ma - r["after"]).max()) <= 1e-9
                    and abs(r["norm_after"] - 1.0) <= 1e-10
                    and len(r["uniform_calls"]) == 1 and r["uniform_calls"][0][0] == 0.0
                    and abs(r["uniform_calls"][0][1] - 1.0) <= 1e-9
                    and abs(r["threshold"] - c["u"] * r["uniform_calls"][0][1]) <= 1e-15
                    and abs(r["gap"] - (r["norm_after"] ** 2 - r["threshold"])) <= 1e-9)
            ctx.count_case({"kind": "jump", "n": c["n"], "jumps": len(c["ops"]), "choice": c["choice"],
                            "scale": c["scale"], "op0": c["ops"][0]}, nontrivial=True)
            if not good and ok:
                ok = False
                detail = (f"case n={c['n']} k={len(c['ops'])} choice={c['choice']}: cand impl={r['cand']} model={mc}; "
                          f"weights impl={r['weights']} model={mw}; state diff={float(np.abs(ma - r['after']).max())} "
                          f"uniform={r['uniform_calls']} thr={r['threshold']} gap={r['gap']}")
                ctx.extra["first_jump_disagreement"] = {"case": c}
    except (common.CoqEvalError, ValueError) as ex:
        ok, detail = False, str(ex)
    ctx.obligation("correspondence:Model.McwfOps.jump_candidates/jump_weights/apply_site==do_random_quantum_jump "
                   "(order exact, values 1e-9)", ok, detail, kind="correspondence")



# =====================================================================================================
# split_matrix(preserve_norm=True): validated on the real code (the spectral-theorem part of C17_preserve_norm_rescale)
def split_stage(ctx, n_cases):
    import torch
    from emu_mps.utils import split_matrix

    worst = 0.0
    for i in range(n_cases):
        rng = ctx.rng
        a, b = rng.randint(2, 10), rng.randint(2, 10)
        g = torch.Generator().manual_seed(rng.randrange(2 ** 31))
        m = torch.randn(a, b, dtype=torch.complex128, generator=g)
        decay = torch.tensor([10.0 ** (-rng.uniform(0, 3) * k) for k in range(b)], dtype=torch.complex128)
        m = m * decay                                   # graded columns so that truncation really drops something
        case = {"kind": "split", "shape": [a, b], "max_error": 10.0 ** rng.uniform(-6, -1),
                "max_rank": rng.choice([1, 2, 3, 1024]), "right": rng.random() < 0.5}
        n2 = float(torch.linalg.norm(m)) ** 2
        out = {}
        for pn in (False, True):
            left, right = split_matrix(m.clone(), max_error=case["max_error"], max_rank=case["max_rank"],
                                       orth_center_right=case["right"], preserve_norm=pn)
            out[pn] = (float(torch.linalg.norm(left @ right)) ** 2, left.shape[1])
        rel = abs(out[True][0] - n2) / n2
        worst = max(worst, rel)
        ctx.count_case(dict(case, kept=out[True][1], truncated=out[False][0] < n2 * (1 - 1e-12)), nontrivial=True)
        if rel > 1e-9 or out[False][0] > n2 * (1 + 1e-9):
            ctx.violation(f"split_matrix(preserve_norm=True) changes the squared norm by a relative {rel:.3g} "
                          f"(or plain truncation increased the norm)", {"case": case, "finding_key": "preserve-norm"})
    ctx.extra["split_matrix_worst_relative_norm_change"] = worst

# =====================================================================================================
# precision stream: generic non-dyadic complex128 data, dims 2 AND 3, jump operators whose L^dagger L is NOT diagonal,
# states with coherences; independent numpy complex128 reference at 1e-12 relative to the data scale + dtype oracle
PREC_TOL = 1e-12


def gen_precision_case(rng):
    d = rng.choice([2, 2, 3])
    n = rng.choice([2, 2, 3])
    g = lambda s=1.0: [rng.gauss(0, s), rng.gauss(0, s)]  # noqa: E731
    z = [0.0, 0.0]
    ops = []
    for _ in range(rng.randint(2, 4)):
        style = rng.choice(["dense", "row", "sx+n", "dense"])
        if style == "dense":
            m = [[g(0.8) for _ in range(d)] for _ in range(d)]
        elif style == "row":          # |a><superposition|, e.g. |g><+| : L^dagger L = |+><+| is not diagonal
            a = rng.randrange(d)
            m = [[g(0.8) if i == a else z for _ in range(d)] for i in range(d)]
        else:                          # alpha sigma_x + beta n on the qubit levels
            al, be = g(0.8), g(0.8)
            m = [[z for _ in range(d)] for _ in range(d)]
            m[0][1], m[1][0], m[1][1] = al, al, be
        ops.append(m)
    bonds = [1] + [rng.choice([2, 3]) for _ in range(n - 1)] + [1]
    factors = [[[[g() for _ in range(bonds[i + 1])] for _ in range(d)] for _ in range(bonds[i])] for i in range(n)]
    return {"kind": "precision", "n": n, "d": d, "ops": ops, "factors": factors, "scale": rng.uniform(0.4, 1.0),
            "choice": rng.randrange(n * len(ops)), "u": rng.random()}


def precision_case(ctx, case):
    import torch
    from emu_mps import MPS

    n, d = case["n"], case["d"]
    ops = [np.array([[complex(*x) for x in r] for r in m]) for m in case["ops"]]
    k = len(ops)
    impl = _make_impl(_tiny_prob(n), ops, d)
    with rebound_random(RandProxy(uniforms=[0.5])):
        impl.init()
    worst = 0.0

    def check(name, got, ref):
        nonlocal worst
        scale = max(1.0, float(np.abs(ref).max()))
        err = float(np.abs(np.asarray(got) - ref).max()) / scale
        worst = max(worst, err)
        if err > PREC_TOL:
            ctx.violation(f"{name} differs from the complex128 reference by {err:.3g} relative to the data scale "
                          f"(bound {PREC_TOL:g}, dim {d})", {"case": case, "entry_point": name,
                                                             "finding_key": "lindblad-lost-precision"})
            return False
        return True

    if impl.aggregated_lindblad_ops.dtype != torch.complex128 or impl.lindblad_noise.dtype != torch.complex128:
        ctx.violation(f"init_lindblad_noise produces dtypes {impl.aggregated_lindblad_ops.dtype} / "
                      f"{impl.lindblad_noise.dtype}", {"case": case, "finding_key": "lindblad-lost-precision"})
        return None
    LdL = [L.conj().T @ L for L in ops]
    if not check("aggregated_lindblad_ops", impl.aggregated_lindblad_ops.numpy(), np.array(LdL)):
        return worst
    if not check("lindblad_noise", impl.lindblad_noise.numpy(), -0.5j * sum(LdL)):
        return worst
    # one Monte-Carlo step with scripted randomness on a state with coherences
    factors = [torch.tensor(np.array([[[complex(*zz) for zz in y] for y in x] for x in f]), dtype=torch.complex128)
               for f in case["factors"]]
    st = MPS(factors, eigenstates=("r", "g") if d == 2 else ("r", "g", "x"), num_gpus_to_use=0)
    st.orthogonalize(0)
    st *= case["scale"] / float(st.norm())
    impl.state = st
    psi = mps_to_dense(st)
    proxy = RandProxy(uniforms=[case["u"]], choice_index=case["choice"])
    with rebound_random(proxy):
        impl.do_random_quantum_jump()
    pop, weights, _ = proxy.choices_calls[0]
    w_ref = np.array([float(np.real(np.vdot(psi, embed_d(LdL[kk], q, n, d) @ psi))) for q in range(n) for kk in range(k)])
    if [int(q) for q, _ in pop] != [q for q in range(n) for _ in range(k)] or len(weights) != n * k:
        ctx.violation("jump candidates are not ordered (qubit, operator)", {"case": case, "finding_key": "jump-weights"})
        return worst
    err_w = float(np.abs(np.array(weights, dtype=float) - w_ref).max()) / max(1.0, float(np.abs(w_ref).max()))
    worst = max(worst, err_w)
    if err_w > PREC_TOL:
        key = "lindblad-lost-precision" if err_w < 1e-5 else "jump-weights"
        ctx.violation(f"the weights handed to random.choices differ from <psi|L^dagger L|psi> per (qubit, operator) by "
                      f"{err_w:.3g} relative (dim {d}, operators with non-diagonal L^dagger L, state with coherences)",
                      {"case": case, "weights": [float(x) for x in weights], "reference": w_ref.tolist(),
                       "finding_key": key})
        return worst
    q, kk = divmod(case["choice"], k)
    after_ref = embed_d(ops[kk], q, n, d) @ psi
    after_ref = after_ref / np.linalg.norm(after_ref)
    if any(f.dtype != torch.complex128 for f in impl.state.factors):
        ctx.violation("the jumped state is not complex128", {"case": case, "finding_key": "lindblad-lost-precision"})
        return worst
    check("state after the jump", mps_to_dense(impl.state), after_ref)
    return worst


def precision_stage(ctx, n_cases):
    worst = 0.0
    for _ in range(n_cases):
        c = gen_precision_case(ctx.rng)
        w = precision_case(ctx, c)
        ctx.count_case({"kind": "precision", "n": c["n"], "d": c["d"], "ops": len(c["ops"]), "choice": c["choice"],
                        "err": w}, nontrivial=True)
        worst = max(worst, w or 0.0)
    ctx.extra["precision_stream_worst_relative_error"] = worst


# =====================================================================================================
# dense references for local dimension d (level 0 = g, 1 = r, 2 = x: inert leakage level)
def embed_d(op, j, n, d):
    out = np.array([[1.0 + 0j]])
    for k in range(n):
        out = np.kron(out, op if k == j else np.eye(d))
    return out


def dense_H_d(omega, delta, phi, U, d):
    n = len(omega)
    sx = np.zeros((d, d), complex); sx[0, 1] = sx[1, 0] = 1          # noqa: E702
    sy = np.zeros((d, d), complex); sy[0, 1] = -1j; sy[1, 0] = 1j    # noqa: E702
    nn = np.zeros((d, d), complex); nn[1, 1] = 1                     # noqa: E702
    H = np.zeros((d ** n, d ** n), complex)
    for j in range(n):
        H += 0.5 * omega[j] * (np.cos(phi[j]) * embed_d(sx, j, n, d) + np.sin(phi[j]) * embed_d(sy, j, n, d))
        H -= delta[j] * embed_d(nn, j, n, d)
    for i in range(n):
        for j in range(i + 1, n):
            H += U[i, j] * embed_d(nn, i, n, d) @ embed_d(nn, j, n, d)
    return H


def occ_vec(psi, n, d):
    p = np.abs(psi) ** 2
    p = p.reshape([d] * n)
    return np.array([float(np.take(p, 1, axis=j).sum()) for j in range(n)])


def occ_rho(rho, n, d):
    p = np.real(np.diag(rho)).reshape([d] * n)
    return np.array([float(np.take(p, 1, axis=j).sum()) for j in range(n)])


def lindblad_reference(prob, ops, d, psi0=None):
    import scipy.linalg as sla
    n = prob["n"]
    dim = d ** n
    rho = np.zeros((dim, dim), complex)
    rho[0, 0] = 1
    if psi0 is not None:
        rho = np.outer(psi0, np.conj(psi0))
    Js = [embed_d(L, q, n, d) for q in range(n) for L in ops]
    out = [rho.copy()]
    for k in range(prob["steps"]):
        H = dense_H_d(prob["omega"][k], prob["delta"][k], prob["phi"][k], prob["U"], d)
        dt = (prob["times"][k + 1] - prob["times"][k]) * 1e-3
        rho = (sla.expm(liouvillian(H, Js) * dt) @ rho.reshape(-1)).reshape(dim, dim)
        out.append(rho.copy())
    return out


def scripted_reference(prob, ops, d, u1, jump):
    """Dense trajectory with ONE scripted threshold u1 (None: no jump) and jump = (qubit, op index).
    Returns (final unnormalised-state squared norm if no jump happened, final normalised state, jump time,
    weights at the jump time in (qubit, op) row-major order)."""
    import scipy.linalg as sla
    import scipy.optimize as sopt
    n = prob["n"]
    dim = d ** n
    psi = np.zeros(dim, complex)
    psi[0] = 1
    Js = [embed_d(L, q, n, d) for q in range(n) for L in ops]
    A = sum((J.conj().T @ J for J in Js), np.zeros((dim, dim), complex))
    jumped, tj, wj = u1 is None, None, None
    for k in range(prob["steps"]):
        H = dense_H_d(prob["omega"][k], prob["delta"][k], prob["phi"][k], prob["U"], d)
        Heff = H - 0.5j * A
        t0, t1 = prob["times"][k], prob["times"][k + 1]
        prop = lambda t, v: sla.expm(-1j * Heff * (t - t0) * 1e-3) @ v   # noqa: E731
        new = prop(t1, psi)
        if not jumped and np.vdot(new, new).real < u1:
            f = lambda t: np.vdot(prop(t, psi), prop(t, psi)).real - u1  # noqa: E731
            tj = sopt.brentq(f, t0, t1, xtol=1e-9)
            mid = prop(tj, psi)
            wj = [float(np.vdot(J @ mid, J @ mid).real) for J in Js]
            q, kk = jump
            mid = embed_d(ops[kk], q, n, d) @ mid
            mid = mid / np.linalg.norm(mid)
            new = sla.expm(-1j * Heff * (t1 - tj) * 1e-3) @ mid
            jumped = True
        psi = new
    n2 = float(np.vdot(psi, psi).real)
    return n2, psi / math.sqrt(n2), tj, wj


# =====================================================================================================
# cases of the falsifier
def noise_ops(spec, d):
    """Jump operators in emulator order (g, r, x) from a noise description (rates in 1/us)."""
    ops = []
    z = lambda: np.zeros((d, d), complex)  # noqa: E731
    if "relaxation" in spec:
        m = z(); m[0, 1] = math.sqrt(spec["relaxation"]); ops.append(m)          # noqa: E702
    if "dephasing" in spec:
        m = z(); c = math.sqrt(spec["dephasing"] / 2); m[0, 0] = c; m[1, 1] = -c  # noqa: E702
        for lv in range(2, d):
            m[lv, lv] = c
        ops.append(m)
    if "depolarizing" in spec:
        c = math.sqrt(spec["depolarizing"] / 4)
        m = z(); m[0, 1] = m[1, 0] = c; ops.append(m)                             # noqa: E702
        m = z(); m[0, 1] = -1j * c; m[1, 0] = 1j * c; ops.append(m)               # noqa: E702
        m = z(); m[0, 0] = c; m[1, 1] = -c; ops.append(m)                         # noqa: E702
    for rate, op in spec.get("eff", []):
        ops.append(math.sqrt(rate) * np.array([[complex(*x) for x in r] for r in op], dtype=complex))
    return ops


def make_prob(case):
    rng = pyrandom.Random(case["prob_seed"])
    return D.random_problem(rng, case["n"], case["steps"], dt=case["dt"], local=True, phases=case["phases"],
                            scale=case["scale"])


def gen_noise_spec(rng, kind, d):
    g = lambda lo, hi: round(rng.uniform(lo, hi), 2)  # noqa: E731
    if kind == "relaxation":
        return {"relaxation": g(3, 9)}
    if kind == "dephasing":
        return {"dephasing": g(3, 9)}
    if kind == "depolarizing":
        return {"depolarizing": g(3, 9)}
    if kind == "mixed":
        return {"relaxation": g(2, 6), "dephasing": g(2, 6), "depolarizing": g(1, 4)}
    if kind == "effective":
        op = [[[round(rng.gauss(0, 0.7), 2), round(rng.gauss(0, 0.7), 2)] for _ in range(d)] for _ in range(d)]
        if d == 3:
            for i in range(3):      # keep the effective operator inside the qubit levels
                op[i][2] = [0.0, 0.0]
                op[2][i] = [0.0, 0.0]
        return {"eff": [[g(3, 8), op]], "relaxation": g(1, 4)}
    if kind == "offdiag":
        # effective operators whose L^dagger L has off-diagonal elements: |g><+| , a sigma_x + b n  (and |x><+| for d = 3)
        s2 = round(1 / math.sqrt(2), 6)
        op1 = [[[0.0, 0.0]] * d for _ in range(d)]
        op1[0] = [[s2, 0.0], [s2, 0.0]] + [[0.0, 0.0]] * (d - 2)
        a, b = round(rng.uniform(0.4, 1.0), 2), round(rng.uniform(0.4, 1.0), 2)
        op2 = [[[0.0, 0.0]] * d for _ in range(d)]
        op2[0] = [[0.0, 0.0], [a, 0.0]] + [[0.0, 0.0]] * (d - 2)
        op2[1] = [[a, 0.0], [0.0, b]] + [[0.0, 0.0]] * (d - 2)
        eff = [[g(3, 8), op1], [g(2, 6), op2]]
        if d == 3:
            op3 = [[[0.0, 0.0]] * 3 for _ in range(3)]
            op3[2] = [[s2, 0.0], [0.0, s2], [0.0, 0.0]]       # |x>(<g| - i<r|)/sqrt2
            eff.append([g(2, 6), op3])
        return {"eff": eff}
    if kind == "leakage":
        rx = [[[0.0, 0.0]] * 3 for _ in range(3)]
        rx[2] = [[0.0, 0.0], [1.0, 0.0], [0.0, 0.0]]      # |x><r|
        xg = [[[0.0, 0.0]] * 3 for _ in range(3)]
        xg[0] = [[0.0, 0.0], [0.0, 0.0], [1.0, 0.0]]      # |g><x|
        return {"eff": [[g(3, 8), rx], [g(1, 5), xg]], "relaxation": g(1, 4)}
    raise ValueError(kind)


def gen_bad_mask(rng, n):
    """1-2 badly prepared atoms among n >= 3, at least two well-prepared ones (emu-mps needs >= 2 sites)."""
    nbad = 1 if n == 3 else rng.choice([1, 2])
    idx = rng.sample(range(n), nbad)
    return [i in idx for i in range(n)]


def gen_case(rng, kind, n, M, coarse=False, bad=None, reorder=False, d=None):
    """coarse: 6 steps of 40 ns — only for n = 2, where a TDVP step is ONE exact two-site exponential (no splitting
    error), which makes trajectories cheap enough for thousands of samples."""
    d = d or (3 if kind == "leakage" else 2)
    steps = 20 if n <= 3 else 14
    dt = 10.0
    ngood = n - (sum(bad) if bad else 0)
    # (a coarse 6 x 40 ns grid was measured to be SLOWER per trajectory than 20 x 10 ns: long steps need many more
    #  Krylov vectors and root-finding sweeps; the `coarse` flag is kept for old replays only)
    if coarse and ngood == 2 and False:
        steps, dt = 6, 40.0
    elif ngood <= 3:
        steps = 20
    return {"kind": "stat", "noise_kind": kind, "n": n, "d": d, "steps": steps, "dt": dt, "scale": 3.0,
            "phases": rng.random() < 0.6, "prob_seed": rng.randrange(10 ** 6), "noise": gen_noise_spec(rng, kind, d),
            "M": M, "seed": rng.randrange(2 ** 31), "bad": bad, "reorder": reorder}


def empirical_bernstein_threshold(var, M, delta):
    """Maurer & Pontil (2009), Thm 4, two-sided: for iid X in [0,1] with sample variance V (unbiased),
    P(|mean - mu| >= sqrt(2 V ln(4/delta) / M) + 7 ln(4/delta) / (3 (M - 1))) <= delta."""
    L = math.log(4.0 / delta)
    return math.sqrt(2.0 * max(var, 0.0) * L / M) + 7.0 * L / (3.0 * (M - 1))


def bernstein_threshold(p, M, delta):
    """P(|mean - p| >= t) <= 2 exp(-M t^2 / (2 v + 2 t / 3)) for iid X in [0,1] with mean p (Var <= v = p(1-p))."""
    v = max(p * (1 - p), 0.0)
    L = math.log(2.0 / delta)
    b = 2.0 * L / 3.0
    return (b + math.sqrt(b * b + 8.0 * v * L * M)) / (2.0 * M)


def run_trajectories(case, prob, ops, check_states):
    import emu_mps
    from pulser.backend import Occupation

    n, d, M = case["n"], case["d"], case["M"]
    bad, reorder = case.get("bad"), case.get("reorder", False)
    et = [0.5, 1.0]
    total = prob["times"][-1]
    et_all = [t / total for t in prob["times"][1:]]      # an observable at every step: every fill is probed
    acc = np.zeros((2, n))
    acc2 = np.zeros((2, n))
    problems = []
    pyrandom.seed(case["seed"])
    for m in range(M):
        with probed_fills() as pf:
            res = emu_mps.MPSBackend._run_from_sequence_data(
                _seqdata(prob, ops, d, bad),
                _config([Occupation(evaluation_times=et_all if m < check_states else et)], reorder=reorder))
        o = np.array([[float(x) for x in res.get_result("occupation", t)] for t in et])
        if (o < -1e-9).any() or (o > 1 + 1e-9).any() or not np.isfinite(o).all():
            problems.append(("occupation outside [0,1]", m, o.tolist()))
        if pf.worst() > 1e-9 or len(pf.log) < (len(et_all) if m < check_states else 2):
            problems.append(("state handed to the observables is not normalised at a fill (time, norm)", m, pf.log))
        acc += o
        acc2 += o * o
    mean = acc / M
    sd = np.sqrt(np.maximum(acc2 / M - mean ** 2, 0.0))
    return mean, sd, problems


def stat_case(ctx, case, delta):
    prob = make_prob(case)
    n, d, M = case["n"], case["d"], case["M"]
    ops = noise_ops(case["noise"], d)
    good = good_indices(case)
    ref = lindblad_reference(sub_problem(prob, good), ops, d)
    steps = prob["steps"]
    refo = np.zeros((2, n))          # badly prepared atoms stay in |g>: occupation 0
    refo[0, good] = occ_rho(ref[steps // 2], len(good), d)
    refo[1, good] = occ_rho(ref[steps], len(good), d)
    try:
        mean, sd, problems = run_trajectories(case, prob, ops, check_states=M)
    except Exception as ex:
        ctx.violation(f"emu-mps raised on a valid noisy sequence: {ex!r}", {"case": case, "finding_key": "e2e-raises"})
        return None
    for what, m, val in problems[:1]:
        ctx.violation(f"{what} (trajectory {m}: {val})", {"case": case, "finding_key": "trajectory-unphysical"})
    worst = 0.0
    for ti in range(2):
        for j in range(n):
            var = float(sd[ti, j]) ** 2 * M / (M - 1)
            # either bound may be used (each at delta/2: union bound)
            thr = min(bernstein_threshold(float(refo[ti, j]), M, delta / 2),
                      empirical_bernstein_threshold(var, M, delta / 2)) + BIAS
            dev = abs(float(mean[ti, j] - refo[ti, j]))
            worst = max(worst, dev / thr)
            if dev > thr:
                ctx.violation(
                    f"trajectory average of occupation (atom {j}, t={[0.5, 1.0][ti]}) = {mean[ti, j]:.4f} over {M} "
                    f"trajectories, Lindblad value {refo[ti, j]:.4f}, allowed deviation {thr:.4f}",
                    {"case": case, "mean": mean.tolist(), "reference": refo.tolist(), "sd": sd.tolist(),
                     "finding_key": "average-differs"})
                return worst
    return worst


# =====================================================================================================
# the PUBLIC entry point: ONE MPSBackend(seq, config).run() with n_trajectories = K must emulate K independent
# quantum-jump trajectories and return their average
def gen_public_case(rng, K):
    g = lambda lo, hi: round(rng.uniform(lo, hi), 2)  # noqa: E731
    return {"kind": "public-run", "n": 2, "K": K, "dt": 40, "duration": 240, "amp": g(6, 14), "det": g(-3, 3),
            "phase": rng.choice([0.0, g(0, 3)]), "spacing": g(7.5, 10.0),
            "noise": {"relaxation": g(2, 6), "dephasing": g(2, 6)}, "seed": rng.randrange(2 ** 31)}


def public_run_case(ctx, case, delta):
    import pulser
    import emu_mps
    import emu_mps.mps_backend as mb
    from pulser.backend import Occupation

    K, n = case["K"], case["n"]
    reg = pulser.Register({f"q{i}": (case["spacing"] * i, 0.0) for i in range(n)})
    seq = pulser.Sequence(reg, pulser.MockDevice)
    seq.declare_channel("ch", "rydberg_global")
    seq.add(pulser.Pulse.ConstantPulse(case["duration"], case["amp"], case["det"], case["phase"]), "ch")
    et = [0.5, 1.0]
    created = []
    orig = mb.create_impl

    def create(data, config):
        created.append(data)
        return orig(data, config)

    proxy = RandProxy(real=pyrandom.Random(case["seed"]))      # the real sampler, with every call recorded
    mb.create_impl = create
    try:
        with warnings.catch_warnings():
            warnings.simplefilter("ignore")
            cfg = emu_mps.MPSConfig(
                dt=case["dt"], observables=[Occupation(evaluation_times=et)], n_trajectories=K, num_gpus_to_use=0,
                optimize_qubit_ordering=False, log_level=logging.CRITICAL,
                noise_model=pulser.NoiseModel(relaxation_rate=case["noise"]["relaxation"],
                                              dephasing_rate=case["noise"]["dephasing"]))
            with rebound_random(proxy):
                res = emu_mps.MPSBackend(seq, config=cfg).run()
    except Exception as ex:
        ctx.violation(f"MPSBackend.run() raised on a valid noisy sequence: {ex!r}",
                      {"case": case, "finding_key": "e2e-raises"})
        return None
    finally:
        mb.create_impl = orig
    nthr, njump = len(proxy.uniform_calls), len(proxy.choices_calls)
    out = {"emulations": len(created), "threshold_draws": nthr, "jumps": njump}
    # every trajectory draws one threshold when it starts and one more after each of its jumps
    if len(created) != K or nthr != K + njump:
        ctx.violation(f"one run() with n_trajectories={K} emulated {len(created)} trajectories and drew {nthr} jump "
                      f"thresholds for {njump} jumps (expected {K} emulations and {K} + #jumps draws): the averaged "
                      "trajectories are not independent", {"case": case, "counts": out,
                                                           "finding_key": "trajectories-not-independent"})
        if not created:
            return out
    data = created[0]
    times = [float(t) for t in data.target_times]
    prob = {"n": n, "steps": len(times) - 1, "times": times, "omega": data.omega.real.numpy(),
            "delta": data.delta.real.numpy(), "phi": data.phi.real.numpy(),
            "U": data.interaction_matrix(times[0]).numpy()}
    ops = noise_ops(case["noise"], 2)
    ref = lindblad_reference(prob, ops, 2)
    worst = 0.0
    for t in et:
        k = min(range(len(times)), key=lambda i: abs(times[i] / times[-1] - t))
        p = occ_rho(ref[k], n, 2)
        got = np.array([float(x) for x in res.get_result("occupation", t)])
        for j in range(n):
            thr = bernstein_threshold(float(p[j]), K, delta) + BIAS
            dev = abs(float(got[j] - p[j]))
            worst = max(worst, dev / thr)
            if dev > thr:
                ctx.violation(f"occupation (atom {j}, t={t}) returned by ONE run() with n_trajectories={K} is "
                              f"{got[j]:.4f}, Lindblad value {p[j]:.4f}, allowed deviation {thr:.4f}",
                              {"case": case, "counts": out, "finding_key": "average-differs"})
                out["worst_dev_over_threshold"] = worst
                return out
    out["worst_dev_over_threshold"] = worst
    return out


# ---- deterministic scripted trajectories -----------------------------------------------------------------
def det_case(ctx, case):
    """case: like a stat case plus 'u1' (None = no jump) and 'choice' (index in the candidate list)."""
    import emu_mps
    from pulser.backend import Occupation
    from emu_mps.mps_backend_impl import create_impl

    full_prob = make_prob(case)
    n_full, d = case["n"], case["d"]
    bad, reorder = case.get("bad"), case.get("reorder", False)
    good = good_indices(case)
    prob, n = sub_problem(full_prob, good), len(good)      # the reference lives on the well-prepared atoms
    ops = noise_ops(case["noise"], d)
    k = len(ops)
    # chain site s of the real run holds atom perm[s]; the well-prepared ones, in chain order:
    # (minimize_bandwidth draws torch.randperm samples: seed torch identically before the probe and before the run)
    import torch
    torch.manual_seed(case["seed"])
    perm = [int(x) for x in create_impl(_seqdata(full_prob, ops, d, bad),
                                        _config([], reorder=reorder)).qubit_permutation]
    chain = [good.index(a) for a in perm if a in good]   # chain site -> position in the reference register

    def to_ref(choice):
        site, kk = divmod(choice, k)
        return (chain[site], kk)

    def chain_weights(w):
        return [w[chain[site] * k + kk] for site in range(n) for kk in range(k)]

    choice = case["choice"] % (n * k)
    jump = to_ref(choice)
    u1 = None
    if case["u_frac"] is not None:
        n2_nojump = scripted_reference(prob, ops, d, None, jump)[0]
        if 1.0 - n2_nojump > 0.05:          # otherwise the squared norm hardly decays: run it as a no-jump case
            u1 = 1.0 - case["u_frac"] * (1.0 - n2_nojump)
    with np.errstate(all="ignore"):
        n2_ref, psi_ref, tj, wj = scripted_reference(prob, ops, d, u1, jump)
    if wj is not None and chain_weights(wj)[choice] < 0.05 * max(wj):
        # random.choices never picks a candidate of (almost) zero weight: script a possible one instead
        choice = int(np.argmax(chain_weights(wj)))
        jump = to_ref(choice)
        n2_ref, psi_ref, tj, wj = scripted_reference(prob, ops, d, u1, jump)
    if wj is not None:
        wj = chain_weights(wj)
    proxy = RandProxy(uniforms=[u1] if u1 is not None else [], choice_index=choice)
    total = full_prob["times"][-1]
    et_all = [t / total for t in full_prob["times"][1:]]
    torch.manual_seed(case["seed"])
    try:
        with rebound_random(proxy), probed_fills() as pf:
            res = emu_mps.MPSBackend._run_from_sequence_data(
                _seqdata(full_prob, ops, d, bad),
                _config([Occupation(evaluation_times=et_all)], precision=1e-8, reorder=reorder))
    except Exception as ex:
        ctx.violation(f"emu-mps raised on a scripted trajectory: {ex!r}", {"case": case, "finding_key": "e2e-raises"})
        return None
    if [int(x) for x in pf.impl.qubit_permutation] != perm:
        return {"skipped": "qubit ordering of the run differs from the probed one"}   # harness inconsistency, no verdict
    if pf.worst() > 1e-9 or len(pf.log) != len(et_all):
        tw, nw = max(pf.log, key=lambda x: abs(x[1] - 1.0), default=(None, None))
        ctx.violation(f"the state handed to the observables at t={tw} has norm {nw} (not normalised), "
                      f"{len(pf.log)} fills probed of {len(et_all)}; bad atoms {bad}",
                      {"case": case, "fills": pf.log, "finding_key": "fill-not-normalised"})
    impl = pf.impl
    occ = np.array([float(x) for x in res.get_result("occupation", 1.0)])
    occ_ref = np.zeros(n_full)          # badly prepared atoms stay in |g>
    occ_ref[good] = occ_vec(psi_ref, n, d)
    njumps = len(proxy.choices_calls)
    out = {"njumps": njumps, "occ_err": float(np.abs(occ - occ_ref).max()), "u1": u1, "choice": choice}
    if u1 is None or tj is None:
        n2 = float(impl.state.norm()) ** 2
        out["norm2_err"] = abs(n2 - n2_ref)
        if njumps != 0:
            ctx.violation("a jump happened although the squared norm never fell below the threshold",
                          {"case": case, "finding_key": "jump-logic"})
        elif out["norm2_err"] > DET_TOL_NOJUMP or out["occ_err"] > DET_TOL_NOJUMP:
            ctx.violation(f"no-jump trajectory differs from exp(-i H_eff t): squared norm {n2:.6f} vs {n2_ref:.6f}, "
                          f"occupation error {out['occ_err']:.3g}",
                          {"case": case, "finding_key": "heff-evolution"})
        return out
    if njumps != 1:
        ctx.violation(f"{njumps} jumps happened where exactly one threshold crossing was scripted "
                      f"(reference jump time {tj:.2f} ns)", {"case": case, "finding_key": "jump-logic"})
        return out
    pop, weights, _ = proxy.choices_calls[0]
    w = np.array(weights, dtype=float)
    wr = np.array(wj)
    out["weight_err"] = float(np.abs(w - wr).max() / max(1e-12, np.abs(wr).max()))
    order_ok = [int(q) for q, _ in pop] == [q for q in range(n) for _ in range(k)]
    if not order_ok or len(w) != len(wr) or out["weight_err"] > DET_TOL_WEIGHT:
        ctx.violation(f"jump weights at the crossing differ from <psi|L^dagger L|psi> (relative error "
                      f"{out['weight_err']:.3g}) or candidates are not ordered (qubit, operator)",
                      {"case": case, "weights": w.tolist(), "reference": wr.tolist(), "finding_key": "jump-weights"})
    elif out["occ_err"] > DET_TOL_JUMP:
        ctx.violation(f"single-jump trajectory differs from the dense one (occupation error {out['occ_err']:.3g}, "
                      f"jump at {tj:.2f} ns on qubit {jump[0]} operator {jump[1]})",
                      {"case": case, "occ": occ.tolist(), "reference": occ_ref.tolist(), "finding_key": "jump-trajectory"})
    return out


def gen_det_case(rng, kind, n, jump, bad=None, reorder=False, d=None):
    c = gen_case(rng, kind, n, 1, bad=bad, reorder=reorder, d=d)
    c["kind"] = "det"
    d = c["d"]
    k = len(noise_ops(c["noise"], d))
    c["u_frac"] = round(rng.uniform(0.15, 0.85), 3) if jump else None   # threshold as a fraction of the total decay
    c["choice"] = rng.randrange((n - (sum(bad) if bad else 0)) * k)
    return c


def corpus_cases():
    p = common.VERIF / "corpus" / "C17.json"
    return json.loads(p.read_text()) if p.exists() else []


def falsifier_stage(ctx):
    kinds = ["relaxation", "dephasing", "depolarizing", "effective", "leakage", "mixed"]
    det = [c for c in corpus_cases() if c.get("kind") == "det"]
    stat = [c for c in corpus_cases() if c.get("kind") == "stat"]
    ndet = ctx.n(18, 80)
    for i in range(ndet):
        det.append(gen_det_case(ctx.rng, kinds[i % 6], [2, 3, 2, 2, 3, 4][i % 6] if ctx.thorough() else [2, 3, 2][i % 3],
                                jump=(i % 4 != 0)))
    # Lindblad noise TOGETHER with badly prepared atoms (state_prep_error > 0): fill_results pads the state to the
    # full register; 3-5 atoms, 1-2 bad, with and without qubit reordering; two levels only (qutrit + bad atom is F-14)
    kinds2 = ["relaxation", "dephasing", "depolarizing", "effective", "mixed"]
    for i in range(ctx.n(8, 25)):
        nt = [3, 4, 5, 4][i % 4]
        det.append(gen_det_case(ctx.rng, kinds2[i % 5], nt, jump=(i % 3 != 0), bad=gen_bad_mask(ctx.rng, nt),
                                reorder=(i % 2 == 1)))
    for i in range(ctx.n(6, 30)):      # jump operators with non-diagonal L^dagger L, 2 and 3 levels, forced jumps
        det.append(gen_det_case(ctx.rng, "offdiag", [2, 3, 2][i % 3], jump=True, d=[2, 3][i % 2]))
    # history: runs in one process that share the drive and differ in the noise (A, B, A again): every one of them is
    # compared with its own dense reference, so a dependence on what was emulated before shows up
    for i in range(ctx.n(2, 10)):
        a = gen_det_case(ctx.rng, kinds2[i % 5], [2, 3][i % 2], jump=(i % 2 == 0))
        b = dict(a, noise_kind=kinds2[(i + 2) % 5], noise=gen_noise_spec(ctx.rng, kinds2[(i + 2) % 5], 2),
                 history="same drive as the previous scripted run, different noise")
        det += [a, b, dict(a, history="same drive and noise as two runs before")]
    for i in range(ctx.n(2, 10)):      # reordering without bad atoms
        det.append(gen_det_case(ctx.rng, kinds2[i % 5], [3, 4][i % 2], jump=True, reorder=True))
    if ctx.thorough():
        plan = [("relaxation", 2, 600), ("dephasing", 2, 600), ("depolarizing", 2, 600), ("effective", 2, 600),
                ("leakage", 2, 600), ("mixed", 3, 300), ("leakage", 3, 300), ("relaxation", 4, 300)]
    else:
        plan = [("mixed", 2, 300), ("leakage", 2, 300), ("effective", 3, 40)]
    for kind, n, M in plan:
        stat.append(gen_case(ctx.rng, kind, n, M, coarse=(M >= 600 or not ctx.thorough())))
    # statistical cases with one badly prepared atom among three (two well-prepared: cheap, exact TDVP step)
    for i in range(ctx.n(1, 2)):
        stat.append(gen_case(ctx.rng, ["mixed", "relaxation", "effective"][i], 3, ctx.n(250, 400), coarse=True,
                             bad=gen_bad_mask(ctx.rng, 3), reorder=(i == 1)))
    worst_det, njump_hist = {}, {}
    for c in det:
        r = det_case(ctx, c)
        ctx.count_case({"kind": "det", "noise": c["noise_kind"], "n": c["n"], "bad": c.get("bad"),
                        "reorder": c.get("reorder", False), "u_frac": c["u_frac"],
                        "choice": c["choice"], "result": r}, nontrivial=True)
        if r and "skipped" in r:
            njump_hist["skipped"] = njump_hist.get("skipped", 0) + 1
        elif r:
            njump_hist[r["njumps"]] = njump_hist.get(r["njumps"], 0) + 1
            for k, v in r.items():
                if k not in ("njumps", "u1", "choice"):
                    worst_det[k] = max(worst_det.get(k, 0.0), v)
    nskip = njump_hist.get("skipped", 0)
    ctx.obligation("harness:scripted runs use the probed qubit ordering", nskip * 4 <= max(1, len(det)),
                   f"{nskip} of {len(det)} scripted trajectories gave no verdict", kind="harness")
    public = [c for c in corpus_cases() if c.get("kind") == "public-run"]
    public += [gen_public_case(ctx.rng, ctx.n(300, 1000)) for _ in range(1)]
    public += [gen_public_case(ctx.rng, 12) for _ in range(ctx.n(2, 10))]     # cheap: the counting oracle
    ntests = sum(2 * c["n"] for c in stat) + sum(2 * c["n"] for c in public)
    delta = FWER / max(1, ntests)
    pub_worst = 0.0
    for c in public:
        r = public_run_case(ctx, c, delta)
        ctx.count_case({"kind": "public-run", "K": c["K"], "noise": c["noise"], "amp": c["amp"], "result": r},
                       nontrivial=True)
        if r:
            pub_worst = max(pub_worst, r.get("worst_dev_over_threshold", 0.0))
    ctx.extra["public_run_worst_deviation_over_threshold"] = pub_worst
    worst = 0.0
    for c in stat:
        w = stat_case(ctx, c, delta)
        ctx.count_case({"kind": "stat", "noise": c["noise_kind"], "n": c["n"], "d": c["d"], "M": c["M"],
                        "bad": c.get("bad"), "reorder": c.get("reorder", False),
                        "noise_spec": str(c["noise"])[:200], "worst_dev_over_threshold": w}, nontrivial=True)
        if w is not None:
            worst = max(worst, w)
    ctx.extra["statistics"] = {"tests": ntests, "per_test_error": delta, "family_wise_error": FWER,
                               "bias_allowance": BIAS, "worst_deviation_over_threshold": worst,
                               "trajectories": sum(c["M"] for c in stat)}
    ctx.extra["deterministic_worst"] = worst_det
    ctx.extra["deterministic_jump_histogram"] = {str(k): v for k, v in njump_hist.items()}


def run(ctx):
    common.coq_make(["Model/McwfOps.vo"])
    common.standard_proof_stage(ctx, "C17", ["Properties/C17.vo"])
    init_noise_stage(ctx, ctx.n(20, 200))
    jump_stage(ctx, ctx.n(16, 160))
    split_stage(ctx, ctx.n(40, 400))
    precision_stage(ctx, ctx.n(30, 200))
    falsifier_stage(ctx)
    ctx.rule = ("(a) init_lindblad_noise: 1-5 Gaussian-integer / quarter-integer 2x2 jump operators, exact. (b) "
                "do_random_quantum_jump: random MPS (2-3 sites, bond 1-2, norm 0.5-1), 1-3 random complex operators, "
                "scripted choice and threshold. (c) deterministic scripted trajectories (no jump / one forced jump) for "
                "relaxation, dephasing, depolarizing, effective, leakage (3 levels), mixed noise, 2-4 atoms, and 3-5 atoms "
                "with 1-2 badly prepared atoms (state_prep_error > 0) with and without qubit reordering, against a "
                "dense H_eff evolution of the well-prepared atoms; the norm of the state handed to the observables is "
                "probed at EVERY fill; triples of scripted runs sharing the drive and differing in the noise (history).  (c') ONE public MPSBackend(seq).run() with n_trajectories = K (real pulser "
                "sequence + NoiseModel, 2 atoms): K emulations, K + #jumps threshold draws, averaged occupations "
                "against the dense Lindblad solution. (d) statistical: trajectory averages (python random seeded from ctx.rng) of "
                "occupations at t = T/2 and T against the dense Lindblad reference; acceptance by the smaller of "
                "Bernstein's bound with variance p(1-p) and the empirical Bernstein bound (Maurer-Pontil), Bonferroni "
                "over all (case, time, atom) tests; for n = 2 a TDVP step is one exact two-site exponential (no splitting error).")
    ctx.trusted_base += ["hand-written Model/McwfOps.v (validated by the two correspondences on every run)",
                         "python's random.choices / random.uniform are faithful samplers (the choice itself is not "
                         "modelled; its arguments are)",
                         "dense references: numpy/scipy expm, brentq"]
    ctx.assumptions += ["convergence of the trajectory average is NOT proved: validated statistically, acceptance "
                        f"|mean - p| <= min(Bernstein(p(1-p)), empirical Bernstein(sample variance)) at {FWER:g}/(2*tests) "
                        f"each + {BIAS} (bias allowance for the TDVP step error and the 1 ns jump-location tolerance); "
                        "both bounds are rigorous for iid [0,1]-valued samples, no normal approximation",
                        "the Coq model of the jump ingredients covers dim = 2; the 3-level (leakage) case is covered by "
                        "the deterministic and statistical falsifiers only",
                        "theorems are over exact rings; the first-order identities say nothing about the size of the "
                        "dt^2 terms"]
    ctx.extra["not_proved"] = ["convergence of the trajectory average (law of large numbers, finite-dt error)",
                               "accuracy of the TDVP evolution under H_eff and of the jump-time root finding"]


def replay(ctx, path):
    rp = json.load(open(path))
    case = rp["case"]
    if case.get("kind") == "precision":
        print("replay worst relative error:", precision_case(ctx, case))
    elif case.get("kind") == "det":
        print("replay:", det_case(ctx, case))
    elif case.get("kind") == "public-run":
        print("replay:", public_run_case(ctx, case, FWER / (2 * case["n"])))
    elif case.get("kind") == "stat":
        print("replay worst deviation/threshold:", stat_case(ctx, case, FWER / (2 * case["n"])))


META = {
    "category": "proof",
    "technique": ("Coq proofs over an abstract ring with involution (all dimensions, all jump lists) + exact / 1e-9 "
                  "model-code correspondences with the module `random` rebound + deterministic scripted-trajectory and "
                  "statistical falsifiers"),
    "text": ("Proved for every dimension, jump list and state: lindblad_noise = -(i/2) sum L^dagger L and the aggregated "
             "operators L_k^dagger L_k; H_eff - H_eff^dagger = -i sum J^dagger J; |(1 - i H_eff dt) psi|^2 = |psi|^2 - "
             "dt sum <J^dagger J> + dt^2 |H_eff psi|^2; the average of the no-jump and jump branches equals rho + "
             "dt*Lindblad(rho) + dt^2 H_eff rho H_eff^dagger with the C16 generator, which is trace-free; jump weight = "
             "|J psi|^2; candidates and weights are both row-major (qubit, operator). Convergence of the trajectory "
             "average is validated statistically (Bernstein / empirical-Bernstein bounds, family-wise error 1e-6), not proved."),
    "note": ("Trusted: Coq kernel+VM, the hand-written model (validated on every run), python's random module, the dense "
             "references. dim = 3 (leakage) is outside the Coq model of the jump ingredients."),
}
