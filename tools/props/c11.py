"""C11 — MPS/MPO operations are faithful to their dense counterparts (DESIGN.md §4 C11).

Proof part: coq/Properties/C11.v (add_factors / scale_factors / inner / from_amplitudes in the transfer-matrix
formalism F3, for every commutative ring with involution).  Tie: the Gallina model (coq/Model/MPSAlg.v), executed
at the Gaussian integers, is compared EXACTLY with the real torch code on random Gaussian-integer tensors.
Falsifier: every public MPS/MPO operation is compared with dense linear algebra (tolerance stated per check),
and operands are checked to be unchanged.
"""
import itertools
import json
import math

from vlib import common

HEADER = """From Coq Require Import ZArith List Bool.
Import ListNotations.
From EV Require Import Model.TransferMat Model.MPSAlg.
Open Scope Z_scope."""

EXACT_LIMIT = 2.0 ** 50


# ---- encodings --------------------------------------------------------------------------------
def gi(z) -> str:
    z = complex(z)
    re, im = int(round(z.real)), int(round(z.imag))
    assert re == z.real and im == z.imag, z
    return f"({re},{im})"


def as3(t):
    """MPS factor (l,d,r) as is; MPO factor (l,o,i,r) flattened to (l,o*d+i,r)."""
    if t.ndim == 4:
        return t.reshape(t.shape[0], t.shape[1] * t.shape[2], t.shape[3])
    return t


def raw(t) -> str:
    t = as3(t)
    l, p, r = t.shape
    data = "[" + ";".join("[" + ";".join("[" + ";".join(gi(x) for x in row) + "]" for row in mat) + "]"
                          for mat in t.tolist()) + "]"
    return f"(({l}%nat,{p}%nat,{r}%nat),{data})"


def raws(ts) -> str:
    return "[" + ";".join(raw(t) for t in ts) + "]"


def chain(ts) -> str:
    return f"(map of_raw {raws(ts)})"


def natlist(b) -> str:
    return "[" + ";".join(f"{int(x)}%nat" for x in b) + "]"


# ---- dense references (torch) -------------------------------------------------------------------
def dense(factors):
    """All amplitudes of a chain of (l,p,r) tensors as a tensor of shape (p,)*N (MPO factors flattened)."""
    import torch

    cur = as3(factors[0])
    if cur.shape[0] != 1:
        raise ValueError("left boundary bond is not 1")
    cur = cur[0]
    for t in factors[1:]:
        cur = torch.tensordot(cur, as3(t), dims=1)
    if cur.shape[-1] != 1:
        raise ValueError("right boundary bond is not 1")
    return cur[..., 0]


def abs_bound(factors) -> float:
    """sum_b |amp b|_1-like bound: product of the entrywise-abs bond matrices summed over the physical index.
    All intermediate integers of any contraction of the chain are bounded by it."""
    import torch

    v = torch.ones(1, dtype=torch.float64)
    for t in factors:
        t = as3(t)
        m = (t.real.abs() + t.imag.abs()).sum(dim=1)
        v = v @ m
    return float(v.sum())


# ---- generators ---------------------------------------------------------------------------------
def rand_gi_tensor(rng, shape, density, amp=2):
    import torch

    n = math.prod(shape)
    vals = []
    for _ in range(n):
        if rng.random() < density:
            vals.append(complex(rng.randint(-amp, amp), rng.randint(-amp, amp)))
        else:
            vals.append(0j)
    return torch.tensor(vals, dtype=torch.complex128).reshape(shape)


def rand_gi_chain(rng, n, d, chimax, mpo=False, density=None):
    """random Gaussian-integer tensor train whose contractions stay exactly representable"""
    density = density if density is not None else rng.choice([1.0, 0.7, 0.4])
    while True:
        bonds = [1] + [rng.randint(1, chimax) for _ in range(n - 1)] + [1]
        ts = []
        for i in range(n):
            shape = (bonds[i], d, d, bonds[i + 1]) if mpo else (bonds[i], d, bonds[i + 1])
            ts.append(rand_gi_tensor(rng, shape, density, amp=rng.choice([1, 1, 2, 3])))
        if abs_bound(ts) < 2.0 ** 24:
            return ts
        density *= 0.7


def sample_strings(rng, dims, k):
    total = math.prod(dims)
    if total <= k:
        return [list(b) for b in itertools.product(*[range(d) for d in dims])]
    out = [[0] * len(dims), [d - 1 for d in dims]]
    while len(out) < k:
        out.append([rng.randrange(d) for d in dims])
    return out


def amp_of(D, b):
    return complex(D[tuple(b)])


def copy_factors(fs):
    return [f.clone() for f in fs]


def same_factors(a, b):
    import torch

    return len(a) == len(b) and all(x.shape == y.shape and torch.equal(x, y) for x, y in zip(a, b))


# ---- exact cases: model (Z[i]) vs real code ------------------------------------------------------
def exact_cases(ctx, n_cases):
    """Returns (cases, expressions, checkers). Each checker maps the parsed Coq value to an error string or None."""
    import torch
    from emu_mps.algebra import add_factors, scale_factors
    from emu_mps.mps import MPS
    from emu_mps.mpo import MPO

    rng = ctx.rng
    items = []

    def add_item(case, expr, expect, nontrivial=True):
        items.append((case, expr, expect, nontrivial))

    for k in range(n_cases):
        kind = rng.choice(["add", "add", "add_mpo", "scale", "scale_mpo", "inner", "inner", "from_amps", "malformed"])
        n = rng.randint(2, 8)
        d = rng.choice([2, 3])
        chimax = rng.randint(1, 6)
        case = {"kind": kind, "n": n, "d": d, "chimax": chimax, "idx": k}
        if kind in ("add", "add_mpo"):
            mpo = kind == "add_mpo"
            if mpo:
                n = rng.randint(2, 5)
                chimax = min(chimax, 4)
            A = rand_gi_chain(rng, n, d, chimax, mpo)
            B = rand_gi_chain(rng, n, d, chimax, mpo)
            A0, B0 = copy_factors(A), copy_factors(B)
            C = add_factors(A, B)
            if mpo and rng.random() < 0.5:  # the public operator: MPO.__add__ does not truncate
                C = (MPO(A, num_gpus_to_use=None) + MPO(B, num_gpus_to_use=None)).factors
                case["public"] = "MPO.__add__"
            if not (same_factors(A, A0) and same_factors(B, B0)):
                ctx.violation("add_factors modified an operand", {"case": case, "finding_key": "operand-modified"})
            dims = [as3(t).shape[1] for t in A]
            bs = sample_strings(rng, dims, 12)
            DA, DB, DC = dense(A), dense(B), dense(C)
            # property oracle on the real code, independent of the model
            if not torch.equal(DC, DA + DB):
                ctx.violation("dense(add_factors(A,B)) != dense(A)+dense(B) on Gaussian-integer tensors",
                              {"case": case, "A": [t.tolist() for t in map(_cl, A)], "B": [t.tolist() for t in map(_cl, B)],
                               "finding_key": "add-not-sum"})
            want = [amp_of(DC, b) for b in bs]
            expr = (f"let A := {chain(A)} in let B := {chain(B)} in "
                    f"(ochain_eqb (add_factors gi_ops A B) {raws(C)}, "
                    f"match add_factors gi_ops A B with Some C => amps C {_strs(bs)} | None => [] end)")
            add_item(case | {"bonds": [t.shape[-1] for t in A][:-1]}, expr,
                     (("Some", True), [("Some", (int(w.real), int(w.imag))) for w in want]))
        elif kind in ("scale", "scale_mpo"):
            mpo = kind == "scale_mpo"
            if mpo:
                n = rng.randint(2, 5)
                chimax = min(chimax, 4)
            A = rand_gi_chain(rng, n, d, chimax, mpo)
            A0 = copy_factors(A)
            c = complex(rng.randint(-3, 3), rng.randint(-3, 3))
            which = rng.randint(0, n + 1) if rng.random() < 0.2 else rng.randrange(n)
            how = rng.choice(["function", "public"])
            if how == "public" and mpo:
                C = (c * MPO(A, num_gpus_to_use=None)).factors
                which = 0
            elif how == "public":
                oc = rng.choice([None] + list(range(n)))
                m = MPS(A, orthogonality_center=oc, num_gpus_to_use=None, eigenstates=_eig(d))
                C = (c * m).factors
                which = 0 if oc is None else oc
            else:
                C = scale_factors(A, c, which=which)
            case.update(which=which, how=how, c=[c.real, c.imag])
            if not same_factors(A, A0):
                ctx.violation("scale_factors modified its operand", {"case": case, "finding_key": "operand-modified"})
            dims = [as3(t).shape[1] for t in A]
            bs = sample_strings(rng, dims, 12)
            DA, DC = dense(A), dense(C)
            exp_d = c * DA if which < n else DA
            if not torch.equal(DC, exp_d):
                ctx.violation("dense(scale_factors(A,c)) != c*dense(A)", {"case": case, "finding_key": "scale-wrong"})
            want = [amp_of(DC, b) for b in bs]
            expr = (f"let A := {chain(A)} in let C := scale_factors gi_ops A {gi(c)} {which}%nat in "
                    f"(chain_eqb C {raws(C)}, amps C {_strs(bs)})")
            add_item(case, expr, (True, [("Some", (int(w.real), int(w.imag))) for w in want]))
        elif kind == "inner":
            while True:
                A = rand_gi_chain(rng, n, d, chimax)
                B = rand_gi_chain(rng, n, d, chimax)
                if abs_bound(A) * abs_bound(B) < EXACT_LIMIT:
                    break
                n, chimax = max(2, n - 1), max(1, chimax - 1)
            case.update(n=n)
            A0, B0 = copy_factors(A), copy_factors(B)
            mA = MPS(A, num_gpus_to_use=None, eigenstates=_eig(d))
            mB = MPS(B, num_gpus_to_use=None, eigenstates=_eig(d))
            got = complex(mA.inner(mB))
            if not (same_factors(A, A0) and same_factors(B, B0)):
                ctx.violation("MPS.inner modified an operand", {"case": case, "finding_key": "operand-modified"})
            ref = complex((dense(A).conj() * dense(B)).sum())
            if got != ref:
                ctx.violation("MPS.inner != sum_b conj(amp A b) amp B b on Gaussian-integer tensors",
                              {"case": case, "got": str(got), "ref": str(ref), "finding_key": "inner-wrong"})
            expr = f"inner gi_ops {chain(A)} {chain(B)}"
            add_item(case, expr, ("Some", (int(got.real), int(got.imag))))
        elif kind == "from_amps":
            n = rng.randint(2, 6)
            nterms = rng.randint(0, 5)
            terms = []
            for _ in range(nterms):
                ks = [rng.randrange(d) for _ in range(n)]
                terms.append((ks, complex(rng.randint(-3, 3), rng.randint(-3, 3))))
            if terms and rng.random() < 0.4:
                terms.append((terms[0][0], complex(rng.randint(-3, 3), 1)))  # repeated key sums up
            bs = sample_strings(rng, [d] * n, 8) + [t[0] for t in terms]
            want = []
            for b in bs:
                w = sum((a for ks, a in terms if ks == b), 0j)
                want.append(("Some", (int(w.real), int(w.imag))))
            tl = "[" + ";".join(f"({natlist(ks)},{gi(a)})" for ks, a in terms) + "]"
            expr = (f"match from_amplitudes gi_ops {d}%nat {n}%nat {tl} with Some C => amps C {_strs(bs)} | None => [] end")
            case.update(n=n, nterms=len(terms))
            add_item(case, expr, want, nontrivial=len(terms) > 0)
            # the same accumulation through the real constructor MPS._from_state_amplitudes, with the truncation of
            # __add__ and the final normalisation rebound to no-ops (they are C10's subject), compared factor by factor
            uniq = {}
            for ks, a in terms:
                uniq[tuple(ks)] = a  # a dictionary: the last value of a repeated key wins, its position is the first
            uterms = [(list(ks), a) for ks, a in uniq.items()]
            eig = rng.choice([("r", "g"), ("g", "r"), ("0", "1")]) if d == 2 else rng.choice([("g", "r", "x"), ("x", "g", "r")])
            letter = {0: "g", 1: "r", 2: "x"} if "g" in eig else {0: "0", 1: "1"}
            amps = {"".join(letter[x] for x in ks): a for ks, a in uterms}
            keep = (MPS.truncate, MPS.norm)
            try:
                MPS.truncate = lambda self: None
                MPS.norm = lambda self: torch.tensor(1.0, dtype=torch.float64)
                real, _ = MPS._from_state_amplitudes(eigenstates=eig, n_qudits=n, amplitudes=amps)
            finally:
                MPS.truncate, MPS.norm = keep
            utl = "[" + ";".join(f"({natlist(ks)},{gi(a)})" for ks, a in uterms) + "]"
            case2 = dict(case, kind="from_amps_real", eigenstates=list(eig), nterms=len(uterms))
            add_item(case2, f"ochain_eqb (from_amplitudes gi_ops {d}%nat {n}%nat {utl}) {raws(real.factors)}", ("Some", True),
                     nontrivial=len(uterms) > 0)
        else:  # malformed: length / shape mismatches must raise exactly where the model returns None
            A = rand_gi_chain(rng, n, d, chimax)
            how = rng.choice(["length", "phys", "ok"])
            if how == "length":
                B = rand_gi_chain(rng, n + rng.choice([-1, 1]) if n > 2 else n + 1, d, chimax)
            elif how == "phys":
                B = rand_gi_chain(rng, n, 5 - d, chimax)
            else:
                B = rand_gi_chain(rng, n, d, chimax)
            try:
                C = add_factors(A, B)
                want = ("Some", True)
            except (ValueError, RuntimeError):
                C = []
                want = None
            case.update(how=how, raised=want is None)
            expr = f"ochain_eqb (add_factors gi_ops {chain(A)} {chain(B)}) {raws(C)}"
            add_item(case, expr, want, nontrivial=False)
    return items


def _cl(t):
    return t


def _strs(bs):
    return "[" + ";".join(natlist(b) for b in bs) + "]"


def _eig(d):
    return ("r", "g") if d == 2 else ("g", "r", "x")


def _norm(v):
    """normalise parsed Coq values (tuples/lists) for comparison"""
    if isinstance(v, (list, tuple)):
        return [_norm(x) for x in v]
    return v


def run_exact(ctx, n_cases):
    from vlib.coqparse import parse

    items = exact_cases(ctx, n_cases)
    ok, detail = True, ""
    hist = {}
    try:
        ev = common.CoqEval("C11", HEADER)
        for case, expr, want, nt in items:
            ev.add(expr)
        outs = ev.run(shard=40, jobs=8)
        for (case, expr, want, nt), o in zip(items, outs):
            got = parse(o)
            ctx.count_case(case, nt)
            hist[case["kind"]] = hist.get(case["kind"], 0) + 1
            if _norm(got) != _norm(want) and ok:
                ok = False
                detail = f"case={case} model={str(got)[:400]} real={str(want)[:400]}"
                ctx.extra["first_disagreement"] = {"case": case, "model": str(got)[:2000], "real": str(want)[:2000]}
    except (common.CoqEvalError, ValueError) as ex:
        ok, detail = False, str(ex)
    ctx.extra["exact_case_kinds"] = hist
    ctx.obligation("correspondence:Model.MPSAlg(Z[i])==add_factors/scale_factors/MPS.inner/from_amplitudes (exact)",
                   ok, detail, kind="correspondence")
    return ok


# ---- zip-up product (zip_right_step / zip_right, through MPO.apply_to and MPO.__matmul__) -----------------------
ZIP_HEADER = """From Coq Require Import ZArith List Bool.
Import ListNotations.
From EV Require Import Model.TransferMat Model.MPSAlg Model.Zip.
Open Scope Z_scope."""


def _gmat(m) -> str:
    return "[" + ";".join("[" + ";".join(gi(x) for x in row) + "]" for row in m.tolist()) + "]"


def _unimodular(rng, k):
    """(G, G^-1) with Gaussian-integer entries, G = U L with unitriangular factors (determinant 1)"""
    import numpy as np

    def unitri(upper):
        m = np.eye(k, dtype=np.complex128)
        for i in range(k):
            for j in range(k):
                if (j > i) == upper and i != j and rng.random() < 0.5:
                    m[i, j] = complex(rng.randint(-1, 1), rng.choice([0, 0, 1, -1]))
        return m

    u, lo = unitri(True), unitri(False)
    g = u @ lo
    ginv = np.round(np.linalg.inv(lo)) @ np.round(np.linalg.inv(u))
    ginv = np.round(ginv.real) + 1j * np.round(ginv.imag)
    if not (np.array_equal(g @ ginv, np.eye(k)) and np.array_equal(ginv @ g, np.eye(k))):
        return np.eye(k, dtype=np.complex128), np.eye(k, dtype=np.complex128)
    return g, ginv


class _ScriptedQR:
    """Rebinds torch.linalg.qr to an exact, scripted factorisation and emu_mps.algebra.truncate_impl to a no-op for the
    duration of one call, so that the real zip_right runs its own contractions / reshapes on exact data."""

    def __init__(self, kind, gauges):
        self.kind, self.gauges, self.calls, self.max_abs = kind, gauges, 0, 0.0

    def __enter__(self):
        import torch
        import emu_mps.algebra as alg

        self._qr, self._tr = torch.linalg.qr, alg.truncate_impl

        def qr(m, *a, **k):
            i = self.calls
            self.calls += 1
            self.max_abs = max(self.max_abs, float(m.abs().max()) if m.numel() else 0.0)
            rows, cols = m.shape
            if self.kind == "left_identity":
                return torch.eye(rows, dtype=m.dtype), m.clone()
            if self.kind == "gauge" and i < len(self.gauges):
                g, ginv = self.gauges[i]
                return m @ torch.tensor(g, dtype=m.dtype), torch.tensor(ginv, dtype=m.dtype)
            return m.clone(), torch.eye(cols, dtype=m.dtype)

        torch.linalg.qr = qr
        alg.truncate_impl = lambda *a, **k: None
        return self

    def __exit__(self, *exc):
        import torch
        import emu_mps.algebra as alg

        torch.linalg.qr, alg.truncate_impl = self._qr, self._tr
        return False


def zip_cases(ctx, n_cases):
    import torch
    from emu_mps.mps import MPS
    from emu_mps.mpo import MPO
    from emu_mps.algebra import zip_right

    rng = ctx.rng
    items = []
    for k in range(n_cases):
        how = rng.choice(["apply_to", "apply_to", "matmul", "matmul", "raw", "malformed"])
        d = rng.choice([2, 2, 3])
        n = rng.randint(2, 4 if d == 2 else 3)
        mpo_bottom = how == "matmul" or (how in ("raw", "malformed") and rng.random() < 0.5)
        e = d if mpo_bottom else 1
        chimax = rng.randint(1, 3)
        top = rand_gi_chain(rng, n, d, chimax, mpo=True)
        bot = rand_gi_chain(rng, n, d, chimax, mpo=mpo_bottom)
        kind = rng.choice(["identity", "left_identity", "gauge", "gauge"])
        gauges = []
        if kind == "gauge":
            for i in range(n):
                gauges.append(_unimodular(rng, top[i].shape[-1] * bot[i].shape[-1]))
        case = {"kind": "zip:" + how, "n": n, "d": d, "e": e, "oracle": kind, "idx": k,
                "bonds": [[t.shape[0] for t in top] + [1], [t.shape[0] for t in bot] + [1]]}
        if how == "malformed":
            bad = rng.choice(["length", "bond"])
            if bad == "length":
                bot = bot[:-1] if n > 2 and rng.random() < 0.5 else bot + [bot[-1].clone()]
            else:  # break one inner bond of the operand
                i = rng.randint(1, n - 1)
                extra = torch.zeros_like(bot[i][:1])
                bot[i] = torch.cat([bot[i], extra], dim=0)
            case["bad"] = bad
        want = ("Some", True)
        res = []
        with _ScriptedQR(kind, gauges) as stub:
            try:
                if how == "apply_to":
                    res = MPO([t.clone() for t in top]).apply_to(
                        MPS([t.clone() for t in bot], orthogonality_center=0, eigenstates=_eig(d))).factors
                elif how == "matmul":
                    res = (MPO([t.clone() for t in top]) @ MPO([t.clone() for t in bot])).factors
                else:
                    res = zip_right([t.clone() for t in top], [t.clone() for t in bot], 1e-5, 1024)
            except (ValueError, RuntimeError, IndexError) as ex:
                want, res = None, []
                case["raised"] = type(ex).__name__
        big = max([stub.max_abs] + [float(t.abs().max()) for t in res if t.numel()])
        if big >= EXACT_LIMIT:
            continue  # not exactly representable: outside the exact tie
        if kind == "left_identity":
            q = "qr_left_identity"
        elif kind == "gauge":
            q = "(qr_gauge [" + ";".join(f"({_gmat(g)},{_gmat(gi_)})" for g, gi_ in gauges) + "])"
        else:
            q = "(qr_gauge [])"
        expr = f"zip_eqb {d}%nat {e}%nat {q} {raws(top)} {raws(bot)} {raws(res)}"
        items.append((case, expr, want, how != "malformed"))
    return items


def run_zip(ctx, n_cases):
    from vlib.coqparse import parse

    items = zip_cases(ctx, n_cases)
    ok, detail = True, ""
    hist = {}
    try:
        ev = common.CoqEval("C11zip", ZIP_HEADER)
        for case, expr, want, nt in items:
            ev.add(expr)
        outs = ev.run(shard=25, jobs=8)
        for (case, expr, want, nt), o in zip(items, outs):
            got = parse(o)
            ctx.count_case(case, nt)
            key = case["kind"] + "/" + case["oracle"] + ("/raised" if want is None else "")
            hist[key] = hist.get(key, 0) + 1
            if _norm(got) != _norm(want) and ok:
                ok = False
                detail = f"case={case} model={str(got)[:400]} real={str(want)[:400]}"
                ctx.extra["first_zip_disagreement"] = {"case": case, "model": str(got)[:2000], "real": str(want)[:2000],
                                                       "expr": expr[:4000]}
    except (common.CoqEvalError, ValueError) as ex:
        ok, detail = False, str(ex)
    ctx.extra["zip_case_kinds"] = hist
    ctx.obligation("correspondence:Model.Zip(Z[i], scripted QR)==zip_right via MPO.apply_to/MPO.__matmul__ (exact, every factor)",
                   ok, detail, kind="correspondence")
    return ok


# ---- MPO.expect (new_left_bath swept over the chain) against Model/Bath.lbath -------------------------------------
EXPECT_HEADER = """From Coq Require Import ZArith List Bool.
Import ListNotations.
From EV Require Import Model.TransferMat Model.MPSAlg Model.Bath Proofs.ExpectProofs.
Open Scope Z_scope."""


def run_expect(ctx, n_cases):
    import torch
    from emu_mps.mps import MPS
    from emu_mps.mpo import MPO
    from vlib.coqparse import parse

    rng = ctx.rng
    items = []
    for k in range(n_cases):
        d = rng.choice([2, 2, 3])
        n = rng.randint(2, 4 if d == 2 else 3)
        psi = rand_gi_chain(rng, n, d, 2, density=rng.choice([1.0, 0.8]))
        op = rand_gi_chain(rng, n, d, 2, mpo=True, density=rng.choice([1.0, 0.7]))
        got = MPO([t.clone() for t in op]).expect(MPS([t.clone() for t in psi], orthogonality_center=0, eigenstates=_eig(d)))
        z = complex(got)
        if abs(z) >= EXACT_LIMIT or abs_bound(psi) ** 2 * abs_bound(op) >= EXACT_LIMIT:
            continue
        case = {"kind": "expect_exact", "n": n, "d": d, "idx": k,
                "bonds": [[t.shape[0] for t in psi] + [1], [t.shape[0] for t in op] + [1]]}
        items.append((case, f"expect_gi {d}%nat {raws(psi)} {raws(op)}", [int(round(z.real)), int(round(z.imag))], z))
    ok, detail = True, ""
    try:
        ev = common.CoqEval("C11exp", EXPECT_HEADER)
        for case, expr, want, z in items:
            ev.add(expr)
        outs = ev.run(shard=20, jobs=8)
        for (case, expr, want, z), o in zip(items, outs):
            got = parse(o)
            ctx.count_case(case, True)
            if _norm(got) != _norm(want) or z.real != want[0] or z.imag != want[1]:
                if ok:
                    ok = False
                    detail = f"case={case} model={str(got)[:200]} real={z!r}"
                    ctx.extra["first_expect_disagreement"] = {"case": case, "model": str(got)[:500], "real": repr(z),
                                                              "expr": expr[:4000]}
    except (common.CoqEvalError, ValueError) as ex:
        ok, detail = False, str(ex)
    ctx.extra["expect_exact_cases"] = len(items)
    ctx.obligation("correspondence:Model.Bath.lbath(Z[i]) at (0,0,0)==MPO.expect (exact)", ok, detail, kind="correspondence")
    return ok


# ---- falsifier: every public operation against dense linear algebra (floating point, tolerances stated) ----
def rand_c_mps(rng, n, d, chimax, tgen, normalise=True):
    import torch

    bonds = [1] + [rng.randint(1, chimax) for _ in range(n - 1)] + [1]
    fs = [torch.randn(bonds[i], d, bonds[i + 1], dtype=torch.complex128, generator=tgen) for i in range(n)]
    if normalise:
        fs[rng.randrange(n)] /= dense(fs).norm()
    return fs


def rand_c_mpo(rng, n, d, wmax, tgen):
    import torch

    bonds = [1] + [rng.randint(1, wmax) for _ in range(n - 1)] + [1]
    fs = [torch.randn(bonds[i], d, d, bonds[i + 1], dtype=torch.complex128, generator=tgen) for i in range(n)]
    fs[0] /= dense(fs).norm() / math.sqrt(d ** n)
    return fs


def dense_op(mpo_f, n, d):
    """dense matrix (d^n x d^n) of an MPO"""
    el = dense(mpo_f).reshape([d, d] * n)
    return el.permute(list(range(0, 2 * n, 2)) + list(range(1, 2 * n, 2))).reshape(d ** n, d ** n)


def site_op(psi, g, q):
    """apply the single-site matrix g to axis q of the dense state"""
    import torch

    return torch.movedim(torch.tensordot(g, psi, dims=([1], [q])), 0, q)


def public_case(ctx, rng, tgen, idx):
    import torch
    from emu_mps.mps import MPS
    from emu_mps.mpo import MPO

    kind = rng.choice(["add", "scale", "inner_norm_overlap", "expect_batch", "correlation", "apply", "entropy",
                       "apply_to", "matmul", "expect", "from_amplitudes", "from_operator_repr"])
    n = rng.randint(2, 8)
    d = rng.choice([2, 3])
    chimax = rng.choice([1, 2, 4, 8, 16])
    precision = 10 ** rng.uniform(-10, -3)
    case = {"kind": "public:" + kind, "n": n, "d": d, "chimax": chimax, "precision": precision, "idx": idx}
    fs = rand_c_mps(rng, n, d, chimax, tgen)
    oc = None
    m = MPS(copy_factors(fs), precision=precision, num_gpus_to_use=None, eigenstates=_eig(d), orthogonality_center=oc)
    if rng.random() < 0.5:
        m.orthogonalize(rng.randrange(n))
    psi = dense(m.factors)
    before = copy_factors(m.factors)
    bad = []

    def close(got, ref, tol, what):
        err = float((torch.as_tensor(got) - torch.as_tensor(ref)).abs().max())
        if not err <= tol:
            bad.append(f"{what}: |got-ref|={err:.3e} > {tol:.3e}")

    def unchanged(mm, ref_psi, what, exact_ref=None):
        if exact_ref is not None and not same_factors(mm.factors, exact_ref):
            bad.append(f"{what}: operand factors were modified")
        e = float((dense(mm.factors) - ref_psi).norm())
        if e > 1e-9 * max(1.0, float(ref_psi.norm())):
            bad.append(f"{what}: represented state of the operand moved by {e:.3e}")

    trunc_tol = lambda nn, p, scale=1.0: math.sqrt(nn - 1) * p * (1 + 1e-6) + 1e-9 * scale
    if kind == "add":
        gs = rand_c_mps(rng, n, d, rng.choice([1, 2, 4, 8]), tgen)
        o = MPS(copy_factors(gs), num_gpus_to_use=None, eigenstates=_eig(d))
        r = m + o
        e = float((dense(r.factors) - (psi + dense(gs))).norm())
        if e > trunc_tol(n, precision, 2.0):
            bad.append(f"__add__: |dense(a+b) - (dense a + dense b)| = {e:.3e} > sqrt(N-1)*precision")
        unchanged(m, psi, "__add__ left", before)
        unchanged(o, dense(gs), "__add__ right", gs)
    elif kind == "scale":
        c = complex(rng.uniform(-2, 2), rng.uniform(-2, 2))
        r = c * m
        close(dense(r.factors), c * psi, 1e-12 * 4, "__rmul__")
        unchanged(m, psi, "__rmul__", before)
    elif kind == "inner_norm_overlap":
        gs = rand_c_mps(rng, n, d, rng.choice([1, 2, 4, 8]), tgen)
        o = MPS(copy_factors(gs), num_gpus_to_use=None, eigenstates=_eig(d))
        ref = (psi.conj() * dense(gs)).sum()
        close(m.inner(o), ref, 1e-10, "inner")
        close(m.overlap(o), abs(ref) ** 2, 1e-10, "overlap")
        unchanged(m, psi, "inner", before)
        unchanged(o, dense(gs), "inner right", gs)
        close(m.norm(), psi.norm(), 1e-10, "norm")
        unchanged(m, psi, "norm")
    elif kind == "expect_batch":
        ops = torch.randn(3, d, d, dtype=torch.complex128, generator=tgen)
        got = m.expect_batch(ops)
        ref = torch.zeros(n, 3, dtype=torch.complex128)
        for q in range(n):
            for i in range(3):
                ref[q, i] = (psi.conj() * site_op(psi, ops[i], q)).sum()
        close(got, ref, 1e-9 * float(ops.abs().max()) * 4, "expect_batch")
        unchanged(m, psi, "expect_batch")
    elif kind == "correlation":
        # operator: default n = |1><1| or a random rank-one projector (Hermitian, idempotent: <O_i O_i> = <O_i>)
        if rng.random() < 0.5:
            op, opm = None, m.n_operator
        else:
            v = torch.randn(d, dtype=torch.complex128, generator=tgen)
            v /= v.norm()
            op = opm = torch.outer(v, v.conj())
            case["complex_operator"] = True
        got = m.get_correlation_matrix(op) if op is not None else m.get_correlation_matrix()
        ref = torch.zeros(n, n, dtype=torch.complex128)
        for i in range(n):
            oi = site_op(psi, opm, i)
            for j in range(n):
                ref[i, j] = (psi.conj() * (site_op(oi, opm, j))).sum().real
        close(got, ref, 1e-9, "get_correlation_matrix")
        unchanged(m, psi, "get_correlation_matrix")
    elif kind == "apply":
        g = torch.randn(d, d, dtype=torch.complex128, generator=tgen)
        q = rng.randrange(n)
        m.apply(q, g)
        close(dense(m.factors), site_op(psi, g, q), 1e-9 * float(g.abs().max()) * 4, "apply")
        if m.orthogonality_center != q:
            bad.append("apply: orthogonality centre is not the target qubit")
    elif kind == "entropy":
        site = rng.randrange(n)
        got = float(m.entanglement_entropy(site))
        sv = torch.linalg.svdvals(psi.reshape(d ** (site + 1), -1))
        ref = float(torch.special.entr(sv ** 2).sum())
        if abs(got - ref) > 1e-8:
            bad.append(f"entanglement_entropy({site}) = {got} but the dense bipartition gives {ref}")
        unchanged(m, psi, "entanglement_entropy")
    elif kind in ("apply_to", "expect"):
        n = min(n, 6)
        if n != case["n"]:
            case["n"] = n
            fs = rand_c_mps(rng, n, d, chimax, tgen)
            m = MPS(copy_factors(fs), precision=precision, num_gpus_to_use=None, eigenstates=_eig(d))
            psi = dense(m.factors)
            before = copy_factors(m.factors)
        wf = rand_c_mpo(rng, n, d, rng.choice([1, 2, 3, 4]), tgen)
        w0 = copy_factors(wf)
        W = dense_op(wf, n, d)
        mpo = MPO(wf)
        if kind == "apply_to":
            r = mpo.apply_to(m)
            e = float((dense(r.factors).reshape(-1) - W @ psi.reshape(-1)).norm())
            if e > trunc_tol(n, precision, float(W.norm())):
                bad.append(f"apply_to: |dense(O psi) - O dense(psi)| = {e:.3e} > sqrt(N-1)*precision")
        else:
            ref = (psi.reshape(-1).conj() * (W @ psi.reshape(-1))).sum()
            close(mpo.expect(m), ref, 1e-9 * max(1.0, float(W.norm())), "expect")
        unchanged(m, psi, kind, before)
        if not same_factors(mpo.factors, w0):
            bad.append(f"{kind}: MPO factors were modified")
    elif kind == "matmul":
        n = rng.randint(2, 4)
        case["n"] = n
        af, bf = rand_c_mpo(rng, n, d, rng.choice([1, 2, 3]), tgen), rand_c_mpo(rng, n, d, rng.choice([1, 2, 3]), tgen)
        a0, b0 = copy_factors(af), copy_factors(bf)
        A, B = MPO(af), MPO(bf)
        r = A @ B
        e = float((dense_op(r.factors, n, d) - dense_op(a0, n, d) @ dense_op(b0, n, d)).norm())
        if e > math.sqrt(n - 1) * 1e-5 * (1 + 1e-6) + 1e-9 * d ** n:
            bad.append(f"__matmul__: Frobenius error {e:.3e} > sqrt(N-1)*DEFAULT_PRECISION")
        if not (same_factors(A.factors, a0) and same_factors(B.factors, b0)):
            bad.append("__matmul__: operand factors were modified")
    elif kind == "from_amplitudes":
        n = rng.randint(2, 7)
        case["n"] = n
        basis = rng.choice([("r", "g"), ("0", "1"), ("g", "r", "x"), ("g", "r"), ("r", "g", "x")])
        idx_of = {"g": 0, "0": 0, "r": 1, "1": 1, "x": 2}
        amps = {}
        for _ in range(rng.randint(1, 6)):
            key = "".join(rng.choice(basis) for _ in range(n))
            amps[key] = complex(rng.uniform(-1, 1), rng.uniform(-1, 1))
        case["basis"] = list(basis)
        case["amplitudes"] = {k: [v.real, v.imag] for k, v in amps.items()}
        dd = len(basis)
        ref = torch.zeros([dd] * n, dtype=torch.complex128)
        for key, a in amps.items():
            ref[tuple(idx_of[ch] for ch in key)] += a
        ref = ref / ref.norm()
        st = MPS.from_state_amplitudes(eigenstates=basis, amplitudes=dict(amps))
        e = float((dense(st.factors) - ref).norm())
        if e > trunc_tol(n, 1e-5) * max(1, len(amps)):
            bad.append(f"from_state_amplitudes: dense state differs from the normalised dictionary by {e:.3e}")
        if amps != {k: complex(*v) for k, v in case["amplitudes"].items()}:
            bad.append("from_state_amplitudes modified its argument")
    elif kind == "from_operator_repr":
        n = rng.randint(2, 5)
        case["n"] = n
        basis = rng.choice([("r", "g"), ("0", "1"), ("g", "r", "x")])
        idx_of = {"g": 0, "0": 0, "r": 1, "1": 1, "x": 2}
        dd = len(basis)
        operations = []
        ref = torch.zeros(dd ** n, dd ** n, dtype=torch.complex128)
        for _ in range(rng.randint(1, 4)):
            coeff = complex(rng.uniform(-1, 1), rng.uniform(-1, 1))
            qubits = list(range(n))
            rng.shuffle(qubits)
            tensorop, per_site = [], [torch.eye(dd, dtype=torch.complex128) for _ in range(n)]
            for _ in range(rng.randint(0, 3)):
                if not qubits:
                    break
                targets = {qubits.pop() for _ in range(min(len(qubits), rng.randint(1, 2)))}
                qop, mat = {}, torch.zeros(dd, dd, dtype=torch.complex128)
                for _ in range(rng.randint(1, 3)):
                    a, b = rng.choice(basis), rng.choice(basis)
                    c = complex(rng.uniform(-1, 1), rng.uniform(-1, 1))
                    if a + b in qop:
                        continue
                    qop[a + b] = c
                    mat[idx_of[a], idx_of[b]] += c
                tensorop.append((qop, targets))
                for t in targets:
                    per_site[t] = mat
            operations.append((coeff, tensorop))
            term = per_site[0]
            for t in per_site[1:]:
                term = torch.kron(term, t)
            ref += coeff * term
        case["operations"] = str(operations)
        op = MPO.from_operator_repr(eigenstates=basis, n_qudits=n, operations=operations)
        close(dense_op(op.factors, n, dd), ref, 1e-12 * 16, "from_operator_repr")
    return case, bad


def correlation_witness(ctx, w):
    """corpus witness: product state, operator = projector on it; every correlation must be 1"""
    import torch
    from emu_mps.mps import MPS

    fs = [torch.tensor(t, dtype=torch.float64) for t in w["factors"]]
    fs = [torch.complex(t[..., 0], t[..., 1]) for t in fs]
    op = torch.tensor(w["operator"], dtype=torch.float64)
    op = torch.complex(op[..., 0], op[..., 1])
    m = MPS(fs, num_gpus_to_use=None, eigenstates=tuple(w["eigenstates"]))
    psi = dense(m.factors)
    n = len(fs)
    got = m.get_correlation_matrix(op)
    ref = torch.zeros(n, n, dtype=torch.complex128)
    for i in range(n):
        for j in range(n):
            ref[i, j] = (psi.conj() * site_op(site_op(psi, op, i), op, j)).sum().real
    err = float((got - ref).abs().max())
    ctx.count_case({"kind": "corpus:correlation", "name": w.get("name")}, True)
    if err > 1e-9:
        ctx.violation(f"get_correlation_matrix(operator) returns the correlations of operator^T, not of operator: "
                      f"|got - <psi|O_i O_j|psi>| = {err:.3e} (Hermitian projector, witness {w.get('name')})",
                      {"case": w, "got": got.real.tolist(), "expected": ref.real.tolist(),
                       "finding_key": "correlation-operator-transposed"})


def run_public(ctx, n_cases):
    import torch

    for w in corpus_cases():
        if w.get("kind") == "correlation_witness":
            correlation_witness(ctx, w)

    tgen = torch.Generator().manual_seed(ctx.rng.randrange(2 ** 31))
    hist = {}
    for i in range(n_cases):
        case, bad = public_case(ctx, ctx.rng, tgen, i)
        hist[case["kind"]] = hist.get(case["kind"], 0) + 1
        ctx.count_case(case, True)
        if bad:
            key = case["kind"]
            if key == "public:correlation" and case.get("complex_operator"):
                key = "correlation-operator-transposed"   # same defect as the corpus witness
            ctx.violation("; ".join(bad)[:600], {"case": case, "finding_key": key})
    ctx.extra["public_case_kinds"] = hist


# ---- precision stream: generic (non-dyadic) complex128 data against a numpy complex128 reference ----------------
RING_TOL = 1e-12      # ring-only operations: observed error ~1e-15 * size; complex64 round trips give ~1e-7
QR_TOL = 1e-10        # operations that run QR / eigh (precision 1e-14, or well-conditioned data at the default)


def np_dense(factors):
    """numpy complex128 dense contraction of a chain (MPO factors flattened)"""
    import numpy as np

    fs = [as3(t).detach().cpu().numpy().astype(np.complex128) for t in factors]
    cur = fs[0][0]
    for t in fs[1:]:
        cur = np.tensordot(cur, t, axes=1)
    return cur[..., 0]


def np_op(mpo_f, n, d):
    el = np_dense(mpo_f).reshape([d, d] * n)
    return el.transpose(list(range(0, 2 * n, 2)) + list(range(1, 2 * n, 2))).reshape(d ** n, d ** n)


def np_site(psi, g, q):
    import numpy as np

    return np.moveaxis(np.tensordot(g, psi, axes=([1], [q])), 0, q)


def well_conditioned(vec_or_mat_dense, dims_left_list, floor=1e-3):
    """every bipartition has no singular value in (1e-12, floor) relative to the largest: truncation at 1e-5 is lossless"""
    import numpy as np

    for dl_ in dims_left_list:
        sv = np.linalg.svd(vec_or_mat_dense.reshape(dl_, -1), compute_uv=False)
        rel = sv / sv[0]
        if ((rel > 1e-12) & (rel < floor)).any():
            return False
    return True


def precision_case(ctx, rng, tgen, idx):
    import numpy as np
    import torch
    from emu_mps.algebra import add_factors, scale_factors
    from emu_mps.mps import MPS
    from emu_mps.mpo import MPO

    kind = rng.choice(["add_factors", "scale_factors", "mps_add", "mps_rmul", "inner_overlap", "mpo_add_rmul", "mpo_matmul",
                       "apply_to", "expect", "from_operator_repr", "from_state_amplitudes", "expect_batch", "correlation"])
    n = rng.randint(2, 6)
    d = rng.choice([2, 3])
    chi = rng.choice([1, 2, 3, 4, 6])
    case = {"kind": "precision:" + kind, "n": n, "d": d, "chi": chi, "idx": idx}
    bad = []
    c128 = torch.complex128

    def close(got, ref, tol, scale, what):
        got = np.asarray(got.detach().cpu().numpy() if hasattr(got, "detach") else got)
        err = float(np.max(np.abs(got - ref))) if got.size else 0.0
        if not err <= tol * scale:
            bad.append(f"{what}: |got - numpy reference| = {err:.3e} > {tol:.0e} * data scale {scale:.3e}")

    def dtypes(factors, what):
        wrong = sorted({str(f.dtype) for f in factors if f.dtype != c128})
        if wrong:
            bad.append(f"{what}: result factors have dtype {wrong}, expected complex128")

    def scalar_dtype(x, what, allowed=(torch.complex128, torch.float64)):
        if hasattr(x, "dtype") and x.dtype not in allowed:
            bad.append(f"{what}: result dtype {x.dtype}")

    A = rand_c_mps(rng, n, d, chi, tgen)
    B = rand_c_mps(rng, n, d, rng.choice([1, 2, 3, 4]), tgen)
    nA, nB = np_dense(A), np_dense(B)
    sA, sB = float(np.linalg.norm(nA)), float(np.linalg.norm(nB))
    mk = lambda fs, **kw: MPS(copy_factors(fs), num_gpus_to_use=None, eigenstates=_eig(d), **kw)
    if kind == "add_factors":
        C = add_factors(copy_factors(A), copy_factors(B))
        close(dense(C), nA + nB, RING_TOL, sA + sB, "add_factors")
        dtypes(C, "add_factors")
    elif kind == "scale_factors":
        c = complex(rng.uniform(-2, 2), rng.uniform(-2, 2))
        C = scale_factors(copy_factors(A), c, which=rng.randrange(n))
        close(dense(C), c * nA, RING_TOL, abs(c) * sA + 1e-300, "scale_factors")
        dtypes(C, "scale_factors")
    elif kind == "mps_add":
        r = mk(A, precision=1e-14) + mk(B, precision=1e-14)
        close(dense(r.factors), nA + nB, QR_TOL, sA + sB, "MPS.__add__ (precision 1e-14)")
        dtypes(r.factors, "MPS.__add__")
    elif kind == "mps_rmul":
        c = complex(rng.uniform(-2, 2), rng.uniform(-2, 2))
        r = c * mk(A)
        close(dense(r.factors), c * nA, RING_TOL, abs(c) * sA + 1e-300, "MPS.__rmul__")
        dtypes(r.factors, "MPS.__rmul__")
    elif kind == "inner_overlap":
        ma, mb = mk(A), mk(B)
        ref = np.vdot(nA.reshape(-1), nB.reshape(-1))
        got = ma.inner(mb)
        close(got, ref, RING_TOL, sA * sB, "MPS.inner")
        scalar_dtype(got, "MPS.inner")
        close(ma.overlap(mb), abs(ref) ** 2, RING_TOL, (sA * sB) ** 2, "MPS.overlap")
        close(ma.norm(), sA, QR_TOL, sA, "MPS.norm")
    elif kind in ("mpo_add_rmul", "mpo_matmul", "apply_to", "expect"):
        n = min(n, 4)
        case["n"] = n
        A = rand_c_mps(rng, n, d, chi, tgen)
        nA = np_dense(A)
        sA = float(np.linalg.norm(nA))
        W1 = rand_c_mpo(rng, n, d, rng.choice([1, 2, 3]), tgen)
        W2 = rand_c_mpo(rng, n, d, rng.choice([1, 2, 3]), tgen)
        O1, O2 = np_op(W1, n, d), np_op(W2, n, d)
        s1, s2 = float(np.linalg.norm(O1)), float(np.linalg.norm(O2))
        if kind == "mpo_add_rmul":
            c = complex(rng.uniform(-2, 2), rng.uniform(-2, 2))
            r = MPO(copy_factors(W1)) + c * MPO(copy_factors(W2))
            close(dense_op(r.factors, n, d), O1 + c * O2, RING_TOL, s1 + abs(c) * s2, "MPO.__add__/__rmul__")
            dtypes(r.factors, "MPO.__add__/__rmul__")
        elif kind == "mpo_matmul":
            ref = O1 @ O2
            el = ref.reshape([d] * (2 * n)).transpose([x for q in range(n) for x in (q, n + q)])   # (o0,i0,o1,i1,...)
            if not well_conditioned(el, [(d * d) ** k for k in range(1, n)]):
                case["skipped"] = "ill-conditioned for the fixed 1e-5 truncation of __matmul__"
                return case, bad
            r = MPO(copy_factors(W1)) @ MPO(copy_factors(W2))
            close(dense_op(r.factors, n, d), ref, QR_TOL, float(np.linalg.norm(ref)), "MPO.__matmul__")
            dtypes(r.factors, "MPO.__matmul__")
        elif kind == "apply_to":
            r = MPO(copy_factors(W1)).apply_to(mk(A, precision=1e-14))
            ref = (O1 @ nA.reshape(-1)).reshape(nA.shape)
            close(dense(r.factors), ref, QR_TOL, s1 * sA, "MPO.apply_to (precision 1e-14)")
            dtypes(r.factors, "MPO.apply_to")
        else:
            got = MPO(copy_factors(W1)).expect(mk(A))
            close(got, np.vdot(nA.reshape(-1), O1 @ nA.reshape(-1)), RING_TOL, s1 * sA * sA, "MPO.expect")
            scalar_dtype(got, "MPO.expect")
    elif kind == "expect_batch":
        ops = torch.randn(3, d, d, dtype=c128, generator=tgen)
        got = mk(A).expect_batch(ops)
        ref = np.zeros((n, 3), dtype=np.complex128)
        for q in range(n):
            for i in range(3):
                ref[q, i] = np.vdot(nA.reshape(-1), np_site(nA, ops[i].numpy(), q).reshape(-1))
        close(got, ref, QR_TOL, sA * sA * float(ops.abs().max()) * d, "expect_batch")
        scalar_dtype(got, "expect_batch")
    elif kind == "correlation":
        v = torch.randn(d, dtype=c128, generator=tgen)
        v /= v.norm()
        P = torch.outer(v, v.conj())
        got = mk(A).get_correlation_matrix(P)
        ref = np.zeros((n, n), dtype=np.complex128)
        for i in range(n):
            for j in range(n):
                ref[i, j] = np.vdot(nA.reshape(-1), np_site(np_site(nA, P.numpy(), j), P.numpy(), i).reshape(-1)).real
        close(got, ref, QR_TOL, sA * sA, "get_correlation_matrix")
    elif kind == "from_operator_repr":
        basis = rng.choice([("r", "g"), ("0", "1"), ("g", "r", "x")])
        idx_of = {"g": 0, "0": 0, "r": 1, "1": 1, "x": 2}
        dd = len(basis)
        n = rng.randint(2, 4)
        case["n"] = n
        operations, ref = [], np.zeros((dd ** n, dd ** n), dtype=np.complex128)
        for _ in range(rng.randint(1, 4)):
            coeff = complex(rng.uniform(-1, 1), rng.uniform(-1, 1))
            qubits = list(range(n))
            rng.shuffle(qubits)
            tensorop, per_site = [], [np.eye(dd, dtype=np.complex128) for _ in range(n)]
            for _ in range(rng.randint(0, 3)):
                if not qubits:
                    break
                targets = {qubits.pop() for _ in range(min(len(qubits), rng.randint(1, 2)))}
                qop, mat = {}, np.zeros((dd, dd), dtype=np.complex128)
                for _ in range(rng.randint(1, 3)):
                    a_, b_ = rng.choice(basis), rng.choice(basis)
                    if a_ + b_ in qop:
                        continue
                    qop[a_ + b_] = complex(rng.uniform(-1, 1), rng.uniform(-1, 1))
                    mat[idx_of[a_], idx_of[b_]] += qop[a_ + b_]
                tensorop.append((qop, targets))
                for t in targets:
                    per_site[t] = mat
            operations.append((coeff, tensorop))
            term = per_site[0]
            for t in per_site[1:]:
                term = np.kron(term, t)
            ref += coeff * term
        case["operations"] = str(operations)
        op = MPO.from_operator_repr(eigenstates=basis, n_qudits=n, operations=operations)
        close(dense_op(op.factors, n, dd), ref, RING_TOL, max(1.0, float(np.linalg.norm(ref))), "from_operator_repr")
        dtypes(op.factors, "from_operator_repr")
    elif kind == "from_state_amplitudes":
        basis = rng.choice([("r", "g"), ("0", "1"), ("g", "r", "x")])
        idx_of = {"g": 0, "0": 0, "r": 1, "1": 1, "x": 2}
        dd = len(basis)
        n = rng.randint(2, 5)
        case["n"] = n
        amps = {}
        for _ in range(rng.randint(1, 4)):
            key = "".join(rng.choice(basis) for _ in range(n))
            amps[key] = complex(rng.uniform(0.3, 1) * rng.choice([-1, 1]), rng.uniform(0.3, 1) * rng.choice([-1, 1]))
        case["amplitudes"] = {k_: [v_.real, v_.imag] for k_, v_ in amps.items()}
        ref = np.zeros([dd] * n, dtype=np.complex128)
        for key, a_ in amps.items():
            ref[tuple(idx_of[ch] for ch in key)] += a_
        ref /= np.linalg.norm(ref)
        if not well_conditioned(ref, [dd ** k_ for k_ in range(1, n)]):
            case["skipped"] = "ill-conditioned for the default 1e-5 truncation"
            return case, bad
        st = MPS.from_state_amplitudes(eigenstates=basis, amplitudes=dict(amps))
        close(dense(st.factors), ref, QR_TOL, 1.0, "from_state_amplitudes")
        dtypes(st.factors, "from_state_amplitudes")
    return case, bad


def run_precision(ctx, n_cases):
    import torch

    tgen = torch.Generator().manual_seed(ctx.rng.randrange(2 ** 31))
    hist = {}
    for i in range(n_cases):
        case, bad = precision_case(ctx, ctx.rng, tgen, i)
        hist[case["kind"]] = hist.get(case["kind"], 0) + 1
        ctx.count_case(case, "skipped" not in case)
        if bad:
            ctx.violation("; ".join(bad)[:600], {"case": case, "finding_key": "mps-op-lost-precision"})
    ctx.extra["precision_case_kinds"] = hist


def corpus_cases():
    p = common.VERIF / "corpus" / "C11.json"
    return json.loads(p.read_text()) if p.exists() else []


def run(ctx):
    import torch

    torch.set_num_threads(1)
    model_rc, model_out = common.coq_make(["Model/MPSAlg.vo", "Model/Zip.vo", "Proofs/ExpectProofs.vo", "Proofs/FromAmpsProofs.vo"])
    ctx.obligation("build:Model/MPSAlg.vo Model/Zip.vo", model_rc == 0, model_out, kind="build")
    common.standard_proof_stage(ctx, "C11", ["Properties/C11.vo"])
    if model_rc == 0:
        run_exact(ctx, ctx.n(120, 1500))
        run_zip(ctx, ctx.n(60, 600))
        run_expect(ctx, ctx.n(30, 300))
    run_public(ctx, ctx.n(150, 3000))
    run_precision(ctx, ctx.n(200, 3000))
    ctx.rule = ("exact stream: random Gaussian-integer tensor trains (2-8 sites, bonds 1-6, d in {2,3}, MPO factors "
                "flattened), entries bounded so every contraction is exact in binary64, plus malformed shapes; "
                "falsifier stream: 12 public operations on random complex MPS/MPO (2-8 sites, bonds <= 16, d in {2,3}, "
                "precision 1e-10..1e-3, all three bases for the constructors); corpus witnesses first; non-trivial unless "
                "malformed-shape or empty dictionary; distinct by input hash")
    ctx.trusted_base += ["hand models coq/Model/MPSAlg.v + Model/Zip.v + Model/TransferMat.v (validated by the exact correspondences of this run)",
                         "zip tie: torch.linalg.qr and emu_mps.algebra.truncate_impl are rebound by the harness (scripted exact QR, no truncation); "
                         "that LAPACK's QR satisfies L R = M up to rounding is the oracle premise of C11_zip_contract, validated by the dense falsifier",
                         "torch dense contractions (tensordot / kron / svdvals) as independent reference of the falsifier",
                         "MPO factors are compared after reshape (l,o,i,r)->(l,o*d+i,r)"]
    ctx.assumptions += [
        "theorems are algebraic (any commutative ring with involution); rounding, QR and truncation are outside them and are "
        "validated against dense linear algebra: |error| <= sqrt(N-1)*precision (+1e-9 relative) after truncating operations",
        "from_amplitudes (accumulation without truncation/normalisation) is compared factor by factor with the real "
        "MPS._from_state_amplitudes run with MPS.truncate / MPS.norm rebound to no-ops (truncation is C10's subject); the "
        "unmodified constructor is validated by the dense falsifier",
        "precision stream: generic complex128 data against a numpy complex128 reference at 1e-12 (ring-only operations) / "
        "1e-10 (operations running QR/eigh, with precision 1e-14 or data whose Schmidt values are all > 1e-3 where the "
        "truncation threshold is fixed at 1e-5) relative to the data scale, plus a dtype oracle (complex128 factors)",
        "get_correlation_matrix is checked with Hermitian idempotent operators only (the diagonal is <O_i>, not <O_i O_i>)",
    ]
    ctx.notes.append("observation (not a violation of the check): get_correlation_matrix returns <O_i> on the diagonal where the "
                     "docstring formula says <O_i O_i>; they differ for non-idempotent operators such as sigma_z")


def replay(ctx, path):
    import torch

    torch.set_num_threads(1)
    rp = json.loads(open(path).read())
    print("replay:", rp.get("what"))
    case = rp.get("case", {})
    if case.get("kind") == "correlation_witness":
        correlation_witness(ctx, case)
        return
    # random cases are regenerated from the seeded stream: rerun the same tier
    run(ctx)


META = {
    "category": "proof",
    "technique": "Coq proof (transfer-matrix model over any commutative ring with involution) + exact Gaussian-integer correspondence + dense falsifier",
    "text": ("Proved for every number of sites >= 2, all bond dimensions, every index string, over every commutative ring: "
             "add_factors represents the sum (MPS amplitudes and MPO elements), scale_factors multiplies every amplitude by c "
             "whichever site carries it, MPS.inner equals sum_b conj(amp A b)*amp B b; and for every number of sites >= 1, every "
             "physical dimension and EVERY QR oracle that factorises (L R = M, any inner dimension): the zip-up product zip_right "
             "(what MPO.apply_to and MPO.__matmul__ run before the truncation sweep of C10) has the amplitudes of the dense product, "
             "(O psi)(o) = sum_m O(o,m) psi(m) and (O1 O2)(o,j) = sum_m O1(o,m) O2(m,j) (C11_zip_contract; gauge invariance through "
             "the slider by induction over the sites, then the fat chain as a sum over contracted strings). The Gallina model is "
             "executed at Z[i] and compared exactly with add_factors / scale_factors / MPS.__rmul__ / MPO.__add__ / MPO.__rmul__ / "
             "MPS.inner on Gaussian-integer tensors (full result tensors and sampled amplitudes), including which shape errors raise; "
             "Model/Zip.v is compared factor by factor with the real zip_right driven through MPO.apply_to / MPO.__matmul__ / directly, "
             "with torch.linalg.qr rebound to the same scripted exact factorisation (L=M,R=I / L=I,R=M / L=M G,R=G^-1 for random "
             "unimodular Gaussian-integer G per site) and truncate_impl rebound to a no-op, including which length / bond mismatches raise. "
             "MPO.expect is proved to be the dense expectation value sum_ij conj(amp i) O(i,j) amp j for every chain, no canonical form "
             "assumed (C11_expect_spec: bath adjointness of C02 + the right environment as a double sum over index strings); the left-bath "
             "model is compared exactly with the real MPO.expect on Gaussian-integer chains. The accumulation loop of "
             "MPS._from_state_amplitudes represents the dictionary (C11_from_amplitudes_spec: amplitude at b = sum of the entries whose "
             "string is b, every n >= 2, every d) and is compared factor by factor with the real constructor (truncation/normalisation rebound). "
             "Composition: MPS.inner(psi, MPO.apply_to(psi)) with any factorising QR oracle equals MPO.expect(psi) (C11_inner_apply_is_expect). "
             "Validated only (dense linear algebra, stated tolerances): truncation after + / apply_to / @, norm, overlap, "
             "expect, expect_batch, get_correlation_matrix, apply, entanglement_entropy, from_state_amplitudes, "
             "from_operator_repr, and operand invariance of every non-in-place operation. Not proved: from_operator_repr_spec; that torch's QR factorises (oracle premise)."),
    "note": ("Trusted: Coq kernel+VM, the hand model (tied by the exact correspondence on every run), torch dense references. "
             "Theorems are exact-arithmetic statements; floating-point effects are covered only by the tolerance-based falsifier."),
}
