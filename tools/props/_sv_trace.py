"""Trace harness for the emu-sv step loop (C01; reused by C34 for the dark-qubit zeroing).

Runs the REAL SVBackendImpl on a hand-built SequenceData with the module-level names
`EvolveStateVector` / `EvolveDensityMatrix` of emu_sv.sv_backend_impl rebound to recording stubs, the
interaction-matrix callable and the statistics callback recorded, and recording observables in the
config.  Produces exactly what `trace_run` of coq/Model/SvMachine.v prints: (outcome, events).

Encodings: omega[k, j] = 1 + 32 k + j, delta = 2000 + (same), phi = 4000 + (same) so that every row
handed to a kernel identifies its tensor, its step index and whether a column was zeroed; the matrix
returned by the q-th query is filled with q + 1 so that the stub recovers the query it came from and
the rows/columns zeroed for dark atoms; a state is tagged by the number of the stepper call that
produced it (+1).
"""
from __future__ import annotations

import contextlib
import logging
import warnings

import torch

ROW_BASE = {"omega": 0, "delta": 2000, "phi": 4000}


class Rec:
    def __init__(self):
        self.events = []
        self.qtimes = []
        self.calls = 0
        self.stepper_kind = None

    def ev(self, code, ints=(), floats=()):
        self.events.append((int(code), [int(i) for i in ints], [float(x) for x in floats]))


class HamTok:
    """stand-in for RydbergHamiltonian (truthy, like the real class)"""

    def __init__(self, kind, rows, tq, mask):
        self.kind, self.rows, self.tq, self.mask = kind, rows, tq, mask

    def enc(self):
        return [self.kind] + self.rows + self.mask, [self.tq]


def _row(t):
    return [int(round(float(x.real))) for x in t]


def _decode_U(rec, U):
    n = U.shape[0]
    mask = [int(bool((U[j] == 0).all()) and bool((U[:, j] == 0).all())) for j in range(n)]
    v = int(round(float(U.abs().max()))) if U.numel() else 0
    tq = rec.qtimes[v - 1] if v >= 1 else rec.qtimes[-1]
    return tq, mask


def _rows(om, de, ph):
    return _row(om) + [-1] + _row(de) + [-1] + _row(ph) + [-1]


def _tag(state_data):
    return int(round(float(state_data.reshape(-1)[0].real)))


def make_stub(rec, kind):
    class Stub:
        KIND = kind

        @staticmethod
        def apply(dt, om, de, ph, U, state, tol, lind):
            tq, mask = _decode_U(rec, U)
            rows = _rows(om, de, ph)
            rec.ev(2, [_tag(state)] + rows + mask, [dt, tq])
            rec.calls += 1
            new = torch.zeros_like(state)
            new.reshape(-1)[0] = rec.calls + 1
            return new, HamTok(1, rows, tq, mask)

        @staticmethod
        def get_hamiltonian(*, omegas, deltas, phis, pulser_lindblads, interaction_matrix, device):
            tq, mask = _decode_U(rec, interaction_matrix)
            rows = _rows(omegas, deltas, phis)
            rec.ev(3, rows + mask, [tq])
            return HamTok(0, rows, tq, mask)

    return Stub


@contextlib.contextmanager
def patched(rec):
    import emu_sv.sv_backend_impl as M

    saved = (M.EvolveStateVector, M.EvolveDensityMatrix)
    M.EvolveStateVector = make_stub(rec, "sv")
    M.EvolveDensityMatrix = make_stub(rec, "dm")
    try:
        yield M
    finally:
        M.EvolveStateVector, M.EvolveDensityMatrix = saved


def build(case, rec):
    import emu_sv
    from emu_base.pulser_adapter import HamiltonianType, SequenceData
    from pulser.backend.observable import Observable
    from emu_base.utils import observable_aggregation_kwargs

    n, times = case["n"], case["times"]

    def tensor(name, rows):
        t = torch.zeros(rows, n, dtype=torch.complex128)
        for k in range(rows):
            for j in range(n):
                t[k, j] = ROW_BASE[name] + 1 + 32 * k + j
        return t

    omega, delta, phi = (tensor("omega", case["rows"][0]), tensor("delta", case["rows"][1]),
                         tensor("phi", case["rows"][2]))

    def interaction_matrix(t):
        rec.qtimes.append(float(t))
        rec.ev(1, [], [t])
        return torch.full((n, n), float(len(rec.qtimes)), dtype=torch.float64)

    dark = case["dark"]
    data = SequenceData(omega, delta, phi, interaction_matrix, tuple(f"q{i}" for i in range(n)),
                        tuple(dark) if dark is not None else tuple(False for _ in range(n)),
                        [], 0.25 if dark is not None else 0.0, list(times), ["r", "g"], HamiltonianType.Rydberg)

    class RecObs(Observable):
        def __init__(self, idx, evaluation_times):
            super().__init__(evaluation_times=evaluation_times, tag_suffix=str(idx),
                             **observable_aggregation_kwargs("SKIP"))
            self.idx = idx

        @property
        def _base_tag(self):
            return "rec"

        def __call__(self, config, t, state, hamiltonian, result):
            zi, fl = hamiltonian.enc() if hamiltonian is not None else ([], [])
            rec.ev(4, [self.idx, _tag(state.data)] + zi, [t] + fl)

        def apply(self, **kw):
            return 0.0

    obs = [RecObs(i, et) for i, et in enumerate(case["obs"])]
    kw = {}
    if case.get("default_times") is not None:
        kw["default_evaluation_times"] = case["default_times"]
    with warnings.catch_warnings():
        warnings.simplefilter("ignore")
        config = emu_sv.SVConfig(observables=obs, gpu=False, log_level=logging.CRITICAL, **kw)
    return data, config


ERR = {IndexError: 900, ZeroDivisionError: 901}


def run_impl(case):
    rec = Rec()
    with patched(rec) as M:
        try:
            data, config = build(case, rec)
            impl = M.SVBackendImpl(config, data)
            rec.stepper_kind = impl.stepper.KIND
            orig = impl.statistics

            class StatsRec:
                def __call__(self, cfg, t, state, ham, results):
                    zi, fl = ham.enc() if ham is not None else ([], [])
                    rec.ev(5, [_tag(state.data)] + zi, [t] + fl)
                    return orig(cfg, t, state, ham, results)

                def __getattr__(self, name):
                    return getattr(orig, name)

            impl.statistics = StatsRec()
            impl._run()
            return dict(outcome=0, events=rec.events, stepper=rec.stepper_kind, impl=impl, config=config)
        except tuple(ERR) as ex:
            return dict(outcome=ERR[type(ex)], events=[], error=repr(ex), stepper=rec.stepper_kind)


def eval_table(case, config):
    """independent evaluation of `_is_evaluation_time` for every boundary: pulser's own predicate at
    tolerance 1e-10, with the observable's own times when it has some, the config default otherwise"""
    times = case["times"]
    table = []
    if not times or times[-1] == 0.0:
        return table
    for t in times:
        nt = t / times[-1]
        row = []
        for et in case["obs"]:
            if et is not None:
                import numpy as np
                row.append(bool(config.is_time_in_evaluation_times(nt, np.array(et, dtype=float), tol=1e-10)))
            else:
                row.append(bool(config.is_evaluation_time(nt, tol=1e-10)))
        table.append((nt, row))
    return table


HEADER = """From Coq Require Import ZArith List PrimFloat.
Import ListNotations.
From EV Require Import Base.Arith Model.SvMachine.
Open Scope Z_scope."""


def model_expr(case, table):
    from vlib.common import float_lit

    def fl(x):
        return "(" + float_lit(float(x)) + ")%float"

    n = case["n"]

    def rows(name, cnt):
        return "[" + "; ".join("[" + "; ".join(str(ROW_BASE[name] + 1 + 32 * k + j) for j in range(n)) + "]"
                               for k in range(cnt)) + "]"

    def bl(bs):
        return "[" + "; ".join("true" if b else "false" for b in bs) + "]"

    dark = "None" if case["dark"] is None else f"(Some {bl(case['dark'])})"
    tab = "[" + "; ".join(f"({fl(t)}, {bl(r)})" for t, r in table) + "]"
    times = "[" + "; ".join(fl(t) for t in case["times"]) + "]"
    return (f"trace_run float_arith {times} {rows('omega', case['rows'][0])} {rows('delta', case['rows'][1])} "
            f"{rows('phi', case['rows'][2])} {dark} {len(case['obs'])}%nat {tab}")


def _canon_ints(code, ints, n):
    """the mask suffix (after the third -1) is dropped when no column is masked: the model prints []
    for "no filter", the stub cannot tell "no filter" from "filter with no bad atom" """
    if code in (2, 3, 4, 5) and ints.count(-1) >= 3:
        k = [i for i, x in enumerate(ints) if x == -1][2]
        head, mask = ints[:k + 1], ints[k + 1:]
        if not any(mask):
            mask = []
        return head + mask
    return ints


def canon(events, n):
    from vlib.coqparse import bits

    return [(int(c), _canon_ints(int(c), [int(i) for i in zi], n), [bits(float(x)) for x in fl])
            for c, zi, fl in events]


def compare(case, r, model_val):
    code, mevents = model_val
    if int(code) != r["outcome"]:
        return False, f"outcome impl={r['outcome']} ({r.get('error')}) model={code}"
    if r["outcome"] != 0:
        return True, ""
    if r["stepper"] != "sv":
        return False, f"noiseless data selected stepper {r['stepper']}"
    a, b = canon(r["events"], case["n"]), canon(mevents, case["n"])
    if a != b:
        k = next((i for i, (x, y) in enumerate(zip(a, b)) if x != y), min(len(a), len(b)))
        return False, (f"event {k} of {len(a)}/{len(b)}: impl={a[k] if k < len(a) else None} "
                       f"model={b[k] if k < len(b) else None}")
    return True, ""


# ---- generators ---------------------------------------------------------------------------
def gen_times(rng, steps):
    mode = rng.choice(["int", "frac", "irregular", "grid"])
    t, out = 0.0, [0.0]
    dt = rng.choice([0.25, 0.5, 1.0, 3.0, 10.0, 37.0])
    for _ in range(steps):
        if mode == "int":
            t += float(rng.randint(1, 20))
        elif mode == "frac":
            t += rng.choice([0.25, 0.5, 1.0, 2.5, 10.0])
        elif mode == "grid":
            t += dt
        else:
            t += 10 ** rng.uniform(-2, 2)
        out.append(t)
    return out


def gen_case(rng, malformed=False):
    n = rng.choice([1, 1, 2, 3, 3, 4, 5, 6])
    steps = rng.choice([1, 1, 2, 3, 5, 8, 13, rng.randint(1, 40)])
    times = gen_times(rng, steps)
    if rng.random() < 0.1:
        times = [t + 17.5 for t in times]  # a run that does not start at t = 0
    rel = [t / times[-1] for t in times]
    obs = []
    for _ in range(rng.randint(0, 4)):
        m = rng.random()
        if m < 0.15:
            obs.append(None)  # config default evaluation times
            continue
        pts = set()
        for _ in range(rng.randint(1, 6)):
            x = rng.choice(rel)
            mm = rng.random()
            if mm < 0.15:
                x = x + rng.choice([-1, 1]) * rng.choice([1e-9, 3e-11, 1e-12, 1e-6])   # near, but not on, a boundary
            elif mm < 0.25:
                x = rng.random()
            pts.add(min(1.0, max(0.0, x)))
        pts = sorted(pts)
        keep = [pts[0]]
        for x in pts[1:]:
            if x - keep[-1] > 1e-9:   # pulser rejects evaluation times closer than 1e-12
                keep.append(x)
        obs.append(keep)
    dark = None
    if rng.random() < 0.3:
        dark = [rng.random() < 0.4 for _ in range(n)]
    case = dict(n=n, times=times, rows=[steps, steps, steps], dark=dark, obs=obs, default_times=None)
    if any(o is None for o in obs):
        dt_ = sorted(set(rng.choice(rel) for _ in range(rng.randint(1, 4))))
        case["default_times"] = dt_
    if malformed:
        how = rng.choice(["short_times", "zero_end", "short_delta", "short_phi", "no_steps", "long_times"])
        if how == "short_times":
            case["times"] = times[:-rng.randint(1, min(2, len(times) - 1))] if len(times) > 2 else times[:1]
        elif how == "zero_end":
            case["times"] = [t - times[-1] for t in times]
        elif how == "short_delta":
            case["rows"][1] = max(0, steps - rng.randint(1, 2))
        elif how == "short_phi":
            case["rows"][2] = max(0, steps - 1)
        elif how == "no_steps":
            case["rows"] = [0, 0, 0]
            case["times"] = times[:1] if rng.random() < 0.5 else times
        else:
            case["times"] = times + [times[-1] + 5.0]
        case["malformed"] = how
        # evaluation times were drawn relative to the original grid: keep them valid for pulser only
        tl = case["times"][-1] if case["times"] else 0.0
        if tl <= 0.0:
            case["obs"] = [o for o in obs if o is not None]
    return case
