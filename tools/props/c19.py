"""C19 — Brent root finding terminates inside the bracket at a sign change (DESIGN.md §4 C19)."""
from vlib import common, pylite

SRC = common.REPO / "emu_base/math/brents_root_finding.py"
F = "F"
FIELDS = dict(epsilon=F, a=F, b=F, fa=F, fb=F, c=F, d=F, fc=F, bisection="B",
              current_guess=F, next_abscissa="OF")
METHODS = {
    "__init__": dict(params=dict(start=F, end=F, f_start=F, f_end=F, epsilon=F), ret=None),
    "get_next_abscissa": dict(params={}, ret="OF"),
    "provide_ordinate": dict(params=dict(abscissa=F, ordinate=F), ret=None),
    "is_converged": dict(params=dict(tolerance=F), ret="B"),
}


def gen():
    text = pylite.translate_class(SRC.read_text(), "BrentsRootFinder", FIELDS, METHODS, "Brent")
    return [(common.COQ / "Gen" / "Brent.v", text)]


# ------------------------------------------------------------------------------------------
import math

HEADER = """From Coq Require Import ZArith List PrimFloat.
Import ListNotations.
From EV Require Import Base.Arith Gen.Brent Model.BrentLoop.
Open Scope float_scope."""


def impl_run(case):
    """Drive the REAL class incrementally with the scripted ordinates."""
    from emu_base.math.brents_root_finding import BrentsRootFinder

    xs = []
    try:
        rf = BrentsRootFinder(start=case["start"], end=case["end"], f_start=case["fs"],
                              f_end=case["fe"], epsilon=case["eps"])
    except AssertionError:
        return {"xs": xs, "outcome": "assert", "state": None}
    ys = list(case["ys"])
    try:
        while True:
            if rf.is_converged(case["tol"]):
                return {"xs": xs, "outcome": "converged", "state": _state(rf), "guess": float(rf.current_guess)}
            if not ys:
                return {"xs": xs, "outcome": "script-exhausted", "state": None, "ab": (rf.a, rf.b)}
            x = rf.get_next_abscissa()
            rf.provide_ordinate(x, ys.pop(0))
            xs.append(x)
    except ZeroDivisionError:
        return {"xs": xs, "outcome": "zerodiv", "state": None}
    except AssertionError:
        return {"xs": xs, "outcome": "assert", "state": None}


def _state(rf):
    return ([rf.a, rf.b, rf.fa, rf.fb, rf.c, rf.d, rf.fc, rf.current_guess], rf.bisection)


def model_expr(case):
    fl = common.float_lit
    ys = "[" + "; ".join(fl(y) for y in case["ys"]) + "]"
    return (f"run_case float_arith {fl(case['start'])} {fl(case['end'])} {fl(case['fs'])} "
            f"{fl(case['fe'])} {fl(case['eps'])} {fl(case['tol'])} {ys}")


def model_decode(v):
    from vlib.coqparse import bits
    xs, (code, st) = v
    if code == 0:
        outcome = "converged"
    elif code == -1:
        outcome = "script-exhausted"
    elif code >= 10000:
        outcome = "zerodiv"
    else:
        outcome = "assert"
    state = None
    if st is not None:
        fields, bis = st[1]
        state = ([bits(x) for x in fields], bis)
    return {"xs": [bits(x) for x in xs], "outcome": outcome, "state": state}


def impl_canon(r):
    from vlib.coqparse import bits
    st = r["state"]
    return {"xs": [bits(float(x)) for x in r["xs"]], "outcome": r["outcome"],
            "state": None if st is None else ([bits(float(x)) for x in st[0]], st[1])}


# ---- generators ---------------------------------------------------------------------------
FUNCS = {
    "cubic": lambda x: x ** 3 - 2 * x - 5,
    "cosx": lambda x: math.cos(x) - x,
    "expm": lambda x: math.exp(-x) - 0.3,
    "atan": lambda x: math.atan(x - 0.7),
    "steep": lambda x: (x - 0.123) ** 9,
    "sign": lambda x: -1.0 if x < 0.371 else 1.0,
    "stair": lambda x: float(math.floor(4 * x) - 1.5),
    "norm_gap": lambda x: math.exp(-0.01 * x) - 0.61,
    "flatneg": lambda x: -1e-9 if x < 2.5 else 1e3 * (x - 2.5) + 1e-9,
}
BRACKETS = {"cubic": (1.0, 4.0), "cosx": (0.0, 1.5), "expm": (0.0, 9.0), "atan": (-8.0, 5.0),
            "steep": (-1.0, 1.5), "sign": (0.0, 1.0), "stair": (0.0, 1.0), "norm_gap": (0.0, 100.0),
            "flatneg": (0.0, 10.0)}


def gen_function_case(rng):
    from emu_base.math.brents_root_finding import find_root_brents

    name = rng.choice(sorted(FUNCS))
    f = FUNCS[name]
    lo, hi = BRACKETS[name]
    w = (hi - lo) * rng.uniform(0.0, 0.2)
    start, end = lo + w * rng.random(), hi - w * rng.random()
    eps = rng.choice([1e-6, 1e-3, 1.0, 1e-9])
    tol = 10 ** rng.uniform(-12, 0.5)
    rec = []

    def frec(x):
        y = f(x)
        rec.append((x, y))
        return y

    try:
        result = find_root_brents(frec, start=start, end=end, tolerance=tol, epsilon=eps)
        exc = None
    except (AssertionError, ZeroDivisionError) as ex:
        result, exc = None, type(ex).__name__
    if len(rec) < 2 or not (rec[0][1] * rec[1][1] < 0):
        return gen_function_case(rng)  # not a valid bracket for this function: draw again
    case = {"kind": "function", "fn": name, "start": start, "end": end, "eps": eps, "tol": tol,
            "fs": rec[0][1], "fe": rec[1][1], "ys": [y for _, y in rec[2:]],
            "loop_xs": [x for x, _ in rec[2:]], "loop_result": result, "loop_exc": exc}
    return case


def gen_script_case(rng, allow_zero=True):
    start = rng.choice([0.0, 1.0, -3.0, 12.5, 1e-3, 1e6]) + rng.random() * rng.choice([0, 1, 10])
    end = start + 10 ** rng.uniform(-3, 3)
    sgn = rng.choice([-1.0, 1.0])

    extreme = rng.random() < 0.15  # products under/overflow: only bit-exactness is checked there

    def mag():
        m = rng.random()
        if extreme and m < 0.3:
            return 10 ** rng.uniform(-320, -160)
        if extreme and m < 0.6:
            return 10 ** rng.uniform(150, 300)
        if m < 0.1:
            return 10 ** rng.uniform(-60, -20)
        if m < 0.2:
            return 10 ** rng.uniform(20, 60)
        return 10 ** rng.uniform(-6, 2)

    fs, fe = sgn * mag(), -sgn * mag()
    n = rng.randint(1, 60)
    mode = rng.choice(["random", "samesign", "alternate", "tiny", "zeros"])
    ys = []
    for i in range(n):
        if mode == "random":
            y = rng.choice([-1.0, 1.0]) * mag()
        elif mode == "samesign":
            y = sgn * mag()
        elif mode == "alternate":
            y = (sgn if i % 2 else -sgn) * mag()
        elif mode == "tiny":
            y = rng.choice([-1.0, 1.0]) * 10 ** (rng.uniform(-320, -300) if extreme else rng.uniform(-70, -50))
        else:
            y = 0.0 if (allow_zero and rng.random() < 0.5) else rng.choice([-1.0, 1.0]) * mag()
        ys.append(y)
    return {"kind": "script", "mode": mode, "extreme": extreme, "start": start, "end": end, "fs": fs, "fe": fe,
            "eps": rng.choice([1e-6, 1e-3, 1.0]), "tol": 10 ** rng.uniform(-12, 1), "ys": ys}


def gen_malformed_case(rng):
    c = gen_script_case(rng)
    how = rng.choice(["reversed", "samesign", "zero_f", "degenerate"])
    if how == "reversed":
        c["start"], c["end"] = c["end"], c["start"]
    elif how == "samesign":
        c["fe"] = abs(c["fe"]) * (1 if c["fs"] > 0 else -1)
    elif how == "zero_f":
        c["fs"] = 0.0
    else:
        c["end"] = c["start"]
    c["kind"] = "malformed:" + how
    return c


def corpus_cases():
    """Minimised regression inputs, always run first."""
    import json
    p = common.VERIF / "corpus" / "C19.json"
    return json.loads(p.read_text()) if p.exists() else []


# ---- property-level oracle on the real code (also the falsifier) -----------------------
def property_check(ctx, case, r):
    """What C19 demands of the implementation on a well-formed bracket."""
    if case["kind"].startswith("malformed") or case.get("extreme"):
        return
    lo, hi = case["start"], case["end"]
    if r["outcome"] in ("zerodiv", "assert"):
        ctx.violation(
            f"root finder raised ({r['outcome']}) on a valid bracket after {len(r['xs'])} queries",
            {"case": case, "impl": r, "finding_key": "raises-" + r["outcome"]})
        return
    for x in r["xs"]:
        if not (lo <= x <= hi):
            ctx.violation("abscissa queried outside the initial bracket",
                          {"case": case, "impl": r, "finding_key": "query-outside"})
            return
    if r["outcome"] == "converged" and r.get("guess") is not None and r["state"] is not None:
        # whatever the ordinates were: the point reported at convergence lies in the final bracket, whose ends differ
        # in sign (bracket invariant) and are less than the tolerance apart -- so it is within tol of a sign change
        a, b = float(r["state"][0][0]), float(r["state"][0][1])
        g = r["guess"]
        if not (min(a, b) <= g <= max(a, b)):
            ctx.violation(f"the point reported at convergence ({g!r}) lies outside the final bracket [{min(a, b)!r}, "
                          f"{max(a, b)!r}] that holds the sign change (tolerance {case['tol']})",
                          {"case": case, "impl": r, "finding_key": "guess-outside-final-bracket"})
            return
    if case["kind"] == "function":
        if case["loop_exc"]:
            return  # already reported through the incremental run
        f = FUNCS[case["fn"]]
        if r["outcome"] != "converged":
            ctx.violation("incremental run did not converge where find_root_brents did",
                          {"case": case, "impl": r, "finding_key": "incremental-differs"})
            return
        a, b = r["state"][0][0], r["state"][0][1]
        res = case["loop_result"]
        if not (res == b and abs(b - a) < case["tol"] and f(a) * f(b) <= 0):
            ctx.violation("result is not within tolerance of a sign change",
                          {"case": case, "impl": r, "finding_key": "no-sign-change"})
        if [float(x) for x in r["xs"]] != [float(x) for x in case["loop_xs"]]:
            ctx.violation("one-at-a-time feeding queries different points than find_root_brents",
                          {"case": case, "impl": r, "finding_key": "incremental-differs"})


def run(ctx):
    from vlib.coqparse import parse

    proofs_ok = True
    try:
        for path, text in gen():
            common.write_if_changed(path, text)
        ctx.obligation("translate:brents_root_finding.py", True, kind="translator")
    except pylite.Unsupported as ex:
        ctx.obligation("translate:brents_root_finding.py", False, str(ex), kind="translator")
        proofs_ok = False
    if proofs_ok:
        proofs_ok = common.standard_proof_stage(ctx, "C19", ["Properties/C19.vo"])

    # ---- cases
    cases = list(corpus_cases())
    nf, ns, nm = ctx.n(60, 1500), ctx.n(200, 6000), ctx.n(40, 500)
    cases += [gen_function_case(ctx.rng) for _ in range(nf)]
    cases += [gen_script_case(ctx.rng) for _ in range(ns)]
    cases += [gen_malformed_case(ctx.rng) for _ in range(nm)]
    impl = [impl_run(c) for c in cases]
    for c, r in zip(cases, impl):
        property_check(ctx, c, r)

    # ---- correspondence model <-> implementation (bit-exact)
    corr_ok = True
    detail = ""
    try:
        ev = common.CoqEval("C19", HEADER)
        for c in cases:
            ev.add(model_expr(c))
        outs = ev.run()
        hist = {}
        for c, r, o in zip(cases, impl, outs):
            m = model_decode(parse(o))
            i = impl_canon(r)
            nontrivial = len(r["xs"]) >= 2
            ctx.count_case({k: c[k] for k in ("kind", "start", "end", "eps", "tol")} |
                           {"n_ordinates": len(c["ys"]), "outcome": r["outcome"], "queries": len(r["xs"])},
                           nontrivial)
            hist[(c["kind"].split(":")[0], r["outcome"])] = hist.get((c["kind"].split(":")[0], r["outcome"]), 0) + 1
            if m != i and corr_ok:
                corr_ok = False
                detail = f"case={c} impl={i} model={m}"
                ctx.extra["first_disagreement"] = {"case": c, "impl": i, "model": m}
        ctx.extra["input_distribution"] = {f"{k[0]}/{k[1]}": v for k, v in sorted(hist.items())}
    except (common.CoqEvalError, ValueError) as ex:
        corr_ok = False
        detail = str(ex)
    ctx.obligation("correspondence:Gen.Brent+Model.BrentLoop==BrentsRootFinder (bit-exact)", corr_ok,
                   detail, kind="correspondence")
    ctx.rule = ("function cases (9 functions incl. discontinuous), scripted adversarial ordinate streams "
                "(5 modes incl. subnormal/huge/zero ordinates) and malformed brackets, one PRNG; a case is "
                "non-trivial when the real finder made >= 2 queries; distinct by input hash")
    ctx.trusted_base += ["translator tools/vlib/pylite.py (validated by this correspondence on every run)",
                         "Coq PrimFloat = IEEE binary64 as in CPython (bit-exact comparison through float.hex)"]
    ctx.assumptions += ["theorems are about the algorithm in exact real arithmetic (R instance of the same "
                        "generated term); rounding is outside them",
                        "termination is proved only for all-bisection runs (see DESIGN C19)"]


def replay(ctx, path):
    import json
    rp = json.loads(open(path).read())
    c = rp["case"]
    r = impl_run(c)
    print("replay outcome:", r["outcome"], "queries:", len(r["xs"]))
    property_check(ctx, c, r)


META = {
    "category": "proof",
    "technique": "Coq proof (R instance of the term translated from brents_root_finding.py) + bit-exact PrimFloat correspondence",
    "text": ("Theorems over the Gallina term regenerated from brents_root_finding.py on every run: the bracket "
             "invariant, no assertion/division failure, queries inside the bracket, soundness of the result "
             "(sign change within tol), incremental == loop, for every ordinate stream and every number of rounds "
             "(induction). Termination itself is not proved (false in exact arithmetic for adversarial streams); "
             "bisection rounds are proved to halve the bracket. The same term at PrimFloat is compared bit-for-bit "
             "with the real class."),
    "note": ("Trusted: Coq kernel+VM, stdlib real-number axioms (sig_forall_dec, functional_extensionality_dep), the "
             "pylite translator (validated by the correspondence), PrimFloat==CPython binary64. Theorems are in exact "
             "real arithmetic; ordinates whose products under/overflow binary64 are outside the property oracle."),
}
