"""C16 — emu-sv open-system runs solve the Lindblad equation and stay physical (DESIGN.md §4 C16).

Proof: coq/Properties/C16.v — over any commutative ring with involution and every dimension: the Lindblad
generator in the form the code uses is trace-free and Hermiticity preserving, linear invariants are constant
along every Krylov/Taylor polynomial combination, the run loop is an ordered fold of the stepper.
Tie: (a) the operator EvolveDensityMatrix.apply hands to krylov_exp, captured by rebinding the module name
`krylov_exp`, is compared EXACTLY (dyadic Gaussian rationals) with Model.SvLindRun.dm_op, together with the
krylov_exp arguments; (b) SVBackendImpl._run with the stepper class rebound to a recording stub is compared
bit-exactly (PrimFloat) with Model.SvLindRun.sv_run / args_from.
Falsifier: real runs (hand-built SequenceData with lindblad_ops, and real pulser sequences with NoiseModel) against
an independent dense 4^N x 4^N Liouvillian reference (numpy kron + scipy expm), plus physicality of every stored
density matrix.
"""
import json
import logging
import math
import warnings

import numpy as np

from props import _dense_ref as D
from props import c06 as C6
from vlib import common
from vlib.coqparse import parse, bits

HEADER_OP = """From Coq Require Import ZArith List Bool.
Import ListNotations.
From EV Require Import Model.SvBase Model.SvHam Model.SvLindRun.
Open Scope Z_scope."""

HEADER_RUN = """From Coq Require Import ZArith List Bool PrimFloat.
Import ListNotations.
From EV Require Import Base.Arith Model.SvLindRun.
Open Scope float_scope."""

COEF = 0.001   # _TIME_CONVERSION_COEFF; the run correspondence checks that the code uses this value


# =====================================================================================================
# (a) exact tie of the operator handed to krylov_exp
def gen_op_case(rng, N, mode):
    c = C6.gen_lind_case(rng, N, mode)
    c["dt"] = rng.choice([1.0, 0.5, 0.25, 2.0, 0.125, 3.0])
    c["tol"] = rng.choice([1e-10, 1e-8, 1e-5])
    c["kind"] = "op"
    return c


class WrapperNotCalled(Exception):
    pass


def impl_op(c):
    """Real EvolveDensityMatrix.apply with the module-level name krylov_exp rebound to a recorder."""
    import torch
    import emu_sv.lindblad_operator as lo
    import emu_sv.time_evolution as te

    om, de, ph, U = C6._tensors(c)
    Ls = [torch.tensor([[C6.cplx(x) for x in r] for r in m], dtype=torch.complex128) for m in c["Ls"]]
    rho = torch.tensor([[C6.cplx(x) for x in r] for r in c["rho"]], dtype=torch.complex128)
    rec = {}

    def fake_krylov(op, v, *args, **kw):
        rec["args"] = args
        rec["kw"] = dict(kw)
        rec["v_is_input"] = v is rho
        rec["out"] = op(v)
        rec["out2"] = op(rec["out"])
        return rec["out"]

    saved = te.krylov_exp
    te.krylov_exp = fake_krylov
    try:
        def call():
            return te.EvolveDensityMatrix.apply(c["dt"], om, de, ph, U, rho, c["tol"], Ls)
        if c["mode"] == "exact":
            Cc = {float(i + 1): torch.tensor(C6.cplx(c["C"][i]), dtype=torch.complex128) for i in range(c["N"])}
            Sc = {float(i + 1): torch.tensor(C6.cplx(c["S"][i]), dtype=torch.complex128) for i in range(c["N"])}
            one, zero = torch.tensor(1 + 0j, dtype=torch.complex128), torch.tensor(0j, dtype=torch.complex128)
            with C6._Rebind(lo, {"cos": lambda x: Cc.get(float(x), one), "sin": lambda x: Sc.get(float(x), zero)}):
                ret = call()
            cs, sn = [C6.cplx(p) for p in c["C"]], [C6.cplx(p) for p in c["S"]]
        else:
            ret = call()
            cs = [complex(float(torch.cos(p))) for p in ph]
            sn = [complex(float(torch.sin(p))) for p in ph]
    finally:
        te.krylov_exp = saved
    if "kw" not in rec:
        raise WrapperNotCalled("EvolveDensityMatrix.apply returned without calling the module-level name krylov_exp")
    kw = rec["kw"]
    flags = (len(rec["args"]) == 0 and kw.get("norm_tolerance") == c["tol"] and kw.get("exp_tolerance") == c["tol"]
             and kw.get("is_hermitian") is False and set(kw) <= {"norm_tolerance", "exp_tolerance", "is_hermitian",
                                                                  "max_krylov_dim"} and rec["v_is_input"]
             and ret[0] is rec["out"] and type(ret[1]).__name__ == "RydbergLindbladian")
    return ([complex(x) for x in rec["out"].reshape(-1).tolist()],
            [complex(x) for x in rec["out2"].reshape(-1).tolist()], cs, sn, flags)


def op_expr(c, cs, sn, x, expected):
    Ls = "[" + "; ".join(C6.m2lit(m) for m in c["Ls"]) + "]"
    args = (f"DyK true {C6._nat(c['N'])} {C6.dy(c['dt'])} {C6.dyl(c['omega'])} {C6.dyl(c['delta'])} "
            f"{C6._bools([p != 0 for p in c['phis']])} {C6.dyl(cs)} {C6.dyl(sn)} {C6._Ulit(c['U'])} {Ls} {C6.dyl(x)}")
    return f"match dm_op_checked {args} with Some r => dy_first_diff 0 r {C6.dyl(expected)} | None => -3 end"


def op_stage(ctx, n_cases):
    cases = []
    for i in range(n_cases):
        N = [1, 2, 2, 3][i % 4] if not (ctx.thorough() and i % 10 == 9) else 4
        cases.append(gen_op_case(ctx.rng, N, "real" if i % 3 == 0 else "exact"))
    ok, detail, flags_ok = True, "", True
    try:
        ev = common.CoqEval("C16op", HEADER_OP)
        meta = []
        for c in cases:
            out, out2, cs, sn, flags = impl_op(c)
            flags_ok &= flags
            if not flags and not detail:
                detail = f"krylov_exp called with unexpected arguments in case N={c['N']}"
            x = [C6.cplx(p) for r in c["rho"] for p in r]
            ev.add(op_expr(c, cs, sn, x, out))
            ev.add(op_expr(c, cs, sn, out, out2))       # second application: op acts on its own output
            meta.append(c)
            ctx.count_case({"kind": "op", "N": c["N"], "mode": c["mode"], "dt": c["dt"], "jumps": len(c["Ls"]),
                            "hermitian": c["hermitian"], "style": c["style"]}, nontrivial=len(c["Ls"]) > 0)
        ev.add("dm_krylov_args 7")
        outs = ev.run()
        for i, c in enumerate(meta):
            for j in (0, 1):
                v = parse(outs[2 * i + j])
                if v != -1 and ok:
                    ok, detail = False, f"first differing entry {v} (application {j + 1}) in case {json.dumps(c)[:600]}"
                    ctx.extra["first_op_disagreement"] = c
        if parse(outs[-1]) != ((7, 7), False) and parse(outs[-1]) != (7, 7, False):
            ok, detail = False, f"dm_krylov_args prints {outs[-1]}"
    except (common.CoqEvalError, ValueError, WrapperNotCalled) as ex:
        ok, detail = False, str(ex)
    ctx.obligation("correspondence:Model.SvLindRun.dm_op==EvolveDensityMatrix.apply op (exact, dyadic)", ok and flags_ok,
                   detail, kind="correspondence")


# =====================================================================================================
# (b) run-loop tie (bit-exact)
def gen_run_case(rng, malformed=False):
    nsteps = rng.randint(1, 7)
    style = rng.choice(["int", "frac", "irregular"])
    t, times = 0.0, [0.0]
    for _ in range(nsteps):
        if style == "int":
            t += rng.choice([1.0, 4.0, 10.0])
        elif style == "frac":
            t += rng.choice([0.1, 0.7, 2.5, 1e-3])
        else:
            t += rng.uniform(0.01, 13.0)
        times.append(t)
    rows = nsteps
    if malformed:
        rows = nsteps + rng.randint(1, 3)        # more drive rows than time intervals
    return {"kind": "run", "times": times, "rows": rows, "malformed": malformed, "style": style,
            "N": rng.choice([1, 2])}


class _StubStepper:
    log = []

    @staticmethod
    def get_hamiltonian(**kw):
        return "H0"

    @staticmethod
    def apply(dt, omegas, deltas, phis, imat, state, tol, lindblads):
        import torch
        row = int(round(float(omegas[0].real)))
        ok = bool((deltas.real == 100 + row).all() and (phis.real == 200 + row).all())
        _StubStepper.log.append((row, float(dt), float(imat[0, 0]), ok, float(tol), len(lindblads)))
        new = state.clone()
        new[0, 0] = 3 * state[0, 0] + row + 1
        return new, f"H{row}"


def impl_run(c):
    import torch
    import emu_sv
    import emu_sv.sv_backend_impl as sbi
    from emu_base.pulser_adapter import HamiltonianType, SequenceData
    from pulser.backend import StateResult

    n, rows, times = c["N"], c["rows"], c["times"]
    om = torch.tensor([[float(k)] * n for k in range(rows)], dtype=torch.complex128)
    de = om + 100
    ph = om + 200
    tq = []

    def imat(t):
        tq.append(float(t))
        return torch.full((n, n), float(t), dtype=torch.float64)

    L = [torch.tensor([[0, 1], [0, 0]], dtype=torch.complex128)]
    data = SequenceData(om, de, ph, imat, tuple(f"q{i}" for i in range(n)), tuple(False for _ in range(n)), L, 0.0,
                        list(times), ["r", "g"], HamiltonianType.Rydberg)
    et = [t / times[-1] for t in times]
    init = torch.zeros(2 ** n, 2 ** n, dtype=torch.complex128)
    with warnings.catch_warnings():
        warnings.simplefilter("ignore")
        cfg = emu_sv.SVConfig(observables=[StateResult(evaluation_times=et)], log_level=logging.CRITICAL, gpu=False,
                              krylov_tolerance=1e-7, initial_state=emu_sv.DensityMatrix(init, gpu=False))
    saved = sbi.EvolveDensityMatrix
    sbi.EvolveDensityMatrix = _StubStepper
    _StubStepper.log = []
    try:
        try:
            res = emu_sv.SVBackend._run_from_sequence_data(data, cfg)
            outcome = "ok"
        except IndexError:
            res, outcome = None, "IndexError"
    finally:
        sbi.EvolveDensityMatrix = saved
    log = list(_StubStepper.log)
    seen = None
    if res is not None:
        seen = []
        for j, t in enumerate(et):
            seen.append((j, int(round(res.get_result("state", t).data[0, 0].real.item()))))
    return {"outcome": outcome, "log": log, "seen": seen}


def run_stage(ctx, n_cases):
    cases = [gen_run_case(ctx.rng, malformed=(i % 6 == 5)) for i in range(n_cases)]
    ok, detail = True, ""
    fl = common.float_lit
    try:
        ev = common.CoqEval("C16run", HEADER_RUN)
        for c in cases:
            ts = "[" + "; ".join(fl(t) for t in c["times"]) + "]"
            ev.add(f"f_args {fl(COEF)} {ts} {c['rows']}%nat")
            ev.add(f"f_run {fl(COEF)} {ts} {c['rows']}%nat")
        outs = ev.run()
        for i, c in enumerate(cases):
            r = impl_run(c)
            ma, mr = parse(outs[2 * i]), parse(outs[2 * i + 1])
            ctx.count_case({"kind": "run", "steps": c["rows"], "times": c["times"][:4], "style": c["style"],
                            "malformed": c["malformed"], "outcome": r["outcome"]}, nontrivial=c["rows"] >= 2)
            good = True
            if r["outcome"] == "IndexError":
                good = ma == ("Err", 21) and mr == ("Err", 21)
                # the model stops at the first failing step; the real run executed the steps before it
                good &= len(r["log"]) == len(c["times"]) - 1
            else:
                good = ma[0] == "Ok" and mr[0] == "Ok"
                if good:
                    margs = [(k, bits(dt), bits(t)) for k, (dt, t) in ma[1]]
                    iargs = [(k, bits(dt), bits(t)) for k, dt, t, _, _, _ in r["log"]]
                    good = (margs == iargs and all(x[3] and x[4] == 1e-7 and x[5] == 1 for x in r["log"])
                            and [tuple(x) for x in mr[1]] == r["seen"])
            if not good and ok:
                ok, detail = False, f"case={c} impl={r} model_args={outs[2 * i][:300]} model_run={outs[2 * i + 1][:300]}"
                ctx.extra["first_run_disagreement"] = {"case": c, "impl": str(r)}
    except (common.CoqEvalError, ValueError) as ex:
        ok, detail = False, str(ex)
    ctx.obligation("correspondence:Model.SvLindRun.sv_run==SVBackendImpl._run density-matrix branch (bit-exact)", ok,
                   detail, kind="correspondence")


# =====================================================================================================
# fail-closed source shape: the density-matrix stepper reaches the exponential ONLY through the public wrapper
# krylov_exp (which raises RecursionError when the Krylov space is exhausted without convergence)
STEPPER_METHOD = "apply"      # the method SVBackendImpl._evolve_step calls on the stepper class


def source_shape(te_text, ke_text):
    """Returns a list of problems (empty = the expected shape)."""
    import ast

    bad = []
    tree = ast.parse(te_text)
    imports = [x for x in tree.body if isinstance(x, ast.ImportFrom)
               and any(a.name == "krylov_exp" for a in x.names)]
    if len(imports) != 1 or imports[0].module != "emu_base.math.krylov_exp" or any(
            a.asname for a in imports[0].names if a.name == "krylov_exp"):
        bad.append("time_evolution.py must bind krylov_exp by `from emu_base.math.krylov_exp import krylov_exp`")
    for x in tree.body:
        names = []
        if isinstance(x, (ast.FunctionDef, ast.ClassDef)):
            names = [x.name]
        elif isinstance(x, ast.Assign):
            names = [t.id for t in x.targets if isinstance(t, ast.Name)]
        if "krylov_exp" in names:
            bad.append("module-level name krylov_exp is rebound in time_evolution.py")
    cls = [x for x in tree.body if isinstance(x, ast.ClassDef) and x.name == "EvolveDensityMatrix"]
    if len(cls) != 1:
        return bad + ["class EvolveDensityMatrix not found"]
    fns = [x for x in cls[0].body if isinstance(x, ast.FunctionDef) and x.name == STEPPER_METHOD]
    if len(fns) != 1:
        return bad + [f"EvolveDensityMatrix.{STEPPER_METHOD} not found"]
    fn = fns[0]
    for cm in cls[0].body:      # no other method of the stepper class may touch the exponential
        if isinstance(cm, ast.FunctionDef) and cm is not fn:
            for node in ast.walk(cm):
                if isinstance(node, (ast.Name, ast.Attribute)) and \
                        (getattr(node, "id", None) or getattr(node, "attr", "")).startswith("krylov_exp"):
                    bad.append(f"EvolveDensityMatrix.{cm.name} refers to {ast.unparse(node)}")
    params = [a.arg for a in fn.args.args]
    if "krylov_tolerance" not in params or "density_matrix" not in params:
        bad.append(f"unexpected parameters of {STEPPER_METHOD}: {params}")
    for node in ast.walk(fn):
        ident = getattr(node, "id", None) if isinstance(node, ast.Name) else (
            node.attr if isinstance(node, ast.Attribute) else None)
        if ident and ident != "krylov_exp" and "krylov_exp" in ident:
            bad.append(f"{STEPPER_METHOD} refers to `{ident}` (only the public wrapper krylov_exp is allowed)")
        if ident in ("double_krylov",):
            bad.append(f"{STEPPER_METHOD} refers to `{ident}`")
    calls = [c for c in ast.walk(fn) if isinstance(c, ast.Call) and isinstance(c.func, ast.Name)
             and c.func.id == "krylov_exp"]
    if len(calls) != 1:
        return bad + [f"{STEPPER_METHOD} must contain exactly one call krylov_exp(...), found {len(calls)}"]
    call = calls[0]
    kws = {k.arg: ast.unparse(k.value) for k in call.keywords}
    if [ast.unparse(a) for a in call.args] != ["op", "density_matrix"]:
        bad.append(f"krylov_exp positional arguments are {[ast.unparse(a) for a in call.args]}")
    if kws != {"norm_tolerance": "krylov_tolerance", "exp_tolerance": "krylov_tolerance", "is_hermitian": "False"}:
        bad.append(f"krylov_exp keyword arguments are {kws}")
    rets = [r for r in ast.walk(fn) if isinstance(r, ast.Return) and r.value is not None]
    outer = [r for r in rets if not any(r in ast.walk(d) for d in ast.walk(fn)
                                        if isinstance(d, ast.FunctionDef) and d is not fn)]
    ok_ret = (len(outer) == 1 and isinstance(outer[0].value, ast.Tuple) and len(outer[0].value.elts) == 2
              and outer[0].value.elts[0] is call and ast.unparse(outer[0].value.elts[1]) == "ham")
    if not ok_ret:
        bad.append(f"{STEPPER_METHOD} must `return (krylov_exp(...), ham)`; found "
                   f"{[ast.unparse(r)[:80] for r in outer]}")
    inner = [d for d in fn.body if isinstance(d, ast.FunctionDef) and d.name == "op"]
    if len(inner) != 1 or [ast.unparse(x) for x in inner[0].body] != ["return -1j * dt * (ham @ x)"]:
        bad.append("nested op(x) is not `return -1j * dt * (ham @ x)`")
    # the wrapper itself refuses unconverged results
    ktree = ast.parse(ke_text)
    wr = [x for x in ktree.body if isinstance(x, ast.FunctionDef) and x.name == "krylov_exp"]
    if len(wr) != 1:
        return bad + ["emu_base/math/krylov_exp.py: krylov_exp not found"]
    guards = [x for x in ast.walk(wr[0]) if isinstance(x, ast.If) and ast.unparse(x.test) == "not krylov_result.converged"
              and x.body and isinstance(x.body[0], ast.Raise)]
    wrets = [ast.unparse(r) for r in ast.walk(wr[0]) if isinstance(r, ast.Return)]
    if len(guards) != 1 or wrets != ["return krylov_result.result"] or \
            wr[0].body.index(guards[0]) > [i for i, x in enumerate(wr[0].body) if isinstance(x, ast.Return)][0]:
        bad.append("krylov_exp wrapper does not `raise` on `not krylov_result.converged` before returning the result")
    return bad


def source_shape_stage(ctx):
    te = (common.REPO / "emu_sv/time_evolution.py").read_text()
    ke = (common.REPO / "emu_base/math/krylov_exp.py").read_text()
    try:
        bad = source_shape(te, ke)
    except SyntaxError as ex:
        bad = [f"cannot parse: {ex}"]
    ctx.obligation("source-shape:EvolveDensityMatrix.apply reaches the exponential only through krylov_exp(...) "
                   "(is_hermitian=False, both tolerances = krylov_tolerance) and returns its result", not bad,
                   "; ".join(bad), kind="translator")
    return not bad


class krylov_counted:
    """Runtime tie: counts calls of the wrapper and of krylov_exp_impl as seen from emu_sv.time_evolution."""

    def __enter__(self):
        import emu_sv.time_evolution as te
        self.te = te
        self.wrapper_calls, self.direct_impl_calls, self.flags = 0, 0, []
        self.saved = {"krylov_exp": te.krylov_exp}
        orig = te.krylov_exp

        def counted(op, v, *a, **kw):
            self.wrapper_calls += 1
            self.flags.append((kw.get("is_hermitian"), kw.get("norm_tolerance"), kw.get("exp_tolerance"), len(a)))
            return orig(op, v, *a, **kw)

        te.krylov_exp = counted
        for name in dir(te):
            if name != "krylov_exp" and "krylov_exp" in name and callable(getattr(te, name)):
                self.saved[name] = getattr(te, name)

                def direct(*a, _f=self.saved[name], **kw):
                    self.direct_impl_calls += 1
                    return _f(*a, **kw)

                setattr(te, name, direct)
        return self

    def __exit__(self, *a):
        for name, f in self.saved.items():
            setattr(self.te, name, f)

    def check(self, ctx, case, nsteps, ktol, completed):
        """one wrapper call per executed step, no direct call of the implementation"""
        ok_flags = all(f == (False, ktol, ktol, 0) for f in self.flags)
        expected = nsteps if completed else None
        if self.direct_impl_calls or not ok_flags or (expected is not None and self.wrapper_calls != expected):
            ctx.violation(
                f"the density-matrix run made {self.wrapper_calls} krylov_exp wrapper calls for {nsteps} steps and "
                f"{self.direct_impl_calls} direct krylov_exp_impl calls (wrapper arguments ok: {ok_flags}): a step can "
                "return an unconverged state without raising",
                {"case": case, "finding_key": "krylov-wrapper-bypassed"})
            return False
        return True


# =====================================================================================================
# ownership of the initial state: a run must work on its own copy
class impl_captured:
    """Rebinds emu_sv.sv_backend.SVBackendImpl: records, right after construction, whether the evolving state shares
    storage with config.initial_state (krylov_exp normalises its input IN PLACE)."""

    def __enter__(self):
        import emu_sv.sv_backend as sb
        self.sb, self.orig = sb, sb.SVBackendImpl
        self.aliased, self.count = [], 0

        def make(config, data):
            impl = self.orig(config, data)
            self.count += 1
            ini = getattr(config, "initial_state", None)
            if ini is not None:
                a, b = impl.state.data, ini.data
                self.aliased.append(bool(a.data_ptr() == b.data_ptr()
                                         or a.untyped_storage().data_ptr() == b.untyped_storage().data_ptr()))
            return impl

        sb.SVBackendImpl = make
        return self

    def __exit__(self, *a):
        self.sb.SVBackendImpl = self.orig


def ownership_check(ctx, case, cap, holders, what=""):
    """holders: [(label, tensor now, bit-exact copy taken before the run)]"""
    import torch
    ok = True
    if any(cap.aliased):
        ctx.violation(f"the evolving state shares storage with config.initial_state{what} (the Krylov step normalises "
                      "its input in place)", {"case": case, "finding_key": "initial-state-aliased"})
        ok = False
    for label, now, before in holders:
        if not torch.equal(now, before):
            dev = float((now - before).abs().max())
            ctx.violation(f"{label} was modified by the run{what} (max change {dev:.3g}, trace/norm now "
                          f"{complex(now.trace() if now.dim() == 2 else now.norm()):.6g})",
                          {"case": case, "finding_key": "initial-state-mutated"})
            ok = False
    return ok


# =====================================================================================================
# falsifier: independent dense Liouvillian reference
def liouvillian(H, Js):
    """Row-major vectorisation: vec(A X B) = (A kron B^T) vec(X).
    d rho/dt = -i (Heff rho - rho Heff^dagger) + sum_J J rho J^dagger,  Heff = H - (i/2) sum_J J^dagger J."""
    d = H.shape[0]
    eye = np.eye(d)
    Heff = H - 0.5j * sum((J.conj().T @ J for J in Js), np.zeros_like(H))
    Lv = -1j * (np.kron(Heff, eye) - np.kron(eye, Heff.conj()))
    for J in Js:
        Lv = Lv + np.kron(J, J.conj())
    return Lv


def reference(prob, ops2, rho0=None, U_of_t=None):
    import scipy.linalg as sla
    n = prob["n"]
    d = 2 ** n
    rho = np.zeros((d, d), complex)
    rho[0, 0] = 1
    if rho0 is not None:
        rho = np.array(rho0, dtype=complex)
    Js = [D._embed(L, q, n) for q in range(n) for L in ops2]
    out, Hs = [rho.copy()], []
    for k in range(len(prob["times"]) - 1):
        U = prob["U"] if U_of_t is None else np.asarray(U_of_t(prob["times"][k]))
        H = D.dense_H(prob["omega"][k], prob["delta"][k], prob["phi"][k], U)
        dt = (prob["times"][k + 1] - prob["times"][k]) * 1e-3
        rho = (sla.expm(liouvillian(H, Js) * dt) @ rho.reshape(-1)).reshape(d, d)
        out.append(rho.copy())
        Hs.append(H)
    return out, Hs


def occ_dm(rho, n):
    p = np.real(np.diag(rho))
    return np.array([sum(p[k] for k in range(2 ** n) if (k >> (n - 1 - j)) & 1) for j in range(n)])


def corr_dm(rho, n):
    p = np.real(np.diag(rho))
    return np.array([[sum(p[k] for k in range(2 ** n) if (k >> (n - 1 - i)) & 1 and (k >> (n - 1 - j)) & 1)
                      for j in range(n)] for i in range(n)])


def state_tol(ktol, nsteps):
    """Calibrated: the unchanged code stays below ~3 * ktol in total over 3-8 steps (error per step <~ ktol); a wrong
    factor in any term of the generator shows up at 1e-3 .. 1e-1."""
    return 1e-9 + 20.0 * nsteps * ktol


def compare_run(ctx, case, res, prob, ops2, et, ktol, rho0, U_of_t=None, has_energy=True):
    """Every stored observable/state against the reference + physicality at every evaluation time."""
    n = prob["n"]
    nsteps = len(prob["times"]) - 1
    ref, Hs = reference(prob, ops2, rho0, U_of_t)
    tol = state_tol(ktol, nsteps)
    d = 2 ** n
    total = prob["times"][-1]
    worst = {"state": 0.0, "occ": 0.0, "corr": 0.0, "energy": 0.0, "herm": 0.0, "trace": 0.0, "lmin": 1.0}
    bad = None
    for t in et:
        k = min(range(nsteps + 1), key=lambda i: abs(prob["times"][i] / total - t))
        st_t = res.get_result("state", t).data
        if str(st_t.dtype) != "torch.complex128" and bad is None:
            bad = (f"stored density matrix has dtype {st_t.dtype}", "lindblad-lost-precision", 0.0, 0.0, t)
        st = st_t.numpy()
        e_state = float(np.abs(st - ref[k]).max())
        e_occ = float(np.abs(np.array([float(x) for x in res.get_result("occupation", t)]) - occ_dm(ref[k], n)).max())
        e_corr = float(np.abs(np.array(res.get_result("correlation_matrix", t), dtype=float) - corr_dm(ref[k], n)).max())
        e_en = 0.0
        if has_energy:
            H = Hs[k - 1] if k >= 1 else None
            if H is not None:
                e_en = abs(float(res.get_result("energy", t)) - float(np.real(np.trace(H @ ref[k]))))
        herm = float(np.abs(st - st.conj().T).max())
        trc = abs(complex(np.trace(st)) - 1.0)
        lmin = float(np.linalg.eigvalsh((st + st.conj().T) / 2).min())
        for key, v in (("state", e_state), ("occ", e_occ), ("corr", e_corr), ("energy", e_en), ("herm", herm),
                       ("trace", trc)):
            worst[key] = max(worst[key], v)
        worst["lmin"] = min(worst["lmin"], lmin)
        hscale = max(1.0, max((float(np.abs(h).sum(axis=1).max()) for h in Hs), default=1.0))
        if bad is None:
            if e_state > tol:
                bad = ("density matrix differs from exact Lindblad evolution", "lindblad-dynamics", e_state, tol)
            elif e_occ > tol * d or e_corr > tol * d:
                bad = ("occupation/correlation of the density matrix differ from the reference", "dm-observable",
                       max(e_occ, e_corr), tol * d)
            elif e_en > tol * d * hscale:
                bad = ("energy of the density matrix differs from tr(H rho)", "dm-observable", e_en, tol * d * hscale)
            elif herm > 1e-9:
                bad = ("stored density matrix is not Hermitian", "not-hermitian", herm, 1e-9)
            elif trc > 1e-9 + tol * d:
                bad = ("stored density matrix does not have trace one", "trace-not-one", trc, 1e-9 + tol * d)
            elif lmin < -(1e-9 + 2 * tol):
                bad = ("stored density matrix has a negative eigenvalue", "not-positive", lmin, -(1e-9 + 2 * tol))
            if bad:
                bad = bad + (t,)
    if bad:
        hist = case.get("history")
        ctx.violation(f"{bad[0]} at t={bad[4]} (value {bad[2]:.3g}, bound {bad[3]:.3g})"
                      + (f" — run number {hist['position'] + 1} of a sequence of runs in one process that share the "
                         f"drive and differ in the noise ({hist['order']})" if hist else ""),
                      {"case": case, "worst": worst,
                       "finding_key": "lindblad-depends-on-history" if hist else bad[1]})
    return worst


def _ops_to_np(ops):
    return [np.array([[complex(*x) for x in r] for r in m], dtype=complex) for m in ops]


def rand_op(rng, kind):
    g = lambda s: [rng.gauss(0, s), rng.gauss(0, s)]  # noqa: E731
    z = [0.0, 0.0]
    if kind == "relax":
        return [[z, [math.sqrt(rng.uniform(0.05, 2.0)), 0.0]], [z, z]]
    if kind == "pump":
        return [[z, z], [[math.sqrt(rng.uniform(0.05, 2.0)), 0.0], z]]
    if kind == "deph":
        c = math.sqrt(rng.uniform(0.05, 2.0) / 2)
        return [[[c, 0.0], z], [z, [-c, 0.0]]]
    if kind == "cdiag":      # complex diagonal, e.g. diag(1, i), i*sigma_z
        return [[g(0.7), z], [z, g(0.7)]]
    if kind == "real":
        return [[[rng.gauss(0, 0.6), 0.0] for _ in range(2)] for _ in range(2)]
    return [[g(0.5), g(0.5)], [g(0.5), g(0.5)]]


def rand_rho(rng, n):
    d = 2 ** n
    r = rng.choice([1, 2, d, d])
    A = np.array([[complex(rng.gauss(0, 1), rng.gauss(0, 1)) for _ in range(r)] for _ in range(d)])
    rho = A @ A.conj().T
    return rho / np.trace(rho)


def gen_hand_case(rng, thorough, n=None):
    n = n or rng.choice([1, 2, 2, 3, 3, 4] + ([5] if thorough and rng.random() < 0.5 else []))
    steps = rng.choice([3, 5, 8]) if n < 5 else 3
    prob = D.random_problem(rng, n, steps, dt=rng.choice([5.0, 10.0, 20.0]), local=rng.random() < 0.7,
                            phases=rng.random() < 0.7)
    if rng.random() < 0.3:      # irregular grid
        t, times = 0.0, [0.0]
        for _ in range(steps):
            t += rng.uniform(2.0, 20.0)
            times.append(t)
        prob["times"] = times
    nops = rng.choice([1, 1, 2, 3, 4])
    ops = [rand_op(rng, rng.choice(["relax", "pump", "deph", "real", "gauss", "gauss", "cdiag"])) for _ in range(nops)]
    return {"kind": "hand", "prob": _ser_prob(prob), "ops": ops,
            "ktol": rng.choice([1e-10, 1e-10, 1e-8, 1e-6]),
            "rho0_seed": rng.randrange(10 ** 6) if rng.random() < 0.6 else None,
            "time_dep_U": rng.random() < 0.25}


def gen_stiff_case(rng, thorough):
    """4-5 atoms, interactions 10-300 times stronger than usual, steps of 100-200 ns, krylov_tolerance 1e-10: the
    Arnoldi space (100 vectors) is exhausted in part of these; the run must then REFUSE (RecursionError)."""
    n = rng.choice([4, 4, 5] if thorough else [4])
    steps = rng.choice([2, 3])
    prob = D.random_problem(rng, n, steps, dt=rng.choice([100.0, 200.0]), local=rng.random() < 0.7,
                            phases=rng.random() < 0.5, scale=rng.choice([1.0, 2.0]))
    prob["U"] = prob["U"] * rng.choice([3.0, 10.0, 30.0, 100.0, 300.0, 1000.0])
    strong = rng.random() < 0.4
    ops = [rand_op(rng, rng.choice(["relax", "deph", "gauss"])) for _ in range(rng.choice([1, 2]))]
    if not strong:       # (almost) closed system: a single weak relaxation channel keeps the density-matrix branch
        ops = [[[[0.0, 0.0], [math.sqrt(rng.uniform(1e-3, 5e-2)), 0.0]], [[0.0, 0.0], [0.0, 0.0]]]]
    return {"kind": "hand", "stiff": True, "strong_noise": strong, "prob": _ser_prob(prob), "ops": ops,
            "ktol": 1e-10, "rho0_seed": rng.randrange(10 ** 6) if rng.random() < 0.7 else None, "time_dep_U": False}


def _ser_prob(p):
    return {k: (v.tolist() if hasattr(v, "tolist") else v) for k, v in p.items()}


def _deser_prob(p):
    q = dict(p)
    for k in ("omega", "delta", "phi", "U"):
        q[k] = np.array(q[k], dtype=float)
    return q


def _observables(et, energy=True):
    from pulser.backend import CorrelationMatrix, Energy, Occupation, StateResult
    obs = [StateResult(evaluation_times=et), Occupation(evaluation_times=et), CorrelationMatrix(evaluation_times=et)]
    if energy:
        obs.append(Energy(evaluation_times=et))
    return obs


def run_hand_case(ctx, case):
    import random as _random
    import torch
    import emu_sv

    prob = _deser_prob(case["prob"])
    n = prob["n"]
    ops2 = _ops_to_np(case["ops"])
    total = prob["times"][-1]
    et = [t / total for t in prob["times"]]
    rho0 = rand_rho(_random.Random(case["rho0_seed"]), n) if case["rho0_seed"] is not None else None
    U_of_t = None
    if case["time_dep_U"]:
        half = 0.5 * total
        U_of_t = lambda t: prob["U"] * (0.0 if t < half else 1.0)  # noqa: E731  (an SLM-like switch)
    kw = {}
    if rho0 is not None:
        kw["initial_state"] = emu_sv.DensityMatrix(torch.tensor(rho0, dtype=torch.complex128), gpu=False)
    with warnings.catch_warnings():
        warnings.simplefilter("ignore")
        cfg = emu_sv.SVConfig(observables=_observables(et), log_level=logging.CRITICAL, gpu=False,
                              krylov_tolerance=case["ktol"], **kw)
        data = D.to_sequence_data(prob, lindblad_ops=[torch.tensor(o, dtype=torch.complex128) for o in ops2],
                                  U_of_t=U_of_t)
        nsteps = len(prob["times"]) - 1
        user = kw["initial_state"].data if rho0 is not None else None
        before = user.clone() if user is not None else None
        try:
            with krylov_counted() as kc, impl_captured() as cap:
                res = emu_sv.SVBackend._run_from_sequence_data(data, cfg)
        except RecursionError as ex:
            kc.check(ctx, case, nsteps, case["ktol"], completed=False)
            if case.get("stiff"):
                return {"refused": True}        # an honest refusal: the step did not converge and said so
            ctx.violation(f"emu-sv raised on a valid noisy sequence: {ex!r}", {"case": case, "finding_key": "e2e-raises"})
            return None
        except Exception as ex:
            ctx.violation(f"emu-sv raised on a valid noisy sequence: {ex!r}", {"case": case, "finding_key": "e2e-raises"})
            return None
        kc.check(ctx, case, nsteps, case["ktol"], completed=True)
        holders = [("config.initial_state.data", cfg.initial_state.data, before)] if user is not None else []
        ownership_check(ctx, case, cap, holders)
        res2 = None
        if n <= 4 and not case.get("stiff"):       # the same config (and initial state object) must serve a second run
            try:
                with impl_captured() as cap2:
                    res2 = emu_sv.SVBackend._run_from_sequence_data(data, cfg)
            except Exception as ex:
                ctx.violation(f"a second run with the same config raised: {ex!r}",
                              {"case": case, "finding_key": "repeat-run-differs"})
            else:
                ownership_check(ctx, case, cap2, holders, " (second run with the same config)")
    if type(res.get_result("state", 1.0)).__name__ != "DensityMatrix":
        ctx.violation("a run with Lindblad operators did not produce a density matrix",
                      {"case": case, "finding_key": "not-density-matrix"})
        return None
    w = compare_run(ctx, case, res, prob, ops2, et, case["ktol"], rho0, U_of_t)
    if res2 is not None:
        w2 = compare_run(ctx, dict(case, repeat="second run with the same config object"), res2, prob, ops2, et,
                         case["ktol"], rho0, U_of_t)
        for k in ("state", "occ", "corr", "energy", "herm", "trace"):
            w[k] = max(w[k], w2[k])
        w["lmin"] = min(w["lmin"], w2["lmin"])
    return w


# ---- real pulser sequences with NoiseModel ------------------------------------------------------------
def gen_pulser_case(rng, thorough):
    n = rng.choice([1, 2, 2, 3, 3] + ([4] if thorough else []))
    kinds = rng.choice([["relaxation"], ["dephasing"], ["depolarizing"], ["eff_noise"],
                        ["relaxation", "dephasing"], ["relaxation", "dephasing", "depolarizing", "eff_noise"],
                        ["depolarizing", "eff_noise"]])
    nm = {}
    if "relaxation" in kinds:
        nm["relaxation_rate"] = round(rng.uniform(0.05, 1.5), 3)
    if "dephasing" in kinds:
        nm["dephasing_rate"] = round(rng.uniform(0.05, 1.5), 3)
    if "depolarizing" in kinds:
        nm["depolarizing_rate"] = round(rng.uniform(0.05, 1.0), 3)
    if "eff_noise" in kinds:
        k = rng.choice([1, 2])
        nm["eff_noise_rates"] = [round(rng.uniform(0.1, 1.5), 3) for _ in range(k)]
        nm["eff_noise_opers"] = [[[[round(rng.gauss(0, 0.6), 3), round(rng.gauss(0, 0.6), 3)] for _ in range(2)]
                                  for _ in range(2)] for _ in range(k)]
    pulses = [{"dur": rng.choice([20, 30, 40, 52]), "amp": round(rng.uniform(1.0, 6.0), 2),
               "det": round(rng.uniform(-4.0, 4.0), 2), "phase": rng.choice([0.0, 0.0, round(rng.uniform(0, 3), 2)]),
               "local": (n > 1 and rng.random() < 0.3)} for _ in range(rng.choice([1, 2, 3]))]
    return {"kind": "pulser", "n": n, "spacing": rng.choice([5.5, 6.5, 8.0]), "pulses": pulses, "noise": nm,
            "dt": rng.choice([5, 10]), "ktol": rng.choice([1e-10, 1e-8]), "target": rng.randrange(n),
            "rho0_seed": rng.randrange(10 ** 6) if rng.random() < 0.6 else None,
            "n_traj": 3 if rng.random() < 0.4 else 1,     # with amp_sigma = 1e-9: numerically identical problems
            "twice": rng.random() < 0.5}                  # run() twice on the same backend object


def build_sequence(case):
    import pulser
    n = case["n"]
    coords = [(case["spacing"] * (i % 3) + 0.4 * i, case["spacing"] * (i // 3)) for i in range(n)]
    reg = pulser.Register({f"q{i}": c for i, c in enumerate(coords)})
    seq = pulser.Sequence(reg, pulser.MockDevice)
    seq.declare_channel("ch", "rydberg_global")
    if any(p["local"] for p in case["pulses"]):
        seq.declare_channel("loc", "rydberg_local")
        seq.target(f"q{case['target']}", "loc")
    for p in case["pulses"]:
        seq.add(pulser.Pulse.ConstantPulse(p["dur"], p["amp"], p["det"], p["phase"]), "loc" if p["local"] else "ch")
    return seq


def pulser_jump_ops(nm):
    """Collapse operators from the documented Pulser convention (ising basis order (r, g) in Pulser; emulator order
    (g, r) = index (0, 1)), written independently of emu_base/jump_lindblad_operators.py:
      relaxation sqrt(G)|g><r| ; dephasing sqrt(2 G)|r><r| ; depolarizing sqrt(p/4) sigma_{x,y,z} ;
      eff_noise sqrt(rate) * op with op given in the (r, g) order."""
    ops = []
    if "relaxation_rate" in nm:
        ops.append(math.sqrt(nm["relaxation_rate"]) * np.array([[0, 1], [0, 0]], dtype=complex))
    if "dephasing_rate" in nm:
        ops.append(math.sqrt(2 * nm["dephasing_rate"]) * np.array([[0, 0], [0, 1]], dtype=complex))
    if "depolarizing_rate" in nm:
        c = math.sqrt(nm["depolarizing_rate"] / 4)
        ops += [c * D.SX, c * D.SY, c * np.array([[1, 0], [0, -1]], dtype=complex)]
    for rate, op in zip(nm.get("eff_noise_rates", []), nm.get("eff_noise_opers", [])):
        m = np.array([[complex(*x) for x in r] for r in op], dtype=complex)
        ops.append(math.sqrt(rate) * m[::-1, ::-1])
    return ops


def run_pulser_case(ctx, case):
    import random as _random
    import pulser
    import torch
    import emu_sv

    nm = dict(case["noise"])
    n = case["n"]
    kw = {k: v for k, v in nm.items() if k.endswith("_rate")}
    if "eff_noise_rates" in nm:
        kw["eff_noise_rates"] = tuple(nm["eff_noise_rates"])
        kw["eff_noise_opers"] = tuple(np.array([[complex(*x) for x in r] for r in op], dtype=complex)
                                      for op in nm["eff_noise_opers"])
    ntraj = case.get("n_traj", 1)
    ckw = {}
    if ntraj > 1:
        kw["amp_sigma"] = 1e-9          # makes pulser hand out several trajectories of (numerically) the same problem
        ckw["n_trajectories"] = ntraj
    rho0 = rand_rho(_random.Random(case["rho0_seed"]), n) if case.get("rho0_seed") is not None else None
    user = None
    if rho0 is not None:
        user = torch.tensor(rho0, dtype=torch.complex128)
        ckw["initial_state"] = emu_sv.DensityMatrix(user, gpu=False)
    captured, per = [], []
    orig = emu_sv.SVBackend._run_from_sequence_data

    def cap(data, config):
        captured.append((data.omega.clone(), data.delta.clone(), data.phi.clone(), data.interaction_matrix,
                         list(data.target_times)))
        r = orig(data, config)
        per.append(r)
        return r

    et_req = [0.0, 0.5, 1.0]
    nruns = 2 if case.get("twice") else 1
    outs = []
    with warnings.catch_warnings():
        warnings.simplefilter("ignore")
        seq = build_sequence(case)
        cfg = emu_sv.SVConfig(dt=case["dt"], observables=_observables(et_req, energy=False), log_level=logging.CRITICAL,
                              gpu=False, krylov_tolerance=case["ktol"], noise_model=pulser.NoiseModel(**kw), **ckw)
        emu_sv.SVBackend._run_from_sequence_data = staticmethod(cap)
        try:
            backend = emu_sv.SVBackend(seq, config=cfg)
            held = getattr(backend._config, "initial_state", None)
            held_before = held.data.clone() if held is not None else None
            user_before = user.clone() if user is not None else None
            for _ in range(nruns):
                with krylov_counted() as kc, impl_captured() as icap:
                    outs.append((backend.run(), kc, icap))
        except Exception as ex:
            ctx.violation(f"emu-sv raised on a valid noisy pulser sequence: {ex!r}",
                          {"case": case, "finding_key": "e2e-raises"})
            return None
        finally:
            emu_sv.SVBackend._run_from_sequence_data = staticmethod(orig)
    om, de, ph, imat, times = captured[0]
    times = [float(t) for t in times]
    nsteps = len(times) - 1
    prob = {"n": n, "times": times, "omega": om.real.numpy(), "delta": de.real.numpy(),
            "phi": ph.real.numpy(), "U": None}
    total = times[-1]
    et = [t for t in et_req if any(abs(x / total - t) < 1e-9 for x in times)]
    ops2 = pulser_jump_ops(nm)
    U_of_t = lambda t: imat(t).numpy()  # noqa: E731
    holders = []
    if held is not None:
        holders = [("the backend's config.initial_state.data", held.data, held_before),
                   ("the user's initial state tensor", user, user_before)]
    worst = None
    for ri, (res, kc, icap) in enumerate(outs):
        label = f" (run() number {ri + 1} on the same backend, {ntraj} trajectories)"
        kc.check(ctx, case, nsteps * ntraj, case["ktol"], completed=True)
        ownership_check(ctx, case, icap, holders if ri == len(outs) - 1 else [], label)
    if len(per) != ntraj * nruns:
        ctx.violation(f"{len(per)} trajectories were emulated for {nruns} run() calls with n_trajectories={ntraj}",
                      {"case": case, "finding_key": "trajectory-count"})
    # every emulated trajectory (all runs) against the reference: state, observables, trace, positivity
    for ti, r in enumerate(per):
        w = compare_run(ctx, dict(case, trajectory=ti), r, prob, ops2, et, case["ktol"] + (1e-8 if ntraj > 1 else 0.0),
                        rho0, U_of_t=U_of_t, has_energy=False)
        if worst is None:
            worst = w
        else:
            for k in ("state", "occ", "corr", "energy", "herm", "trace"):
                worst[k] = max(worst[k], w[k])
            worst["lmin"] = min(worst["lmin"], w["lmin"])
    # the aggregated (averaged) occupations and correlations returned by run()
    ref, _ = reference(prob, ops2, rho0, U_of_t)
    tol = (state_tol(case["ktol"] + (1e-8 if ntraj > 1 else 0.0), nsteps)) * 2 ** n
    for ri, (res, _, _) in enumerate(outs):
        for t in et:
            k = min(range(nsteps + 1), key=lambda i: abs(times[i] / total - t))
            e_occ = float(np.abs(np.array([float(x) for x in res.get_result("occupation", t)]) - occ_dm(ref[k], n)).max())
            e_cor = float(np.abs(np.array(res.get_result("correlation_matrix", t), dtype=float) - corr_dm(ref[k], n)).max())
            if max(e_occ, e_cor) > tol:
                ctx.violation(f"occupation/correlation returned by run() number {ri + 1} (n_trajectories={ntraj}) differ "
                              f"from the Lindblad reference at t={t} by {max(e_occ, e_cor):.3g} (bound {tol:.3g})",
                              {"case": case, "finding_key": "lindblad-depends-on-history" if case.get("history")
                               else "run-average-differs"})
                return worst
    return worst


def corpus_cases():
    p = common.VERIF / "corpus" / "C16.json"
    return json.loads(p.read_text()) if p.exists() else []


def run_case(ctx, case):
    return run_hand_case(ctx, case) if case["kind"] == "hand" else run_pulser_case(ctx, case)


def e2e_stage(ctx, n_hand, n_pulser, n_stiff=0):
    cases = list(corpus_cases())
    cases += [gen_hand_case(ctx.rng, ctx.thorough(), n=(i % 5 + 1 if i < 5 else None)) for i in range(n_hand)]
    cases += [gen_pulser_case(ctx.rng, ctx.thorough()) for _ in range(n_pulser)]
    cases += [gen_stiff_case(ctx.rng, ctx.thorough()) for _ in range(n_stiff)]
    agg = {}
    hist = {}
    stiff = {"cases": 0, "refused": 0, "completed": 0}
    for case in cases:
        w = run_case(ctx, case)
        n = case["prob"]["n"] if case["kind"] == "hand" else case["n"]
        key = f"{case['kind']}/n={n}" + ("/stiff" if case.get("stiff") else "")
        if case.get("stiff"):
            stiff["cases"] += 1
            if w and w.get("refused"):
                stiff["refused"] += 1
                ctx.count_case({"kind": "stiff", "n": n, "outcome": "refused", "dt": case["prob"]["times"][1],
                                "Umax": float(np.max(case["prob"]["U"]))}, nontrivial=True)
                hist[key] = hist.get(key, 0) + 1
                continue
            stiff["completed"] += 1 if w else 0
        hist[key] = hist.get(key, 0) + 1
        info = {"kind": case["kind"], "n": n, "ktol": case["ktol"]}
        if case["kind"] == "hand":
            info.update(stiff=bool(case.get("stiff")))
            info.update(ops=len(case["ops"]), steps=case["prob"]["steps"], rho0=case["rho0_seed"] is not None,
                        time_dep_U=case["time_dep_U"], omega0=case["prob"]["omega"][0])
        else:
            info.update(noise=sorted(case["noise"]), pulses=case["pulses"], dt=case["dt"])
        if w:
            info["state_err"] = w["state"]
            agg["worst_state_err_over_ktol"] = max(agg.get("worst_state_err_over_ktol", 0.0), w["state"] / case["ktol"])
            for k in ("herm", "trace"):
                agg["worst_" + k] = max(agg.get("worst_" + k, 0.0), w[k])
            agg["min_lambda_min"] = min(agg.get("min_lambda_min", 1.0), w["lmin"])
        ctx.count_case(info, nontrivial=True)
    ctx.extra["e2e_distribution"] = hist
    ctx.extra["e2e_worst"] = agg
    ctx.extra["stiff_cases"] = stiff


def ownership_stage(ctx, n_cases):
    """Initial-state ownership on every kind of run: state-vector (noiseless) and density-matrix (noisy) runs, pure,
    mixed and non-normalised initial states; the same config serves two runs."""
    import random as _random
    import torch
    import emu_sv
    from pulser.backend import StateResult

    hist = {}
    for i in range(n_cases):
        rng = ctx.rng
        kind = ["sv-normalised", "sv-non-normalised", "dm-pure", "dm-mixed", "dm-mixed"][i % 5]
        n = rng.choice([1, 2, 3])
        prob = D.random_problem(rng, n, rng.choice([2, 4]), dt=rng.choice([5.0, 10.0]))
        seed = rng.randrange(10 ** 6)
        case = {"kind": "ownership", "init": kind, "prob": _ser_prob(prob), "seed": seed}
        r2 = _random.Random(seed)
        d = 2 ** n
        ops = []
        if kind.startswith("sv"):
            v = np.array([complex(r2.gauss(0, 1), r2.gauss(0, 1)) for _ in range(d)])
            v = v / np.linalg.norm(v) * (1.0 if kind == "sv-normalised" else r2.choice([0.5, 2.0, 3.0]))
            user = torch.tensor(v, dtype=torch.complex128)
            ini = emu_sv.StateVector(user, gpu=False)
        else:
            A = np.array([[complex(r2.gauss(0, 1), r2.gauss(0, 1)) for _ in range(1 if kind == "dm-pure" else d)]
                          for _ in range(d)])
            rho = A @ A.conj().T
            rho = rho / np.trace(rho)
            user = torch.tensor(rho, dtype=torch.complex128)
            ini = emu_sv.DensityMatrix(user, gpu=False)
            ops = [torch.tensor(np.array([[0, 0.8], [0, 0]], dtype=complex))]
        before = user.clone()
        finals = []
        ok = True
        with warnings.catch_warnings():
            warnings.simplefilter("ignore")
            cfg = emu_sv.SVConfig(observables=[StateResult(evaluation_times=[1.0])], log_level=logging.CRITICAL,
                                  gpu=False, initial_state=ini)
            data = D.to_sequence_data(prob, lindblad_ops=ops)
            for rep in range(2):
                try:
                    with impl_captured() as cap:
                        res = emu_sv.SVBackend._run_from_sequence_data(data, cfg)
                except Exception as ex:
                    ctx.violation(f"emu-sv raised on a valid run with an initial state ({kind}): {ex!r}",
                                  {"case": case, "finding_key": "e2e-raises"})
                    ok = False
                    break
                finals.append(res.get_result("state", 1.0).data.clone())
                ok &= ownership_check(ctx, case, cap, [("config.initial_state.data", cfg.initial_state.data, before),
                                                       ("the user's initial state tensor", user, before)],
                                      f" (run {rep + 1}, {kind})")
        if len(finals) == 2 and float((finals[0] - finals[1]).abs().max()) > 1e-12:
            ctx.violation(f"two runs with the same config and initial state ({kind}) end in different states "
                          f"(max difference {float((finals[0] - finals[1]).abs().max()):.3g})",
                          {"case": case, "finding_key": "repeat-run-differs"})
            ok = False
        hist[kind] = hist.get(kind, 0) + 1
        ctx.count_case({"kind": "ownership", "init": kind, "n": n, "ok": ok,
                        "purity": float(np.real(np.trace(rho @ rho))) if not kind.startswith("sv") else None},
                       nontrivial=kind in ("sv-non-normalised", "dm-mixed"))
    ctx.extra["ownership_cases"] = hist


# =====================================================================================================
# precision stream: generic (non-dyadic) complex128 data through the operator-level entry points against an
# independent numpy complex128 reference at 1e-12 relative to the data scale, plus a dtype oracle.  (The exact dyadic
# correspondence cannot see a float32/complex64 round trip: small integers survive it.)
PREC_TOL = 1e-12


def gen_precision_case(rng):
    n = rng.choice([1, 2, 2, 3, 3, 4])
    g = lambda s=1.0: [rng.gauss(0, s), rng.gauss(0, s)]  # noqa: E731
    d = 2 ** n
    U = [[0.0] * n for _ in range(n)]
    for i in range(n):
        for j in range(i + 1, n):
            U[i][j] = U[j][i] = rng.uniform(0.0, 9.0)
    return {"kind": "precision", "n": n, "omega": [rng.uniform(0.1, 12.0) for _ in range(n)],
            "delta": [rng.uniform(-9.0, 9.0) for _ in range(n)],
            "phi": [0.0] * n if rng.random() < 0.3 else [rng.uniform(-3.0, 3.0) for _ in range(n)],
            "U": U, "ops": [[[g(0.8), g(0.8)], [g(0.8), g(0.8)]] if rng.random() < 0.75 else
                            [[g(0.8), [0.0, 0.0]], [[0.0, 0.0], g(0.8)]]          # complex diagonal operator
                            for _ in range(rng.randint(1, 4))],
            "rho": [[g() for _ in range(d)] for _ in range(d)], "hermitian": rng.random() < 0.7,
            "dt": rng.uniform(0.001, 0.02), "ktol": 1e-10}


def precision_case(ctx, case):
    import torch
    import emu_sv.lindblad_operator as lo
    import emu_sv.time_evolution as te
    from emu_base import compute_noise_from_lindbladians

    n = case["n"]
    d = 2 ** n
    om, de, ph = (np.array(case[k], dtype=float) for k in ("omega", "delta", "phi"))
    U = np.array(case["U"], dtype=float)
    ops = _ops_to_np(case["ops"])
    rho = np.array([[complex(*x) for x in r] for r in case["rho"]], dtype=complex)
    if case["hermitian"]:
        rho = rho + rho.conj().T
    # independent reference (numpy, complex128)
    H = D.dense_H(om, de, ph, U)
    Js = [D._embed(L, q, n) for q in range(n) for L in ops]
    A = sum((J.conj().T @ J for J in Js), np.zeros((d, d), complex))
    Heff = H - 0.5j * A
    X = Heff @ rho
    G_ref = X - X.conj().T + 1j * sum((J @ rho @ J.conj().T for J in Js), np.zeros((d, d), complex))
    S_ref = -0.5j * sum((L.conj().T @ L for L in ops), np.zeros((2, 2), complex))
    # the real code
    t = lambda a, dt_=torch.complex128: torch.tensor(a, dtype=dt_)  # noqa: E731
    tops = [t(L) for L in ops]
    trho = t(rho)
    lind = lo.RydbergLindbladian(omegas=t(om), deltas=t(de), phis=t(ph), pulser_lindblads=tops,
                                 interaction_matrix=t(U, torch.float64), device="cpu")
    results = {}
    results["L @ rho"] = (lind @ trho, G_ref)
    results["compute_noise_from_lindbladians"] = (compute_noise_from_lindbladians(tops), S_ref)
    results["h_eff(rho, noise)"] = (lind.h_eff(trho, compute_noise_from_lindbladians(tops)), X)
    results["h_eff(rho)"] = (lind.h_eff(trho), H @ rho)
    rec = {}

    def fake_krylov(op, v, *a, **kw):
        rec["out"] = op(v)
        return rec["out"]

    saved = te.krylov_exp
    te.krylov_exp = fake_krylov
    try:
        te.EvolveDensityMatrix.apply(case["dt"], t(om), t(de), t(ph), t(U, torch.float64), trho.clone(), case["ktol"], tops)
    finally:
        te.krylov_exp = saved
    if "out" in rec:
        results["EvolveDensityMatrix.apply op(rho)"] = (rec["out"], -1j * case["dt"] * G_ref)
    worst = 0.0
    for name, (got, ref) in results.items():
        if got.dtype != torch.complex128:
            ctx.violation(f"{name} returns dtype {got.dtype}, not complex128",
                          {"case": case, "finding_key": "lindblad-lost-precision"})
            return None
        scale = max(1.0, float(np.abs(ref).max()))
        err = float(np.abs(got.numpy() - ref).max()) / scale
        worst = max(worst, err)
        if err > PREC_TOL:
            ctx.violation(f"{name} differs from the complex128 reference by {err:.3g} relative to the data scale "
                          f"(bound {PREC_TOL:g}): double precision is lost on the way",
                          {"case": case, "entry_point": name, "finding_key": "lindblad-lost-precision"})
            return worst
    return worst


def precision_stage(ctx, n_cases):
    worst = 0.0
    for _ in range(n_cases):
        c = gen_precision_case(ctx.rng)
        w = precision_case(ctx, c)
        ctx.count_case({"kind": "precision", "n": c["n"], "ops": len(c["ops"]), "hermitian": c["hermitian"],
                        "phases": any(c["phi"]), "err": w}, nontrivial=True)
        worst = max(worst, w or 0.0)
    ctx.extra["precision_stream_worst_relative_error"] = worst


# =====================================================================================================
# history stream: a run must not depend on what the process evolved before.  Sequences of 2-4 density-matrix
# evolutions in ONE process that share the drive (constant pulse, delay only, plateaus at the start and the end) and
# differ in the noise; every run against the dense reference, in both orders; and the same at the step level.
NOISE_MENU = ["relaxation", "dephasing", "depolarizing", "eff", "eff2", "weak-relaxation", "pumping"]


def history_ops(rng, kind):
    z = [0.0, 0.0]
    r = lambda lo, hi: rng.uniform(lo, hi)  # noqa: E731
    if kind == "relaxation":
        return [[[z, [math.sqrt(r(0.5, 3.0)), 0.0]], [z, z]]]
    if kind == "weak-relaxation":
        return [[[z, [math.sqrt(r(0.01, 0.05)), 0.0]], [z, z]]]
    if kind == "pumping":
        return [[[z, z], [[math.sqrt(r(0.5, 3.0)), 0.0], z]]]
    if kind == "dephasing":
        c = math.sqrt(r(0.5, 3.0) / 2)
        return [[[[c, 0.0], z], [z, [-c, 0.0]]]]
    if kind == "depolarizing":
        c = math.sqrt(r(0.5, 3.0) / 4)
        return [[[z, [c, 0.0]], [[c, 0.0], z]], [[z, [0.0, -c]], [[0.0, c], z]], [[[c, 0.0], z], [z, [-c, 0.0]]]]
    g = lambda: [rng.gauss(0, 0.8), rng.gauss(0, 0.8)]  # noqa: E731
    return [[[g(), g()], [g(), g()]] for _ in range(1 if kind == "eff" else 2)]


def gen_history_family(rng, thorough):
    n = rng.choice([1, 2, 2, 3])
    steps = rng.choice([2, 3, 4])
    shape = rng.choice(["constant", "constant", "delay", "plateau"])
    dt = rng.choice([5.0, 10.0, 20.0])
    om0, de0, ph0 = rng.uniform(2.0, 9.0), rng.uniform(-6.0, 6.0), rng.choice([0.0, rng.uniform(0.2, 3.0)])
    omega = np.full((steps, n), om0)
    delta = np.full((steps, n), de0)
    phi = np.full((steps, n), ph0)
    if shape == "delay":
        omega[:], delta[:], phi[:] = 0.0, 0.0, 0.0
    if shape == "plateau" and steps >= 3:          # equal first and last step, something else in between
        omega[1:-1] = om0 * 0.37
        delta[1:-1] = de0 + 1.3
    pos = [(4.0 * i, 1.5 * (i % 2)) for i in range(n)]
    U = np.zeros((n, n))
    for i in range(n):
        for j in range(i + 1, n):
            U[i, j] = U[j, i] = 5.0 * 6 ** 0 / (math.dist(pos[i], pos[j]) / 4.0) ** 6
    prob = dict(n=n, steps=steps, times=[dt * k for k in range(steps + 1)], omega=omega, delta=delta, phi=phi, U=U, xy=False)
    kinds = rng.sample(NOISE_MENU, rng.choice([2, 3, 4]))
    rho0_seed = rng.randrange(10 ** 6) if (shape == "delay" or rng.random() < 0.5) else None
    return {"kind": "history", "shape": shape, "prob": _ser_prob(prob), "noise_kinds": kinds,
            "ops": [history_ops(rng, k) for k in kinds], "rho0_seed": rho0_seed, "ktol": 1e-10}


def history_hand(ctx, fam):
    """the same SequenceData drive, different jump operators, through SVBackend._run_from_sequence_data, in the given
    order and reversed"""
    worst = 0.0
    order = list(range(len(fam["ops"])))
    for label, seq in (("given order", order), ("reversed", order[::-1])):
        for pos, i in enumerate(seq):
            case = {"kind": "hand", "prob": fam["prob"], "ops": fam["ops"][i], "ktol": fam["ktol"],
                    "rho0_seed": fam["rho0_seed"], "time_dep_U": False,
                    "history": {"position": pos, "order": label + ": " + " -> ".join(fam["noise_kinds"][j] for j in seq),
                                "family": {k: fam[k] for k in ("shape", "noise_kinds", "ops")}}}
            w = run_hand_case(ctx, case)
            if w and "state" in w:
                worst = max(worst, w["state"])
    return worst


def history_step(ctx, fam):
    """step level: consecutive EvolveDensityMatrix.apply calls with equal drive and different jump operators (the very
    same tensors and equal copies), each against expm of the dense Liouvillian of ITS OWN operators"""
    import random as _random
    import scipy.linalg as sla
    import torch
    import emu_sv.time_evolution as te

    prob = _deser_prob(fam["prob"])
    n = prob["n"]
    d = 2 ** n
    rho0 = rand_rho(_random.Random(fam["rho0_seed"] or 1), n)
    t = lambda a, dt_=torch.complex128: torch.tensor(np.asarray(a), dtype=dt_)  # noqa: E731
    om, de, ph, U = t(prob["omega"][0]), t(prob["delta"][0]), t(prob["phi"][0]), t(prob["U"], torch.float64)
    dt = (prob["times"][1] - prob["times"][0]) * 1e-3
    H = D.dense_H(prob["omega"][0], prob["delta"][0], prob["phi"][0], prob["U"])
    worst = 0.0
    seq = list(range(len(fam["ops"]))) + list(range(len(fam["ops"])))[::-1]
    for pos, i in enumerate(seq):
        ops2 = _ops_to_np(fam["ops"][i])
        Js = [D._embed(L, q, n) for q in range(n) for L in ops2]
        ref = (sla.expm(liouvillian(H, Js) * dt) @ rho0.reshape(-1)).reshape(d, d)
        same_objects = pos % 2 == 0
        args = (om, de, ph, U) if same_objects else (om.clone(), de.clone(), ph.clone(), U.clone())
        Ls = [t(L) for L in ops2]
        out, ham = te.EvolveDensityMatrix.apply(dt, *args, t(rho0), fam["ktol"], Ls)
        err = float(np.abs(out.numpy() - ref).max())
        worst = max(worst, err)
        held = list(getattr(ham, "pulser_lindblads", []))
        own = len(held) == len(Ls) and all(a is b for a, b in zip(held, Ls))
        if err > state_tol(fam["ktol"], 1) or not own:
            ctx.violation(
                f"step {pos + 1} of consecutive EvolveDensityMatrix.apply calls with equal drive and jump operators "
                f"{fam['noise_kinds'][i]} (after {[fam['noise_kinds'][j] for j in seq[:pos]]}) differs from "
                f"expm(L dt) rho by {err:.3g}; returned generator carries this call's operators: {own}",
                {"case": dict(fam, step_sequence=seq, failing_position=pos),
                 "finding_key": "lindblad-depends-on-history"})
            break
    return worst


def gen_history_pulser(rng):
    base = gen_pulser_case(rng, False)
    base["pulses"] = [{"dur": rng.choice([40, 60]), "amp": round(rng.uniform(2.0, 6.0), 2),
                       "det": round(rng.uniform(-3.0, 3.0), 2), "phase": 0.0, "local": False}]
    base.update(n_traj=1, twice=False, rho0_seed=rng.randrange(10 ** 6) if rng.random() < 0.5 else None, ktol=1e-10)
    menus = [{"relaxation_rate": round(rng.uniform(0.3, 1.5), 3)}, {"dephasing_rate": round(rng.uniform(0.3, 1.5), 3)},
             {"depolarizing_rate": round(rng.uniform(0.3, 1.0), 3)},
             {"eff_noise_rates": [round(rng.uniform(0.3, 1.5), 3)],
              "eff_noise_opers": [[[[round(rng.gauss(0, 0.6), 3), round(rng.gauss(0, 0.6), 3)] for _ in range(2)]
                                   for _ in range(2)]]},
             {"relaxation_rate": round(rng.uniform(1.6, 3.0), 3)}]
    pick = rng.sample(range(len(menus)), rng.choice([2, 3]))
    return {"kind": "history-pulser", "base": base, "noises": [menus[i] for i in pick]}


def history_pulser(ctx, fam):
    worst = 0.0
    order = list(range(len(fam["noises"])))
    for label, seq in (("given order", order), ("reversed", order[::-1])):
        for pos, i in enumerate(seq):
            case = dict(fam["base"], noise=fam["noises"][i],
                        history={"position": pos, "order": label + ": " + " -> ".join(
                            "+".join(sorted(fam["noises"][j])) for j in seq)})
            w = run_pulser_case(ctx, case)
            if w:
                worst = max(worst, w["state"])
    return worst


def history_stage(ctx, n_hand, n_pulser):
    worst = {"hand": 0.0, "step": 0.0, "pulser": 0.0}
    for _ in range(n_hand):
        fam = gen_history_family(ctx.rng, ctx.thorough())
        worst["hand"] = max(worst["hand"], history_hand(ctx, fam))
        worst["step"] = max(worst["step"], history_step(ctx, fam))
        ctx.count_case({"kind": "history", "shape": fam["shape"], "n": fam["prob"]["n"], "noise": fam["noise_kinds"],
                        "rho0": fam["rho0_seed"] is not None}, nontrivial=True)
    for _ in range(n_pulser):
        fam = gen_history_pulser(ctx.rng)
        worst["pulser"] = max(worst["pulser"], history_pulser(ctx, fam))
        ctx.count_case({"kind": "history-pulser", "n": fam["base"]["n"], "noises": [sorted(x) for x in fam["noises"]],
                        "pulses": fam["base"]["pulses"]}, nontrivial=True)
    ctx.extra["history_stream_worst_state_error"] = worst


def run(ctx):
    common.coq_make(["Model/SvLindRun.vo"])
    common.standard_proof_stage(ctx, "C16", ["Properties/C16.vo"])
    op_stage(ctx, ctx.n(24, 500))
    run_stage(ctx, ctx.n(30, 600))
    source_shape_stage(ctx)
    precision_stage(ctx, ctx.n(40, 400))
    ownership_stage(ctx, ctx.n(15, 150))
    history_stage(ctx, ctx.n(8, 80), ctx.n(3, 25))
    e2e_stage(ctx, ctx.n(22, 320), ctx.n(12, 120), ctx.n(8, 60))
    ctx.rule = ("(a) operator cases N=1..3(4): integer/half-integer drives, Gaussian-integer jump operators and "
                "density matrices (75% Hermitian), dyadic dt, real and prescribed-phase paths; non-trivial = at least "
                "one jump operator. (b) run-loop cases: 1-7 steps, integer/fractional/irregular time grids, 1/6 "
                "malformed (more rows than intervals). (c) end-to-end: hand-built SequenceData (1-5 atoms, 1-4 random "
                "2x2 jump operators incl. relaxation/pumping/dephasing/complex, local drives and phases, irregular "
                "grids, random mixed initial states, switched interaction matrix, krylov_tolerance 1e-10..1e-6) and "
                "real pulser sequences with NoiseModel (relaxation, dephasing, depolarizing, effective operators) "
                "against the dense Liouvillian reference at every evaluation time; during every such run krylov_exp is "
                "rebound to count: exactly one wrapper call per step, no direct krylov_exp_impl call. (d) stiff cases "
                "(4-5 atoms, interactions x3..x300, steps of 100-200 ns, tolerance 1e-10, weak or strong noise): every "
                "run either refuses (RecursionError, counted in stiff_cases) or meets the same accuracy and "
                "physicality bounds. (e) ownership of the initial state: after every run (state-vector and density-matrix, "
                "pure / mixed full-rank / non-normalised initial states) config.initial_state and the user's tensor are "
                "bit-identical to before and share no storage with the evolving state; hand-built cases run twice with "
                "the same config, pulser cases also call run() twice on one backend and use n_trajectories=3 with "
                "amp_sigma=1e-9; every emulated trajectory and the averaged observables are compared with the reference. "
                "(f) history: sequences of 2-4 runs in one process sharing the drive (constant, delay, plateaus) and "
                "differing in the jump operators / NoiseModel, both orders, through _run_from_sequence_data, through "
                "SVBackend(seq).run() and through consecutive EvolveDensityMatrix.apply calls, each against the reference.")
    ctx.trusted_base += ["hand-written Model/SvLindRun.v (validated by the two correspondences on every run) on top of "
                         "Model/SvHam.v lind_matmul (C06's model, re-validated here through dm_op)",
                         "dense reference: numpy kron + scipy.linalg.expm; drive samples of pulser runs are taken from "
                         "the SequenceData the backend built (sampling is C20-C23's subject), the jump operators are "
                         "rebuilt independently from the NoiseModel"]
    ctx.assumptions += ["accuracy versus krylov_tolerance is NOT proved: validated with tolerance "
                        "1e-9 + 20*nsteps*krylov_tolerance per entry of rho",
                        "positivity of rho(t) is NOT proved: validated lambda_min >= -(1e-9 + 2*state tolerance)",
                        "agreement with Pulser's own master-equation solver cannot be checked (pulser-simulation/qutip not "
                        "installed); the reference follows the documented Pulser collapse-operator convention",
                        "theorems are over exact rings; the trace/Hermiticity theorems need real drive data (omega, "
                        "delta, cos/sin phi, U real), which is what the samplers produce"]
    ctx.extra["not_proved"] = ["positivity of rho(t)", "accuracy of the Arnoldi exponential vs krylov_tolerance",
                               "exact trace preservation by a truncated Krylov space (holds up to the neglected tail)"]


def replay(ctx, path):
    rp = json.load(open(path))
    case = rp["case"]
    if case.get("kind") == "precision":
        print("replay worst relative error:", precision_case(ctx, case))
    if case.get("kind") == "history":
        print("replay: hand", history_hand(ctx, case), "step", history_step(ctx, case))
    if case.get("kind") == "history-pulser":
        print("replay:", history_pulser(ctx, case))
    if case.get("kind") in ("hand", "pulser"):
        fam = (case.get("history") or {}).get("family")
        if fam:      # a run that failed as part of a sequence: replay the whole sequence
            full = {"kind": "history", "prob": case["prob"], "rho0_seed": case["rho0_seed"], "ktol": case["ktol"], **fam}
            print("replay of the whole sequence: hand", history_hand(ctx, full), "step", history_step(ctx, full))
        w = run_case(ctx, case)
        print("replay worst deviations:", w)


META = {
    "category": "proof",
    "technique": ("Coq proofs over an abstract ring with involution (all dimensions) + exact/bit-exact model-code "
                  "correspondences + dense Liouvillian falsifier"),
    "text": ("Proved for every dimension and every coefficient ring with involution: the Lindblad generator in the form "
             "RydbergLindbladian.__matmul__ computes (C06) is trace-free for every rho whenever H_eff's anti-Hermitian "
             "part is -i sum L^dagger L (discharged for the code's H_eff for every N), it maps Hermitian matrices to "
             "Hermitian ones (i.e. the code's i*generator is anti-Hermitian), any linear functional annihilated by the "
             "operator is constant along all polynomial (Krylov/Taylor) combinations, and the run loop applies the "
             "stepper to rows 0..nsteps-1 in order with dt=(t[k+1]-t[k])*0.001 and U(t[k]). Tied to the code exactly. "
             "Accuracy versus tolerance and positivity are validated, not proved."),
    "note": ("Trusted: Coq kernel+VM, the hand-written models (validated on every run), scipy expm reference. "
             "pulser-simulation is not installed, so 'agrees with Pulser's master-equation reference' is checked against "
             "an independent implementation of the documented convention."),
}
