"""C14 — observables are recorded exactly at their requested times (DESIGN.md §4 C14)."""
import json

from vlib import common
from props import _timegrid as tg

KEY_F07 = "recorded-at-unrequested-default-time"
KEY_F08 = "near-duplicate-grid-points"
KEY_GATE = "recorded-within-gate-tolerance"  # open known finding: merge tolerance 1e-12 vs gate tolerance 1e-10
MATCH_TOL = 1e-9  # a recorded relative time counts as the requested one within this (>= 1e6 ulp)


def corpus_cases():
    p = common.VERIF / "corpus" / "C14.json"
    return json.loads(p.read_text()) if p.exists() else []


# ---- property oracle on the REAL results (falsifier) -------------------------------------------
def property_check(ctx, case, r):
    """Each observable exactly once per requested time, at no other time, increasing, computed
    from the state after exactly the steps that end at that time; statistics once per step."""
    if case.get("kind", "").startswith("malformed") or r["code"] >= 100:
        return
    base = {"case": case, "code": r["code"], "exc": r["exc"]}
    if r["code"] == 20:
        tt = r["tt"]
        k = min(range(len(tt) - 1), key=lambda i: tt[i + 1] - tt[i])
        return ctx.violation(
            f"run raised ValueError('Evaluation times must be unique'): target times {tt[k]!r} and {tt[k + 1]!r} "
            "are binary64 near-duplicates", dict(base, pair=[tt[k], tt[k + 1]], finding_key=KEY_F08))
    if r["code"] != 0:
        return ctx.violation(f"run raised (code {r['code']}) on a well-formed configuration: {r['exc']}",
                             dict(base, finding_key=f"run-raises-{r['code']}"))
    tt = r["tt"]
    T = tt[-1]
    rel = [t / T for t in tt]
    # strong = the input satisfies the premise of C14_recorded_exactly_at_requested_times (no two distinct
    # candidate times 0.5e-12..4e-9 apart): exactly once per requested time and nothing else.
    # weak = clusters inside that window: the count within 1e-9 is ambiguous there, everything else is checked;
    # in particular a value at a grid time 1e-12..1e-10 off a requested time is the finding KEY_GATE.
    mode = tg.premise_mode(case, T)
    near_tol = tg.TOLU * 1.01 + 1e-15
    for j, rec in enumerate(r["recs"]):
        times = [t for t, _ in rec]
        req = tg.requested(case, j)
        if req is None:  # default "Full": every grid time
            req = rel
        info = dict(base, observable=j, requested=req, recorded=times, mode=mode)
        if any(not (a < b) for a, b in zip(times, times[1:])):
            return ctx.violation(f"observable {j}: recorded times are not increasing",
                                 dict(info, finding_key="recorded-order"))
        for q in req:  # both modes: a value within the merge tolerance of every requested time
            if not any(abs(t - q) <= near_tol for t in times):
                return ctx.violation(f"observable {j}: no value recorded within 1e-12 of the requested time {q!r}",
                                     dict(info, finding_key="requested-not-recorded"))
        if mode == "strong":
            for q in req:
                n = sum(1 for t in times if abs(t - q) <= MATCH_TOL)
                if n != 1:
                    return ctx.violation(f"observable {j}: requested time {q} recorded {n} times",
                                         dict(info, finding_key="requested-not-once"))
        # a value recorded at a grid time that is not (within the merge tolerance) a time requested for
        # this observable: the observable was recorded at a time it was not asked for
        extra = [t for t in times if not any(abs(t - q) <= near_tol for q in req)]
        if extra:
            gate_tol = tg.TOLB * 1.01
            if all(any(abs(t - q) <= gate_tol for q in req) for t in extra):
                # the extra grid time lies 1e-12..1e-10 from a requested time: not merged with it by the
                # adapter (1e-12) but accepted by the backends' _is_evaluation_time (1e-10)
                near = [(t, min(req, key=lambda q: abs(t - q))) for t in extra]
                return ctx.violation(
                    f"observable {j} (requested {req}) is also recorded at {extra}: grid times that are not "
                    f"requested for it but lie within the gate tolerance 1e-10 of a requested time "
                    f"(distances {[abs(t - q) for t, q in near]})",
                    dict(info, extra=extra, finding_key=KEY_GATE))
            dfl = [] if case["dflt"] == "Full" else case["dflt"]
            from_default = case["dflt"] == "Full" or all(any(abs(t - d) <= MATCH_TOL for d in dfl) for t in extra)
            key = KEY_F07 if (case["obs"][j] is not None and from_default) else "recorded-unrequested"
            return ctx.violation(
                f"observable {j} with evaluation times {req} is also recorded at {extra}"
                + (" (default evaluation times of the config)" if key == KEY_F07 else ""),
                dict(info, extra=extra, finding_key=key))
        if case["backend"] != "mps-dmrg":
            for t, k in rec:
                if not (0 <= k < len(tt)) or rel[k] != t:
                    return ctx.violation(
                        f"observable {j}: value stored for time {t} was computed after {k} solver steps, "
                        f"i.e. at time {rel[k] if 0 <= k < len(rel) else None}",
                        dict(info, finding_key="value-from-wrong-state"))
    if r["stat"] != rel[1:]:
        return ctx.violation("statistics are not recorded exactly once per step",
                             dict(base, stat_head=r["stat"][:6], finding_key="statistics-times"))


def canon_model(v):
    code, (recs, (stat, steps)) = v
    return {"code": code,
            "recs": [[(float(t).hex(), int(k)) for t, k in rec] for rec in recs],
            "stat": [float(t).hex() for t, _ in stat],
            "steps": [float(d).hex() for _, d in steps]}


def canon_real(case, r):
    scale = 0.001 if case["backend"] == "sv" else 1.0
    code = r["code"]
    out = {"code": code, "recs": [], "stat": [], "steps": []}
    if code == 0:
        out["recs"] = [[(t.hex(), k) for t, k in rec] for rec in r["recs"]]
        out["stat"] = [t.hex() for t in r["stat"]]
        out["steps"] = [d.hex() for d in r["steps"]]
    return out, scale


def gen_malformed(rng, backend):
    """Configurations pulser accepts but that are not sensible: times within 1e-10 of each other
    across observables, evaluation time 1e-13 off a grid point."""
    c = tg.gen_case(rng, max_points=80, max_dur=2000, backend=backend, min_dur=16)
    t = rng.choice([0.25, 0.5, 0.3, 1.0 / 3.0])
    eps = rng.choice([3e-13, 5e-12, 4e-11, 2e-10, 1e-9])
    c["obs"] = [[t], [t + eps]] + ([None] if rng.random() < 0.5 else [])
    c["kind"] = "malformed:close-times"
    return c


# ---------------------------------------------------------------------------------------------
def run(ctx):
    from vlib.coqparse import parse

    rc, out = common.coq_make(["Model/TimeGrid.vo"])
    ctx.obligation("build:Model/TimeGrid.vo", rc == 0, out, kind="build")
    common.standard_proof_stage(ctx, "C14", ["Properties/C14.vo"])
    model_ok = rc == 0

    cases = [dict(c) for c in corpus_cases()]
    for c in cases:
        c.setdefault("kind", "corpus")
    backends = ["sv", "mps", "sv", "mps-dmrg", "sv", "mps"]
    nw, nm = ctx.n(330, 6000), ctx.n(40, 500)
    for i in range(nw):
        b = backends[i % len(backends)]
        c = tg.gen_case(ctx.rng, max_points={"sv": 250, "mps": 100, "mps-dmrg": 25}[b], max_dur=4000,
                        backend=b, min_dur=2, near=0.12)
        c["kind"] = "well-formed"
        if ctx.rng.random() < 0.15 and c["dur"] >= 16:
            c["dur"] = (c["dur"] // 4) * 4
            c["with_modulation"] = True
        cases.append(c)
    for i in range(ctx.n(180, 3000)):  # clusters: requested times 1e-15..1e-7 (relative) off another candidate
        b = backends[i % len(backends)]
        c = tg.gen_cluster_case(ctx.rng, max_points={"sv": 250, "mps": 100, "mps-dmrg": 25}[b], max_dur=4000,
                                backend=b, min_dur=2)
        c["kind"] = "cluster"
        cases.append(c)
    for i in range(nm):
        cases.append(gen_malformed(ctx.rng, backends[i % 3]))

    reals = []
    for c in cases:
        r = tg.run_backend(c)
        reals.append(r)
        property_check(ctx, c, r)

    corr_ok, detail = model_ok, "" if model_ok else "model did not build"
    hist = {}
    if model_ok:
        try:
            ev = common.CoqEval("C14", tg.HEADER)
            idx = []
            for c, r in zip(cases, reals):
                if r["code"] >= 100 or not r["tt"]:
                    continue  # rejected by pulser's constructors / by the adapter: not a run
                if r["nsteps"] == len(r["tt"]) - 1:
                    # adapter + backend composed: the model builds its own grid from (duration, dt, config)
                    ev.add(tg.model_pipeline_expr(c, r["tt"][-1]))
                else:  # rows of drive samples != intervals (never on the current tree): model of the loop alone
                    ev.add(tg.model_run_expr(dict(c, nsteps=r["nsteps"]), r["tt"]))
                idx.append((c, r))
            outs = ev.run()
            for (c, r), o in zip(idx, outs):
                m = canon_model(parse(o))
                real, scale = canon_real(c, r)
                if scale != 1.0:
                    m["steps"] = [(float.fromhex(d) * scale).hex() for d in m["steps"]]
                if m["code"] != 0:
                    m["recs"], m["stat"], m["steps"] = [], [], []
                if c["backend"] == "mps-dmrg":  # no dt-steps in DMRG: only the recording times are compared
                    m["steps"], real["steps"] = [], []
                    m["recs"] = [[(t, 0) for t, _ in rec] for rec in m["recs"]]
                    real["recs"] = [[(t, 0) for t, _ in rec] for rec in real["recs"]]
                k = (c["kind"].split(":")[0] + "/" + c["backend"], r["code"])
                hist[k] = hist.get(k, 0) + 1
                nrec = sum(len(x) for x in r["recs"])
                ctx.count_case({k2: c[k2] for k2 in ("kind", "backend", "dur", "dt", "obs", "dflt")} |
                               {"n": len(r["tt"]), "recorded": nrec, "code": r["code"]}, nrec >= 2)
                if m != real and corr_ok:
                    corr_ok = False
                    detail = f"case={c} real={str(real)[:500]} model={str(m)[:500]}"
                    ctx.extra["first_disagreement"] = {"case": c, "real": real, "model": m}
        except (common.CoqEvalError, ValueError) as ex:
            corr_ok, detail = False, str(ex)
    ctx.obligation("correspondence:Model.TimeGrid.run_config (adapter grid + run)==PulserData + emu-sv/emu-mps/DMRG runs "
                   "(recorded (time,step) per observable, statistics times, solver steps; bit-exact)",
                   corr_ok, detail, kind="correspondence")
    ctx.extra["input_distribution"] = {f"{k[0]}/code{k[1]}": v for k, v in sorted(hist.items())}
    ctx.rule = ("real pulser sequences (2 atoms, constant pulse, optionally modulated) of 2..4000 ns, dt from 0.1 to "
                "above the duration, 0-3 probe observables with own times or the config default (decimal fractions "
                "k*dt/T, rationals, 0, 1, random; default 'Full'; default times planted within 0.2..3 ns of own "
                "times; clusters: a requested time at relative distance log-uniform in [1e-15, 1e-7] from a multiple "
                "of dt / a time of the same or another observable / of the default, anchored anywhere in [0,1]), run on emu-sv (stepper stubbed), emu-mps TDVP and DMRG (real 2-atom kernels); malformed "
                "stream: times of different observables 3e-13..1e-9 apart; non-trivial = at least 2 values recorded")
    ctx.trusted_base += ["hand model coq/Model/TimeGrid.v of the backends' recording logic and of pulser-core 1.9.1's "
                         "Observable.__call__/_validate_eval_times/Results._store_raw (validated by this "
                         "correspondence on every run)",
                         "Coq PrimFloat = IEEE binary64 as in CPython/numpy"]
    ctx.assumptions += [
        "theorems are in exact real arithmetic with an explicit separation premise on the grid",
        "a recorded time counts as the requested one within 1e-9 (relative): (t*T)/T need not round-trip",
        "every input: each requested time has a value within 1e-12, and no value is recorded at a grid time "
        "farther than 1.01e-12 from every time requested for that observable; a value at a grid time 1e-12..1e-10 "
        "from a requested time (merge tolerance vs gate tolerance) is reported under the key "
        "recorded-within-gate-tolerance (open known finding; excluded by the premise of "
        "C14_recorded_exactly_at_requested_times); the count 'exactly once within 1e-9' is checked when no two "
        "distinct candidate times are 0.5e-12..4e-9 apart",
        "the value's state is identified by the number of solver steps completed (probe observable); what each "
        "observable computes from that state is C13",
        "noisy emu-mps runs record in timestep_complete exactly like the noiseless ones (same code path); jump "
        "sub-steps are C18"]


def replay(ctx, path):
    rp = json.loads(open(path).read())
    c = rp["case"]
    r = tg.run_backend(c)
    print("replay: code", r["code"], r["exc"])
    for j, rec in enumerate(r["recs"]):
        print(f"  observable {j}: requested {tg.requested(c, j)} recorded {[t for t, _ in rec]}")
    property_check(ctx, c, r)


META = {
    "category": "proof",
    "technique": "Coq proof (R instance of a hand model of the recording logic of both backends and of pulser's "
                 "time gate / store) + bit-exact PrimFloat correspondence with real emu-sv / emu-mps / DMRG runs",
    "text": ("Proved for all durations, dt, observable lists (adapter + backend composed, the grid separation is "
             "derived from the C21 grid theorem, no premise): the pipeline never trips pulser's store/uniqueness "
             "checks; an observable is recorded at grid index k iff both time gates accept t_k, with the value "
             "computed after exactly k solver steps, in strictly increasing time order; statistics once per step. "
             "Under an input-sanity premise (distinct candidate times are not within 2e-10 relative unless within "
             "1e-12): every stored time is within 1e-12 of a time requested for that observable, every requested "
             "time has exactly one stored value. Former findings F-07/F-08 are float regressions that now pass. "
             "Validated only: model == code (bit-exact on generated runs)."),
    "note": ("Trusted: Coq kernel+VM, stdlib real-number axioms, the hand model (tied by correspondence), "
             "PrimFloat==binary64, pulser-core 1.9.1. What each observable computes from the state is C13."),
}
