"""C20 — PCHIP interpolation is exact at knots, C1 and shape-preserving (DESIGN.md §4 C20).

Model: coq/Model/Pchip.v (hand-written over `Arith A`, follows emu_base/math/pchip_torch.py operator by
operator).  Tie: bit-exact correspondence (every coefficient of every piece and every query value) between the
PrimFloat instance of the model and the real `PCHIP1D`, on generated and malformed inputs, every run.
Theorems: coq/Properties/C20.v (R instance of the same term).  Falsifier: property oracle on the real code
(knot exactness, C1, shape preservation per interval, SciPy PchipInterpolator as independent reference)."""
import json
import math

from vlib import common

SRC = common.REPO / "emu_base/math/pchip_torch.py"
HEADER = """From Coq Require Import ZArith List PrimFloat.
Import ListNotations.
From EV Require Import Base.Arith Model.Pchip.
Open Scope float_scope."""
F11 = "pchip-flat-end-overshoot"


def L(v):
    return "[" + "; ".join(common.float_lit(float(a)) for a in v) + "]"


# ---- real code ---------------------------------------------------------------------------------
def impl_run(case):
    import torch
    from emu_base.math.pchip_torch import PCHIP1D

    x = torch.tensor(case["x"], dtype=torch.float64)
    y = torch.tensor(case["y"], dtype=torch.float64)
    try:
        p = PCHIP1D(x, y)
    except ValueError as ex:
        return {"outcome": "ValueError", "msg": str(ex), "coeffs": [], "vals": []}
    vals = p(torch.tensor(case["q"], dtype=torch.float64)) if case["q"] else torch.zeros(0)
    return {"outcome": "ok", "coeffs": [float(a) for a in p._coeffs.flatten()],
            "vals": [float(a) for a in vals]}


ERR = {1: "x and y must have the same length", 2: "Need at least 2 points", 3: "x must be strictly increasing"}


def canon_impl(r):
    from vlib.coqparse import bits
    if r["outcome"] != "ok":
        code = [k for k, v in ERR.items() if v == r["msg"]]
        return ("err", code[0] if code else r["msg"])
    return ("ok", [bits(a) for a in r["coeffs"]], [bits(a) for a in r["vals"]])


def canon_model(v):
    from vlib.coqparse import bits
    code, (co, vals) = v
    if code != 0:
        return ("err", code)
    return ("ok", [bits(a) for a in co], [bits(a) for a in vals])


# ---- generators --------------------------------------------------------------------------------
def gen_knots(rng, n):
    kind = rng.choice(["arange", "uniform", "loguniform", "mixed", "jitter", "tiny"])
    if kind == "arange":  # the grid the Pulser adapter uses
        return kind, [float(i) for i in range(n)]
    if kind == "jitter":  # uniform up to a relative jitter of 1e-9 .. 1e-3 (must NOT be treated as uniform)
        h0, rel = rng.choice([1.0, 0.5, 1e-3, 40.0]), 10 ** rng.uniform(-9, -3)
        x = [rng.choice([0.0, -5.0, 3.0])]
        for _ in range(n - 1):
            x.append(x[-1] + h0 * (1 + rel * rng.uniform(-1, 1)))
        return kind, x
    if kind == "tiny":  # non-uniform spacings of 1e-12 .. 1e-6 (times in seconds): absolute tolerances must not matter
        x = [0.0]
        lo = rng.uniform(-12, -7)
        for _ in range(n - 1):
            x.append(x[-1] + 10 ** rng.uniform(lo, lo + 1))
        return kind, x
    x = [rng.choice([0.0, -5.0, 1e3, rng.uniform(-10, 10)])]
    for _ in range(n - 1):
        if kind == "uniform":
            step = 0.5
        elif kind == "loguniform":
            step = 10 ** rng.uniform(-3, 2)
        else:
            step = rng.choice([1.0, 1e-3, 100.0, 10 ** rng.uniform(-2, 1)])
        x.append(x[-1] + step)
    return kind, x


def gen_values(rng, n):
    kind = rng.choice(["gauss", "flatruns", "monotone", "ints", "signchange", "hugeratio", "flat_end", "ramp"])
    if kind == "gauss":
        y = [rng.gauss(0, 1) for _ in range(n)]
    elif kind == "flatruns":
        y, cur = [], rng.choice([0.0, 1.0])
        for _ in range(n):
            if rng.random() < 0.4:
                cur = rng.choice([0.0, 1.0, 2.0, -1.5, rng.gauss(0, 1)])
            y.append(cur)
    elif kind == "monotone":
        y = [rng.gauss(0, 1)]
        sg = rng.choice([-1.0, 1.0])
        for _ in range(n - 1):
            y.append(y[-1] + sg * rng.choice([0.0, 0.0, 1.0, 10 ** rng.uniform(-6, 3)]))
    elif kind == "ints":
        y = [float(rng.randint(-3, 3)) for _ in range(n)]
    elif kind == "signchange":
        y = [((-1) ** i) * 10 ** rng.uniform(-3, 3) for i in range(n)]
    elif kind == "hugeratio":
        y = [0.0]
        for _ in range(n - 1):
            y.append(y[-1] + rng.choice([-1, 1, 1]) * 10 ** rng.uniform(-8, 8))
    elif kind == "flat_end":  # flat first and/or last interval next to a non-flat one
        y = [rng.gauss(0, 2) for _ in range(n)]
        if n >= 3 and rng.random() < 0.7:
            y[1] = y[0]
        if n >= 3 and rng.random() < 0.7:
            y[-2] = y[-1]
    else:  # amplitude-like ramp to a small value (C22)
        a, b = rng.uniform(0, 12), rng.uniform(0, 1)
        y = [a + (b - a) * i / max(n - 1, 1) for i in range(n)]
    return kind, y


def gen_queries(rng, x, k):
    lo, hi = x[0], x[-1]
    span = hi - lo
    q = []
    for _ in range(k):
        m = rng.random()
        if m < 0.55:
            i = rng.randrange(len(x) - 1)
            q.append(x[i] + (x[i + 1] - x[i]) * rng.random())
        elif m < 0.70:
            q.append(rng.choice(x))
        elif m < 0.85:
            q.append(hi + span * rng.random() * rng.choice([0.01, 0.5]))
        else:
            q.append(lo - span * rng.random() * rng.choice([0.01, 0.5]))
    # always: first interval, last interval, last knot
    q += [x[0] + 0.25 * (x[1] - x[0]), x[-1] - 0.25 * (x[-1] - x[-2]), x[-1], x[0]]
    return q


def gen_case(rng, nmax):
    n = rng.choice([2, 3, 3, 4, 5, rng.randint(2, 12), rng.randint(2, nmax)])
    xk, x = gen_knots(rng, n)
    yk, y = gen_values(rng, n)
    return {"kind": "valid", "xkind": xk, "ykind": yk, "x": x, "y": y, "q": gen_queries(rng, x, 8)}


def gen_malformed(rng):
    c = gen_case(rng, 8)
    how = rng.choice(["not_increasing", "duplicate", "len_mismatch", "one_point", "nan_x", "inf_y", "nan_q"])
    if how == "not_increasing" and len(c["x"]) >= 2:
        i = rng.randrange(len(c["x"]) - 1)
        c["x"][i], c["x"][i + 1] = c["x"][i + 1], c["x"][i]
    elif how == "duplicate" and len(c["x"]) >= 2:
        i = rng.randrange(len(c["x"]) - 1)
        c["x"][i + 1] = c["x"][i]
    elif how == "len_mismatch":
        c["y"] = c["y"] + [0.0] if rng.random() < 0.5 else c["y"][:-1]
    elif how == "one_point":
        c["x"], c["y"] = c["x"][:1], c["y"][:1]
    elif how == "nan_x":
        c["x"][rng.randrange(len(c["x"]))] = float("nan")
    elif how == "inf_y":
        c["y"][rng.randrange(len(c["y"]))] = rng.choice([float("inf"), float("-inf"), float("nan")])
    else:
        c["q"] = c["q"] + [float("nan"), float("inf"), float("-inf")]
    c["kind"] = "malformed:" + how
    return c


def corpus_cases():
    p = common.VERIF / "corpus" / "C20.json"
    return json.loads(p.read_text()) if p.exists() else []


# ---- property oracle on the real code (falsifier) ---------------------------------------------------
def flat_end_next_to_nonflat(x, y):
    n = len(x)
    if n < 3:
        return False
    return (y[1] == y[0] and y[2] != y[1]) or (y[-2] == y[-1] and y[-3] != y[-2])


def property_check(ctx, case, r):
    """What C20 demands of PCHIP1D on valid data (strictly increasing knots, finite values)."""
    if case["kind"] != "valid" and not case["kind"].startswith("corpus"):
        return
    x, y, q = case["x"], case["y"], case["q"]
    n = len(x)
    if r["outcome"] != "ok":
        ctx.violation("PCHIP1D rejected valid data: " + r.get("msg", ""),
                      {"case": case, "finding_key": "rejects-valid"})
        return
    vals, co = r["vals"], r["coeffs"]
    if not all(math.isfinite(v) for v in vals + co):
        return  # overflow of binary64 is outside the property (stated in ctx.assumptions)
    ymax = max(abs(v) for v in y) + 1e-300
    smax = max(abs((y[i + 1] - y[i]) / (x[i + 1] - x[i])) for i in range(n - 1)) + 1e-300
    tol = 1e-9 * ymax  # >= 1e6 x rounding level of the O(1)-conditioned Hermite evaluation
    f11 = flat_end_next_to_nonflat(x, y)

    def report(what, key, extra):
        if f11 and key in ("shape", "reference"):
            key2, what2 = F11, what + " [flat end interval next to a non-flat one: _limit_endpoint tests d*s<0]"
        else:
            key2, what2 = key, what
        ctx.violation(what2, {"case": case, "finding_key": key2, "detail": extra})

    # (1) exact at knots, (2) inside an interval: between the two data values
    for qq, v in zip(q, vals):
        if not (x[0] <= qq <= x[-1]):
            continue
        i = max(0, min(n - 2, sum(1 for a in x if a <= qq) - 1))
        if qq in x:
            j = x.index(qq)
            if abs(v - y[j]) > tol:
                report(f"P(x[{j}]) = {v!r} differs from y[{j}] = {y[j]!r}", "knot", {"q": qq, "value": v})
                return
        lo, hi = min(y[i], y[i + 1]), max(y[i], y[i + 1])
        if not (lo - tol <= v <= hi + tol):
            report(f"P({qq!r}) = {v!r} leaves [{lo!r}, {hi!r}] on interval {i}: not shape preserving",
                   "shape", {"q": qq, "value": v, "interval": i})
            return
    # (3) C1: derivative of piece i-1 at its right end equals p1 of piece i
    for i in range(1, n - 1):
        p0, p1, p2, p3 = co[4 * (i - 1): 4 * i]
        h = x[i] - x[i - 1]
        left = p1 + h * (2 * p2 + 3 * p3 * h)
        if abs(left - co[4 * i + 1]) > 1e-9 * smax:
            report(f"derivative jumps at knot {i}: {left!r} vs {co[4 * i + 1]!r}", "c1", {"knot": i})
            return
    # (4) equals the standard PCHIP interpolant (SciPy), also when extrapolated
    import numpy as np
    from scipy.interpolate import PchipInterpolator

    if n >= 2 and all(math.isfinite(v) for v in q):
        ref = PchipInterpolator(np.array(x), np.array(y), extrapolate=True)(np.array(q))
        span = x[-1] - x[0]
        for qq, v, w in zip(q, vals, ref):
            # extrapolated cubics are ill-conditioned: scale the tolerance with the cube of the distance
            out = max(0.0, x[0] - qq, qq - x[-1]) / min(x[1] - x[0], x[-1] - x[-2])
            t = 1e-9 * (ymax + smax * span) * (1 + out) ** 3
            if math.isfinite(w) and abs(v - w) > t:
                report(f"P({qq!r}) = {v!r} but the standard PCHIP interpolant (SciPy) gives {float(w)!r}",
                       "reference", {"q": qq, "value": v, "scipy": float(w)})
                return


# ---- scale equivariance under exact powers of two (failing-input search on the real code) -------------------
# PCHIP is homogeneous of degree 1 in the values: every operation of the standard formula is of degree 1, 0 or -1
# in y, so scaling y by s = 2^k commutes with every rounding as long as nothing leaves the normal range.  Hence
# PCHIP1D(x, s*y)(q) must equal s*PCHIP1D(x, y)(q) for finite normal data - a property-level oracle that needs
# neither the Coq model nor SciPy and therefore still yields a concrete replay when the bit-exact tie is broken.
SCALE_K = {"float64": [100, 300, 500, 700, -100, -300, -500, -700], "float32": [30, 60, 90, -30, -60, -90]}
RANGE_EXP = {"float64": 1000, "float32": 120}   # |scaled quantity| must stay within 2^+-this (normal, with margin)
NONFINITE = "pchip-nonfinite-for-finite-data"
NOT_EQUIV = "pchip-not-scale-equivariant"
SIGN_UNDERFLOW = "pchip-sign-product-underflow"


def _run_dtype(x, y, q, dtype):
    import torch
    from emu_base.math.pchip_torch import PCHIP1D

    p = PCHIP1D(torch.tensor(x, dtype=dtype), torch.tensor(y, dtype=dtype))
    v = p(torch.tensor(q, dtype=dtype))
    return [float(a) for a in p._coeffs.flatten()], [float(a) for a in v]


def scale_check(ctx, case, k, dtname, report=True):
    """Returns 'skipped' / 'ok' / finding key."""
    import torch

    dtype = getattr(torch, dtname)
    fi = torch.finfo(dtype)
    cast = (lambda a: float(torch.tensor(a, dtype=dtype))) if dtname == "float32" else float
    x, y, q = [cast(a) for a in case["x"]], [cast(a) for a in case["y"]], [cast(a) for a in case["q"]]
    n = len(x)
    if n < 2 or any(x[i + 1] <= x[i] for i in range(n - 1)) or not all(math.isfinite(a) for a in x + y + q):
        return "skipped"
    s = 2.0 ** k
    try:
        co0, v0 = _run_dtype(x, y, q, dtype)
    except ValueError:
        return "skipped"
    sec = [(y[i + 1] - y[i]) / (x[i + 1] - x[i]) for i in range(n - 1)]
    hs = [x[i + 1] - x[i] for i in range(n - 1)]
    if not all(math.isfinite(a) for a in co0 + v0):
        return "skipped"
    # narrowed exclusion: only where the STANDARD formula's own quantities (data, secants, w/secant, coefficients,
    # values; all of degree +-1 in y) would leave the normal range after scaling
    E = RANGE_EXP[dtname]
    lo, hi = 2.0 ** (-E), 2.0 ** E
    deg1 = [abs(a) for a in y + sec + co0 + v0 if a != 0]
    if deg1 and (max(deg1) * s > hi or min(deg1) * s < lo):
        return "skipped"
    nz = [abs(a) for a in sec if a != 0]
    if nz and (3 * max(hs) / (min(nz) * s) > hi or min(hs) / (max(nz) * s) < lo):
        return "skipped"
    ys = [a * s for a in y]
    co1, v1 = _run_dtype(x, ys, q, dtype)
    # does a product of two adjacent scaled secants underflow to zero (sign tests written as products)?
    under = any(sec[i] != 0 and sec[i + 1] != 0 and float(torch.tensor(sec[i] * s, dtype=dtype) * torch.tensor(sec[i + 1] * s, dtype=dtype)) == 0.0
                for i in range(n - 2))
    ymax = max(abs(a) for a in ys) + fi.tiny
    tol = 1e-9 * ymax if dtname == "float64" else 1e-3 * ymax
    what, key = None, None
    if not all(math.isfinite(a) for a in co1 + v1):
        j = next(i for i, a in enumerate(co1 + v1) if not math.isfinite(a))
        what = (f"finite data (|y| <= {ymax:.3g}, {dtname}) give a non-finite interpolant: "
                + (f"coefficient {j % 4} of piece {j // 4}" if j < len(co1) else f"P({q[j - len(co1)]!r})") + " is not finite")
        key = NONFINITE
    if key is None:
        for qq, v in zip(q, v1):
            if x[0] <= qq <= x[-1]:
                i = max(0, min(n - 2, sum(1 for a in x if a <= qq) - 1))
                if qq in x and abs(v - ys[x.index(qq)]) > tol:
                    what, key = f"P(x[{x.index(qq)}]) = {v!r} differs from the datum {ys[x.index(qq)]!r}", NOT_EQUIV
                    break
                if not (min(ys[i], ys[i + 1]) - tol <= v <= max(ys[i], ys[i + 1]) + tol):
                    what, key = f"P({qq!r}) = {v!r} leaves the data range of interval {i}", NOT_EQUIV
                    break
    if key is None:
        eps = 4 * fi.eps
        for name, a0, a1 in (("coefficient", co0, co1), ("value", v0, v1)):
            for j, (u, w) in enumerate(zip(a0, a1)):
                e = u * s
                if abs(w - e) > eps * abs(e):
                    what = (f"{name} {j} of PCHIP1D(x, 2^{k}*y) is {w!r} but 2^{k} * ({name} of PCHIP1D(x, y)) = {e!r} "
                            f"(relative difference {abs(w - e) / max(abs(e), fi.tiny):.3g}): not scale equivariant")
                    key = NOT_EQUIV
                    break
            if key:
                break
    if key is None:
        return "ok"
    if under and key == NOT_EQUIV:
        key = SIGN_UNDERFLOW
        what += " [a product of two adjacent secants underflows to 0: sign tests written as products]"
    if report:
        ctx.violation(f"[{dtname}, values scaled by 2^{k}] " + what,
                      {"case": {"kind": case["kind"], "x": x, "y": y, "q": q}, "scale_k": k, "dtype": dtname,
                       "finding_key": key})
    return key


def scale_search(ctx, cases):
    stats = {"ok": 0, "skipped": 0}
    todo = [c for c in cases if c["kind"] == "valid" or c["kind"].startswith("corpus")]
    todo = [c for c in todo if len(c["x"]) <= 60][: ctx.n(120, 1500)]
    for c in todo:
        for dtname, ks in SCALE_K.items():
            for k in ks:
                r = scale_check(ctx, c, k, dtname)
                stats[r] = stats.get(r, 0) + 1
    ctx.extra["scale_equivariance_search"] = {"cases": len(todo), "exponents": SCALE_K, "results": stats}


# ---- covariance under exact rescaling / shifting of the abscissae -----------------------------------------------
# Scaling x and the query points by s = 2^k multiplies h by s and coefficient p_j by s^-j, all exactly; the values
# do not change.  Shifting by c changes nothing when x+c, q+c and all differences are exact.  Any absolute length
# scale hidden in the code (absolute tolerances, "uniform grid" shortcuts) breaks this.
XSCALE_K = [10, 20, 40, 60, -10, -20, -40, -60]
SHIFTS = [1024.0, -4096.0, 2.0 ** 20]
NOT_XCOV = "pchip-not-x-scale-covariant"
NOT_SHIFT = "pchip-not-shift-covariant"


def xscale_check(ctx, case, k, report=True):
    import torch

    x, y, q = [float(a) for a in case["x"]], [float(a) for a in case["y"]], [float(a) for a in case["q"]]
    n = len(x)
    if n < 2 or any(x[i + 1] <= x[i] for i in range(n - 1)) or not all(math.isfinite(a) for a in x + y + q):
        return "skipped"
    s = 2.0 ** k
    try:
        co0, v0 = _run_dtype(x, y, q, torch.float64)
    except ValueError:
        return "skipped"
    if not all(math.isfinite(a) for a in co0 + v0):
        return "skipped"
    exp = [c * s ** (-(j % 4)) for j, c in enumerate(co0)]
    mags = [abs(a) for a in exp + [a * s for a in x + q] if a != 0]
    if mags and (max(mags) > 2.0 ** 900 or min(mags) < 2.0 ** -900):
        return "skipped"
    co1, v1 = _run_dtype([a * s for a in x], y, [a * s for a in q], torch.float64)
    eps = 2 * 2.220446049250313e-16
    what = None
    for j, (e, w) in enumerate(zip(exp, co1)):
        if not (abs(w - e) <= eps * abs(e)):
            what = (f"coefficient p{j % 4} of piece {j // 4} of PCHIP1D(2^{k}*x, y) is {w!r}, but 2^({-k}*{j % 4}) * (that of "
                    f"PCHIP1D(x, y)) = {e!r} (relative difference {abs(w - e) / max(abs(e), 1e-300):.3g})")
            break
    if what is None:
        for j, (e, w) in enumerate(zip(v0, v1)):
            if not (abs(w - e) <= eps * abs(e)):
                what = (f"PCHIP1D(2^{k}*x, y)(2^{k}*{q[j]!r}) = {w!r} but PCHIP1D(x, y)({q[j]!r}) = {e!r} "
                        f"(relative difference {abs(w - e) / max(abs(e), 1e-300):.3g})")
                break
    if what is None:
        return "ok"
    if report:
        ctx.violation(f"[abscissae scaled by 2^{k}] " + what + ": not covariant under a change of the time unit",
                      {"case": {"kind": case["kind"], "x": x, "y": y, "q": q}, "xscale_k": k, "finding_key": NOT_XCOV})
    return NOT_XCOV


def shift_check(ctx, case, c, report=True):
    import torch

    x, y, q = [float(a) for a in case["x"]], [float(a) for a in case["y"]], [float(a) for a in case["q"]]
    n = len(x)
    if n < 2 or any(x[i + 1] <= x[i] for i in range(n - 1)) or not all(math.isfinite(a) for a in x + y + q):
        return "skipped"
    xs, qs = [a + c for a in x], [a + c for a in q]
    exact = (all(b - c == a for a, b in zip(x + q, xs + qs))
             and all(xs[i + 1] - xs[i] == x[i + 1] - x[i] for i in range(n - 1))
             and all(qq - xi == (qq + c) - (xi + c) for qq in q for xi in x))
    if not exact:
        return "skipped"
    try:
        co0, v0 = _run_dtype(x, y, q, torch.float64)
        co1, v1 = _run_dtype(xs, y, qs, torch.float64)
    except ValueError:
        return "skipped"
    from vlib.coqparse import bits
    if [bits(a) for a in co0 + v0] == [bits(a) for a in co1 + v1]:
        return "ok"
    j = next(i for i, (a, b) in enumerate(zip(co0 + v0, co1 + v1)) if bits(a) != bits(b))
    if report:
        ctx.violation(f"[abscissae shifted by {c!r}, exactly representable] entry {j} of (coefficients, values) changes from "
                      f"{(co0 + v0)[j]!r} to {(co1 + v1)[j]!r}: not covariant under a shift of the time origin",
                      {"case": {"kind": case["kind"], "x": x, "y": y, "q": q}, "shift_c": c, "finding_key": NOT_SHIFT})
    return NOT_SHIFT


def xcov_search(ctx, cases):
    stats = {}
    todo = [c for c in cases if c["kind"] == "valid" or c["kind"].startswith("corpus")]
    todo = [c for c in todo if len(c["x"]) <= 60][: ctx.n(150, 1500)]
    # dyadic grids (multiples of 1/8, queries multiples of 1/16) so that shifts are exact
    for _ in range(ctx.n(40, 400)):
        n = ctx.rng.randint(3, 12)
        x = [ctx.rng.randint(-40, 40) / 8.0]
        for _ in range(n - 1):
            x.append(x[-1] + ctx.rng.randint(1, 24) / 8.0)
        _, y = gen_values(ctx.rng, n)
        q = [ctx.rng.randint(int(16 * x[0]) - 20, int(16 * x[-1]) + 20) / 16.0 for _ in range(8)] + [x[0], x[-1]]
        todo.append({"kind": "valid", "x": x, "y": y, "q": q})
    for c in todo:
        for k in XSCALE_K:
            r = xscale_check(ctx, c, k)
            stats["scale:" + r] = stats.get("scale:" + r, 0) + 1
        for sh in SHIFTS:
            r = shift_check(ctx, c, sh)
            stats["shift:" + r] = stats.get("shift:" + r, 0) + 1
    ctx.extra["abscissa_covariance_search"] = {"cases": len(todo), "exponents": XSCALE_K, "shifts": SHIFTS, "results": stats}


# ---- run -----------------------------------------------------------------------------------------
def run(ctx):
    from vlib.coqparse import parse

    rc, out = common.coq_make(["Model/Pchip.vo"])
    ctx.obligation("build:Model/Pchip.vo", rc == 0, out, kind="build")
    common.standard_proof_stage(ctx, "C20", ["Properties/C20.vo"])

    cases = [dict(c) for c in corpus_cases()]
    nv, nm = ctx.n(260, 5000), ctx.n(50, 500)
    nmax = ctx.n(40, 120)
    cases += [gen_case(ctx.rng, nmax) for _ in range(nv)]
    # a few long ones (up to 500 knots)
    for _ in range(ctx.n(3, 40)):
        n = ctx.rng.choice([200, 500, ctx.rng.randint(100, 500)])
        xk, x = gen_knots(ctx.rng, n)
        yk, y = gen_values(ctx.rng, n)
        cases.append({"kind": "valid", "xkind": xk, "ykind": yk, "x": x, "y": y, "q": gen_queries(ctx.rng, x, 12)})
    cases += [gen_malformed(ctx.rng) for _ in range(nm)]
    # values scaled by large powers of two, for the correspondence only (the model must follow the source also
    # where intermediate products under/overflow); their property oracle is scale_search below
    small = [c for c in cases if c["kind"] == "valid" and 3 <= len(c["x"]) <= 12][: ctx.n(8, 60)]
    for c in small:
        for k in (-700, -520, 700):
            cases.append({"kind": f"scaled:2^{k}", "xkind": c["xkind"], "ykind": c["ykind"], "x": c["x"],
                          "y": [v * 2.0 ** k for v in c["y"]], "q": c["q"]})

    impl = [impl_run(c) for c in cases]
    for c, r in zip(cases, impl):
        property_check(ctx, c, r)
    scale_search(ctx, cases)   # independent of the Coq tie: always yields concrete replays
    xcov_search(ctx, cases)

    corr_ok, detail = True, ""
    hist = {}
    try:
        ev = common.CoqEval("C20", HEADER)
        for c in cases:
            ev.add(f"pchip_case float_arith {L(c['x'])} {L(c['y'])} {L(c['q'])}")
        outs = ev.run(shard=ctx.n(40, 150))
        for c, r, o in zip(cases, impl, outs):
            m, i = canon_model(parse(o)), canon_impl(r)
            k = (c["kind"], c.get("xkind", ""), c.get("ykind", ""))
            hist[k] = hist.get(k, 0) + 1
            ctx.count_case({"kind": c["kind"], "xkind": c.get("xkind"), "ykind": c.get("ykind"), "n": len(c["x"]),
                            "x0": c["x"][:3], "y0": c["y"][:3], "outcome": r["outcome"]},
                           nontrivial=(r["outcome"] == "ok" and len(c["x"]) >= 3))
            if m != i and corr_ok:
                corr_ok = False
                where = ""
                if m[0] == i[0] == "ok":
                    dc = [j for j, (a, b) in enumerate(zip(m[1], i[1])) if a != b]
                    dv = [j for j, (a, b) in enumerate(zip(m[2], i[2])) if a != b]
                    where = f" first differing coeff index {dc[:1]} (piece*4+k), value index {dv[:1]}"
                detail = f"case kind={c['kind']} x={c['x'][:6]} y={c['y'][:6]} q={c['q'][:4]}:{where} " \
                         f"impl={str(i)[:300]} model={str(m)[:300]}"
                ctx.extra["first_disagreement"] = {"case": c, "impl": i, "model": m}
    except (common.CoqEvalError, ValueError) as ex:
        corr_ok, detail = False, str(ex)
    ctx.extra["input_distribution"] = {"/".join(k): v for k, v in sorted(hist.items())}
    ctx.extra["knot_count_histogram"] = _hist([len(c["x"]) for c in cases])
    ctx.obligation("correspondence:Model.Pchip(float_arith)==PCHIP1D coefficients+values (bit-exact)",
                   corr_ok, detail, kind="correspondence")
    ctx.rule = ("knots: arange (adapter grid) / uniform / log-uniform / mixed steps / uniform with relative jitter "
                "1e-9..1e-3 / non-uniform spacings 1e-12..1e-6, 2..40 knots (quick; to 120 and "
                "a few 100..500 thorough); values: gauss, flat runs, monotone with zeros, integers, alternating "
                "signs, ratios to 1e16, flat end intervals, ramps; queries inside, at knots, outside both ends; "
                "malformed: unsorted/duplicate/NaN knots, length mismatch, one point, inf/nan values, nan/inf "
                "queries; one PRNG; non-trivial = accepted with >= 3 knots; distinct by input hash")
    ctx.trusted_base += ["hand-written model coq/Model/Pchip.v (validated bit-for-bit against torch on every run)",
                         "Coq PrimFloat = IEEE binary64 as computed by torch elementwise float64 kernels "
                         "(one correctly rounded operation per Python-level operator, no FMA)",
                         "scipy.interpolate.PchipInterpolator only as a falsifier oracle, never as evidence"]
    ctx.assumptions += ["theorems are in exact real arithmetic (R instance of the model term); rounding is outside",
                        "the shape/reference falsifier skips cases whose coefficients are non-finite in binary64; the scale-"
                        "equivariance search narrows this: finite normal data must give finite results unless the standard "
                        "formula's own degree-1 quantities leave the normal range",
                        "findings F-11 (flat end interval overshoot, /repo b976cb3) and F-28 (sign tests written as "
                        "products underflow, /repo 79a08c0) are fixed; their witnesses are regression cases in "
                        "corpus/C20.json and would be reported under the same finding keys"]


def _hist(v):
    h = {}
    for a in v:
        k = "2" if a == 2 else "3-5" if a <= 5 else "6-12" if a <= 12 else "13-40" if a <= 40 else "41-120" if a <= 120 else "121-500"
        h[k] = h.get(k, 0) + 1
    return h


def replay(ctx, path):
    rp = json.loads(open(path).read())
    c = rp["case"]
    if "xscale_k" in rp:
        print("replay x-scale check:", xscale_check(ctx, c, rp["xscale_k"]))
        return
    if "shift_c" in rp:
        print("replay shift check:", shift_check(ctx, c, rp["shift_c"]))
        return
    if "scale_k" in rp:
        print("replay scale check:", scale_check(ctx, c, rp["scale_k"], rp["dtype"]))
        return
    r = impl_run(c)
    print("replay outcome:", r["outcome"], "values:", r["vals"][:8])
    property_check(ctx, c, r)


META = {
    "category": "proof",
    "technique": "Coq proof (R instance of a hand-written Arith-generic model of pchip_torch.py) + bit-exact PrimFloat correspondence with torch",
    "text": ("Proved for every knot count n >= 2, all strictly increasing knots and all real values: exactness at "
             "every knot, piecewise-cubic representation incl. extrapolation by the end cubics, C1 at interior knots, "
             "monotonicity/boundedness of any Hermite piece whose end slopes are in the Fritsch-Carlson box (closed-"
             "form convex-combination identity), box property of every knot slope (interior and end), shape "
             "preservation on every interval (values between the two data values, monotone in the data's direction), "
             "equality with an independently written standard PCHIP (SciPy end rule, Hermite-basis evaluation) at "
             "every query point inside and outside the range, and non-negativity on the knot range for non-negative "
             "data. The pre-fix limiter (finding F-11) is still refuted in Proofs/PchipProofs.v; the former "
             "product-based sign tests (finding F-28) are shown by computation to underflow at binary64 while the "
             "sign-based ones of the source do not, and proved equal over R. The PrimFloat instance of the same term is "
             "compared bit-for-bit with PCHIP1D (all coefficients and query values, incl. values scaled by 2^-700, "
             "2^-520, 2^700). Validated only (not proved): binary64/binary32 behaviour beyond the tie, by a failing-"
             "input search that always runs, also when the tie is broken: exact power-of-two scale equivariance "
             "PCHIP1D(x, 2^k y) == 2^k PCHIP1D(x, y) for k in {+-100,+-300,+-500,+-700} (float64) and {+-30,+-60,+-90} "
             "(float32), finiteness, knot reproduction and data-range containment of the scaled interpolant; covariance under exact "
             "rescaling of the abscissae PCHIP1D(2^k x, y)(2^k t) == PCHIP1D(x, y)(t), coefficients scaled by 2^(-jk), "
             "k in {+-10,+-20,+-40,+-60}, and under exactly representable shifts of the origin (dyadic grids); "
             "nearly uniform grids (relative jitter 1e-9..1e-3) and tiny spacings (1e-12..1e-6) are part of the "
             "bit-exact correspondence and of the SciPy reference comparison (tolerance 1e-9 relative = 4.5e6 ulp)."),
    "note": ("Trusted: Coq kernel+VM, stdlib real-number axioms, the hand-written model (validated by the "
             "correspondence each run), PrimFloat==torch float64 elementwise. Theorems are in exact arithmetic. "
             "Floating-point range: the scale search excludes a (data, 2^k) pair only when the standard formula's own "
             "degree-(+-1) quantities (data, secants, w/secant, coefficients, values) would leave 2^+-1000 (float64) / "
             "2^+-120 (float32); finite normal data inside that range must give a finite, equivariant, shape-"
             "preserving interpolant. The SciPy/shape oracle on unscaled data still skips cases with non-finite "
             "binary64 coefficients."),
}
