"""C09 — the DMRG solver finds the ground state of the final Hamiltonian (DESIGN.md §4 C09)."""
import logging
import warnings

import numpy as np

from props import _dense_ref as D
from props import _mps_trace as T
from props.c02 import trace_stage
from vlib import common

E_TOL_FACTOR = 50.0  # |E_dmrg - E_exact| <= factor * energy_tolerance(1e-5) + bond/precision slack


def e2e_stage(ctx, n_cases):
    import emu_mps
    from emu_mps.solver import Solver
    from pulser.backend import Energy, Occupation

    worst = 0.0
    for i in range(n_cases):
        n = ctx.rng.choice([2, 3, 4, 5, 6, 6, 7, 8])
        # drive shapes: smooth random rows / all rows identical (constant pulse) / constant amplitude and phase with a
        # detuning ramp (the sweep part of an adiabatic protocol) / constant detuning with an amplitude ramp
        shape = ("random", "constant", "delta-ramp", "omega-ramp", "delta-ramp")[i % 5]
        steps = ctx.rng.choice([2, 3]) if shape == "random" else ctx.rng.choice([3, 4, 5, 6])
        prob = D.random_problem(ctx.rng, n, steps, dt=100.0, local=(i % 2 == 0), phases=(i % 3 == 0))
        # gapped regime: strong detuning, moderate drive
        prob["delta"] = prob["delta"] * 0 + np.array([[ctx.rng.uniform(4, 9) * ctx.rng.choice([-1, 1])] * n] * steps)
        prob["omega"] = np.abs(prob["omega"]) + 1.0
        if shape != "random":
            for key in ("omega", "delta", "phi"):
                prob[key] = np.repeat(prob[key][:1], steps, axis=0)
            if shape == "delta-ramp":
                d0, d1 = ctx.rng.uniform(4, 9) * ctx.rng.choice([-1, 1]), ctx.rng.uniform(4, 9) * ctx.rng.choice([-1, 1])
                prob["delta"] = np.array([[d0 + (d1 - d0) * k / (steps - 1)] * n for k in range(steps)])
            elif shape == "omega-ramp":
                prob["omega"] = prob["omega"] * np.linspace(1.0, 2.5, steps)[:, None]
        et = [(k + 1) / steps for k in range(steps)]
        with warnings.catch_warnings():
            warnings.simplefilter("ignore")
            # the documented spellings of the solver: the enum member, the plain string, and a config that went
            # through pulser's abstract representation (which stores the string)
            spelling = ("enum", "string", "roundtrip")[i % 3]
            cfg = emu_mps.MPSConfig(observables=[Energy(evaluation_times=et), Occupation(evaluation_times=et)],
                                    log_level=logging.CRITICAL,
                                    solver=Solver.DMRG if spelling == "enum" else "dmrg",
                                    optimize_qubit_ordering=(i % 2 == 1))
            if spelling == "roundtrip":
                cfg = emu_mps.MPSConfig.from_abstract_repr(cfg.to_abstract_repr())
            try:
                res = emu_mps.MPSBackend._run_from_sequence_data(D.to_sequence_data(prob), cfg)
            except RuntimeError as ex:
                if "did not converge" in str(ex):
                    ctx.notes.append(f"DMRG non-convergence reported by RuntimeError (allowed): n={n}")
                    continue
                raise
        ser = {k: (v.tolist() if hasattr(v, "tolist") else v) for k, v in prob.items()}
        case = {"kind": "e2e-dmrg", "n": n, "steps": steps, "shape": shape, "solver_spelling": spelling, "E": [], "E0": []}
        for k in range(steps):
            # the energy recorded at the end of step k is that of step k's Hamiltonian (fill_results precedes update_H)
            H = D.dense_H(prob["omega"][k], prob["delta"][k], prob["phi"][k], prob["U"])
            w = np.linalg.eigvalsh(H)
            e = float(res.get_result("energy", et[k]))
            below = w[0] - e
            gap = w[1] - w[0]
            worst = max(worst, abs(e - w[0]))
            case["E"].append(e)
            case["E0"].append(float(w[0]))
            if below > 1e-8 * max(1.0, abs(w[0])):
                ctx.violation(f"DMRG energy {e} at the end of step {k} is below the exact ground energy {w[0]}",
                              {"case": ser, "shape": shape, "step": k, "finding_key": "dmrg-below-ground"})
                break
            elif gap > 0.5 and abs(e - w[0]) > E_TOL_FACTOR * 1e-5 * max(1.0, abs(w[0])):
                ctx.violation(f"DMRG energy {e} at the end of step {k} differs from the ground energy {w[0]} of that "
                              f"step's (gapped, gap {gap:.3g}) Hamiltonian; drive shape {shape}",
                              {"case": ser, "shape": shape, "step": k, "finding_key": "dmrg-not-ground"})
                break
        ctx.count_case(case, nontrivial=True)
    ctx.extra["e2e_worst_energy_error"] = worst


def contract_oracle(ctx, n_cases):
    """Convergence contract on the REAL DMRGBackendImpl with scripted energies (no model involved): a time step may
    complete only right after a sweep whose final energy is within the energy tolerance of the final energy of some
    EARLIER sweep of the run (so never after the very first sweep of a run), and the run raises rather than completes
    when the budget is exhausted."""
    for i in range(n_cases):
        case = T.gen_case(ctx.rng, "DMRG")
        r = T.run_impl(case)
        en, etol = case["oenergy"], case["etol"]
        used, finals, last = 0, [], None
        bad = None
        for code, ints, floats in r["events"]:
            if code == 16:          # one two-site minimisation consumes one scripted energy
                last = en[used] if used < len(en) else None
                used += 1
            elif code == 15 and ints and ints[0] == 0 and last is not None:   # orthogonalize(0): the sweep is over
                finals.append(last)
                last = None
            elif code == 11 and floats and floats[0] != 0.0:   # fill_results: a time step completes
                if not finals:
                    continue
                e = finals[-1]
                if not any(abs(e - p) < etol for p in finals[:-1]):
                    bad = (ints[0], e, finals[:-1][-3:])
                    break
        ctx.count_case({"kind": "dmrg-contract", "N": case["N"], "steps": case["steps"], "sweeps": len(finals),
                        "outcome": r["outcome"]}, nontrivial=len(finals) >= 2)
        if bad:
            ctx.violation(f"time step {bad[0]} completed right after a sweep with final energy {bad[1]!r} although no earlier "
                          f"sweep ended within the energy tolerance {etol} of it (earlier finals: {bad[2]})",
                          {"case": {k: v for k, v in case.items()}, "finding_key": "dmrg-step-completed-unconverged"})


def run(ctx):
    common.coq_make(["Model/MpsMachine.vo"])
    common.standard_proof_stage(ctx, "C09", ["Properties/C09.vo"])
    trace_stage(ctx, "DMRG", ctx.n(60, 1200), "C09trace")
    contract_oracle(ctx, ctx.n(60, 1000))
    e2e_stage(ctx, ctx.n(10, 120))
    ctx.rule = ("(a) scripted DMRG stepping cases (N 2..9, 1-5 steps, energy oracle streams: converging / random / "
                "flat, max_sweeps 1..2000, energy tolerances 1e-5..2): real DMRGBackendImpl with minimize_energy_pair "
                "stubbed vs the Gallina machine, every event and attribute tuple; (b) end-to-end DMRG runs on gapped "
                "2-6 atom problems vs dense eigvalsh")
    ctx.assumptions += ["that the converged energy is the ground energy is validated (dense eigvalsh), not proved",
                        "the variational bound E >= E0 reduces to C13 (energy is a Rayleigh quotient) + Rayleigh-Ritz"]


def replay(ctx, path):
    print("replay: re-run ./check C09 with the same VERIF_SEED; cases are regenerated from the seed")


META = {
    "category": "proof",
    "technique": "Coq proof of the DMRG sweep/convergence control contract over a state-machine model + exact trace correspondence; dense eigvalsh falsifier",
    "text": ("Proved for every N>=3 (and separately for the two-site corner case N=2) and every energy oracle: the DMRG sweep schedule (2N-4 two-site minimisations per sweep, "
             "bath stacks and orthogonality centre consistent, no assertion can fire), and the convergence contract "
             "(a time step completes only after a sweep whose final energy differs from the previous sweep's by less than "
             "the tolerance; otherwise RuntimeError once the sweep budget is exhausted), and their composition over a whole run: for every energy stream split into per-step plans the run never fails, makes (#sweeps)*(2N-4) progress() calls and records each time step exactly once, in order, at its end time, after that step's first converged sweep (the sweep counter and the reference energy are never reset between time steps -- stated as is). Tied to DMRGBackendImpl by the "
             "exact event/attribute trace correspondence. That the converged state is the ground state is validated "
             "against dense diagonalisation, not proved."),
    "note": "Trusted: Coq kernel+VM, hand-written machine model validated by the trace correspondence, numpy eigvalsh.",
}
