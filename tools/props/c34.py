"""C34 — multi-trajectory results aggregate all simulated trajectories (DESIGN.md §4 C34).

Model: coq/Model/Aggregate.v (reps expansion of get_sequences, run() loop, pulser 1.9.1 Results.aggregate with
MEAN / BAG_UNION, in-place zeroing of shared drive tensors).  Theorems: coq/Properties/C34.v.
Tie (every run): (a) the real PulserData.get_sequences with scripted noisy_samples vs `expand`; (b) the real
run() of both backends with `_run_from_sequence_data` rebound to a stub that fabricates per-run Results with
dyadic values, aggregated by pulser's real Results.aggregate, vs vm_compute of `aggregate` (exact on rationals);
(c) real end-to-end runs with real kernels and shot-to-shot noise: recorded per-run Results vs the returned
aggregate, run count vs n_trajectories, freshness/sharing of the drive tensors, dark-atom zeroing."""
import json
import logging
import struct
import warnings
from collections import Counter
from fractions import Fraction

import numpy as np

from vlib import common
from vlib.coqparse import parse

HEADER = """From Coq Require Import ZArith QArith List.
Import ListNotations.
From EV Require Import Base.Arith Model.Aggregate.
Open Scope Z_scope."""
METH = {"SKIP": 0, "SKIP_WARN": 1, "MEAN": 2, "BAG_UNION": 3, "MEANSTD": 4}
METH_NAME = {v: k for k, v in METH.items()}
STALE = "trajectory-data-stale"
ERR_TEXT = {1: "No results to aggregate", 2: "is not present in all results", 3: "same aggregation functions",
            4: "same atom order", 5: "same sequence duration", 6: "are not all the same"}


def tcode(t):
    return int.from_bytes(struct.pack(">d", float(t)), "big")


# ---- (a) get_sequences expansion -------------------------------------------------------------------
def _small_sequence(n=2, dur=40):
    import pulser

    reg = pulser.Register({f"q{i}": (7.0 * i, 0.0) for i in range(n)})
    seq = pulser.Sequence(reg, pulser.MockDevice)
    seq.declare_channel("ch", "rydberg_global")
    seq.add(pulser.Pulse.ConstantPulse(dur, 3.0, -1.0, 0.2), "ch")
    return seq


def expansion_impl(reps_list, n=2, bads=None):
    """real get_sequences on a real PulserData whose `hamiltonian.noisy_samples` is scripted: trajectory i has the
    drives i / 1000+i / 2000+i, the interaction matrix with entries 100+i and the bad-atom pattern bads[i]"""
    import torch
    import emu_base.pulser_adapter as PA
    from types import SimpleNamespace
    from pulser.backend.config import EmulationConfig

    seq = _small_sequence(n)
    with warnings.catch_warnings():
        warnings.simplefilter("ignore")
        pd = PA.PulserData(sequence=seq, config=EmulationConfig(observables=[_occ([1.0])], interaction_cutoff=0.0), dt=10)
    calls = []

    def fake_extract(samples, qubit_ids, target_times, all_register_atoms=False):
        calls.append(samples.tid)
        mk = lambda base: torch.full((len(target_times) - 1, len(qubit_ids)), float(base + samples.tid),  # noqa: E731
                                     dtype=torch.complex128)
        return mk(0), mk(1000), mk(2000)

    ham = pd.hamiltonian
    bads = bads or [[False] * n for _ in reps_list]

    def matrix_of(i):
        m = torch.full((1, n, n), float(100 + i), dtype=torch.float64)
        m[0].fill_diagonal_(0.0)
        return lambda: m

    fake_samples = [SimpleNamespace(
        trajectory=SimpleNamespace(bad_atoms=dict(zip(pd.qubit_ids, bads[i])),
                                   interaction_matrix=SimpleNamespace(as_tensor=matrix_of(i))),
        samples=SimpleNamespace(tid=i), reps=r) for i, r in enumerate(reps_list)]
    pd.hamiltonian = SimpleNamespace(noisy_samples=fake_samples)
    saved = PA._extract_omega_delta_phi
    PA._extract_omega_delta_phi = fake_extract
    try:
        out = list(pd.get_sequences())
    finally:
        PA._extract_omega_delta_phi = saved
        pd.hamiltonian = ham
    ids = [int(round(float(sd.omega[0, 0].real))) for sd in out]
    ptrs = [sd.omega.data_ptr() for sd in out]
    # the trajectory each OTHER component of the yielded SequenceData comes from
    parts = {"delta": [int(round(float(sd.delta[0, 0].real))) - 1000 for sd in out],
             "phi": [int(round(float(sd.phi[0, 0].real))) - 2000 for sd in out],
             "interaction_matrix(0)": [int(round(float(sd.interaction_matrix(0.0)[0, 1]))) - 100 for sd in out],
             "interaction_matrix(T)": [int(round(float(sd.interaction_matrix(1e9)[1, 0]))) - 100 for sd in out]}
    bad_ok = [[bool(b) for b in sd.bad_atoms] == [bool(b) for b in bads[i]] if 0 <= i < len(bads) else False
              for sd, i in zip(out, ids)]
    return ids, ptrs, calls, parts, bad_ok


def expansion_stage(ctx, n_cases):
    cases = []
    for _ in range(n_cases):
        k = ctx.rng.randint(0, 8)
        cases.append([ctx.rng.choice([0, 1, 1, 2, 3, 7, ctx.rng.randint(1, 50)]) for _ in range(k)])
    # bad-atom patterns: mostly all-False (shot-to-shot noise without SPAM: the trajectories differ in everything else),
    # sometimes SPAM patterns, equal or different between trajectories
    pats = [[False, False], [False, False], [False, False], [True, False], [False, True]]
    bads_of = [[ctx.rng.choice(pats) for _ in c] for c in cases]
    ok, detail = True, ""
    try:
        ev = common.CoqEval("C34exp", HEADER)
        for c in cases:
            ev.add("expand [" + "; ".join(f"({i}, {r}%nat)" for i, r in enumerate(c)) + "]")
        outs = ev.run()
        for c, bads, o in zip(cases, bads_of, outs):
            ids, ptrs, calls, parts, bad_ok = expansion_impl(c, bads=bads)
            model = [int(x) for x in parse(o)] if c and sum(c) else []
            shared_ok = all((ptrs[i] == ptrs[j]) == (ids[i] == ids[j]) for i in range(len(ids)) for j in range(i))
            good = ids == model and len(ids) == sum(c) and shared_ok and calls == list(range(len(c)))
            ctx.count_case({"kind": "expansion", "reps": c, "yielded": len(ids), "bad_atoms": bads}, nontrivial=len(c) >= 2)
            # the yielded item IS trajectory `expand`[k]: every component (not only omega) comes from that trajectory
            stale = [name for name, v in parts.items() if v != model] + ([] if all(bad_ok) else ["bad_atoms"])
            if stale and ids == model:
                ctx.violation(f"get_sequences: with trajectories of reps {c} and bad atoms {bads} the yielded SequenceData take "
                              f"{stale[0]} from trajectories {parts.get(stale[0], bad_ok)} but omega from {ids}: an item is not "
                              f"the function of its own noise trajectory",
                              {"case": {"kind": "expansion", "reps": c, "bads": bads}, "finding_key": STALE})
                good = False
            if not good and ok:
                ok, detail = False, (f"reps={c} impl={ids} model={model} extract_calls={calls} sharing_ok={shared_ok} "
                                     f"other components from {parts} bad_atoms_ok={bad_ok}")
    except (common.CoqEvalError, ValueError) as ex:
        ok, detail = False, str(ex)
    ctx.obligation("correspondence:Model.Aggregate.expand==PulserData.get_sequences (order, count, tensor sharing; omega, "
                   "delta, phi, interaction matrix and bad atoms of every item from the same trajectory)",
                   ok, detail, kind="correspondence")


# ---- (b) run() + Results.aggregate vs the model -----------------------------------------------------
def _occ(et, suffix=None):
    from pulser.backend import Occupation
    return Occupation(evaluation_times=et, tag_suffix=suffix)


AGG_NOISES = ["none", "dephasing", "relaxation", "depolarizing", "spam+dephasing"]


def gen_agg_case(rng, malformed=False, noise="spam", n_runs=None):
    """per-run fabricated values: dyadic numbers so that sums are exact in binary64"""
    n_runs = n_runs or rng.choice([1, 2, 2, 3, 5, 8, 16, 50, rng.randint(1, 50)])
    n = rng.choice([2, 3])
    ntimes = rng.randint(1, 3)
    times = sorted(rng.sample([0.0, 0.25, 0.5, 0.75, 1.0], ntimes))
    obs = []
    for i in range(rng.randint(1, 4)):
        kind = rng.choice(["occupation", "energy", "bitstrings", "state", "occupation"])
        obs.append({"kind": kind, "suffix": f"s{i}", "times": times if rng.random() < 0.7 else [times[-1]],
                    "vtype": rng.choice(["tensor", "list", "float"]) if kind in ("occupation", "energy") else None})
    shots = rng.choice([1, 10, 100, 1000])
    runs = []
    for r in range(n_runs):
        vals = {}
        for o in obs:
            for t in o["times"]:
                key = f"{o['suffix']}@{t}"
                if o["kind"] == "bitstrings":
                    c = Counter()
                    for _ in range(min(shots, 6)):
                        c["".join(rng.choice("01") for _ in range(n))] += 1
                    first = next(iter(c))
                    c[first] += shots - sum(c.values())
                    vals[key] = dict(c)
                elif o["kind"] == "state":
                    vals[key] = r
                elif o["vtype"] == "float" or o["kind"] == "energy" and o["vtype"] != "list":
                    vals[key] = [rng.randint(-4096, 4096) / 256.0]
                else:
                    vals[key] = [rng.randint(0, 1024) / 1024.0 for _ in range(n)]
        runs.append(vals)
    case = {"n": n, "n_runs": n_runs, "obs": obs, "runs": runs, "shots": shots, "malformed": None,
            "backend": rng.choice(["sv", "mps"]), "noise": "spam"}
    case["noise"] = noise
    if malformed and n_runs >= 2:
        how = rng.choice(["drop_time", "order", "duration", "drop_obs"])
        case["malformed"] = {"how": how, "run": rng.randrange(n_runs)}
    return case


def _make_observables(case):
    from pulser.backend import BitStrings, Energy, StateResult

    out = []
    for o in case["obs"]:
        if o["kind"] == "occupation":
            out.append(_occ(o["times"], o["suffix"]))
        elif o["kind"] == "energy":
            out.append(Energy(evaluation_times=o["times"], tag_suffix=o["suffix"]))
        elif o["kind"] == "bitstrings":
            out.append(BitStrings(evaluation_times=o["times"], tag_suffix=o["suffix"], num_shots=case["shots"]))
        else:
            out.append(StateResult(evaluation_times=o["times"], tag_suffix=o["suffix"]))
    return out


def _value(o, raw):
    import torch
    if o["kind"] == "bitstrings":
        return Counter(raw)
    if o["kind"] == "state":
        return ("state-of-run", raw)
    if o["vtype"] == "tensor":
        return torch.tensor(raw, dtype=torch.float64)
    if o["vtype"] == "float" or (o["kind"] == "energy" and o["vtype"] != "list"):
        return float(raw[0])
    return list(raw)


def run_agg_impl(case):
    """real Backend.run(): real PulserData/get_sequences (SPAM noise => several trajectories with reps), real
    Results.aggregate; only `_run_from_sequence_data` is a stub fabricating the per-run Results"""
    import emu_mps
    import emu_sv
    import pulser
    from pulser.backend import Results

    observables = _make_observables(case)
    seq = _small_sequence(case["n"])
    nk = case.get("noise", "spam")
    nkw = {}
    if "spam" in nk:
        nkw.update(state_prep_error=0.3, p_false_pos=0.0, p_false_neg=0.0)
    if "dephasing" in nk:
        nkw.update(dephasing_rate=0.2)
    if nk == "relaxation":
        nkw.update(relaxation_rate=0.3)
    if nk == "depolarizing":
        nkw.update(depolarizing_rate=0.1)
    nm = pulser.NoiseModel(**nkw) if nkw else None    # "none": the empty noise model
    cls, cfgcls = (emu_sv.SVBackend, emu_sv.SVConfig) if case["backend"] == "sv" else (emu_mps.MPSBackend, emu_mps.MPSConfig)
    kw = {"gpu": False} if case["backend"] == "sv" else {}
    with warnings.catch_warnings():
        warnings.simplefilter("ignore")
        cfg = cfgcls(dt=10, observables=observables, noise_model=nm, n_trajectories=case["n_runs"],
                     log_level=logging.CRITICAL, **kw)
    per_run, datas = [], []

    def stub(sequence_data, config):
        i = len(per_run)
        datas.append(sequence_data)
        order = tuple(sequence_data.qubit_ids)
        dur = int(sequence_data.target_times[-1])
        mal = case["malformed"]
        if mal and mal["run"] == i:
            if mal["how"] == "order":
                order = tuple(reversed(order))
            elif mal["how"] == "duration":
                dur += 1
        res = Results(atom_order=order, total_duration=dur)
        for k, (o, ob) in enumerate(zip(case["obs"], observables)):
            if mal and mal["run"] == i and mal["how"] == "drop_obs" and k == 0:
                continue
            for j, t in enumerate(o["times"]):
                if mal and mal["run"] == i and mal["how"] == "drop_time" and k == 0 and j == 0:
                    continue
                res._store(observable=ob, time=t, value=_value(o, case["runs"][i][f"{o['suffix']}@{t}"]))
        per_run.append(res)
        return res

    saved = cls.__dict__["_run_from_sequence_data"]
    cls._run_from_sequence_data = staticmethod(stub)
    np.random.seed(case.get("np_seed", 0))
    err = None
    try:
        with warnings.catch_warnings():
            warnings.simplefilter("ignore")
            out = cls(seq, config=cfg).run()
    except (ValueError, NotImplementedError) as ex:
        out, err = None, str(ex)
    finally:
        cls._run_from_sequence_data = saved
    return out, per_run, datas, observables, err


def _enc_results(case, res, observables):
    """Gallina literal of one per-run Results as the stub built it"""
    ids = {q: i for i, q in enumerate(sorted(res.atom_order))}
    ents = []
    for k, (o, ob) in enumerate(zip(case["obs"], observables)):
        if ob.tag not in res.get_result_tags():
            continue
        times = res.get_result_times(ob.tag)
        vals = []
        for t in times:
            v = res.get_result(ob.tag, t)
            if isinstance(v, Counter):
                vals.append("VBag [" + "; ".join(f"({int(b, 2)}, {c})" for b, c in v.items()) + "]")
            elif isinstance(v, tuple):
                vals.append("VNum []")
            else:
                xs = [v] if isinstance(v, float) else [float(x) for x in v]
                fr = [Fraction(x) for x in xs]
                vals.append("VNum [" + "; ".join(f"(({f.numerator}) # {f.denominator})%Q" for f in fr) + "]")
        m = METH_NAME[int(ob.default_aggregation_method)]
        ents.append(f"MkE {k} {100 + k} {m} [{'; '.join(str(tcode(t)) for t in times)}] [{'; '.join(vals)}]")
    order = "; ".join(str(ids[q]) for q in res.atom_order)
    return f"MkR [{order}] {res.total_duration} [{'; '.join(ents)}]"


def _canon_real(case, out, observables):
    d = {}
    for k, (o, ob) in enumerate(zip(case["obs"], observables)):
        if ob.tag not in out.get_result_tags():
            continue
        ent = []
        for t in out.get_result_times(ob.tag):
            v = out.get_result(ob.tag, t)
            if isinstance(v, Counter):
                ent.append((tcode(t), ("bag", sorted((int(b, 2), c) for b, c in v.items() if c))))
            elif isinstance(v, tuple):
                ent.append((tcode(t), ("other", v[1])))
            else:
                xs = [v] if isinstance(v, float) else [float(x) for x in v]
                ent.append((tcode(t), ("num", xs)))
        d[k] = ent
    return d


def _canon_model(val):
    code, (order, dur, ents) = val
    if code != 0:
        return code, None
    d = {}
    for tag, uid, meth, times, vals in ents:
        ent = []
        for t, (kind, pairs) in zip(times, vals):
            if kind == 1:
                c = Counter()
                for b, cnt in pairs:
                    c[int(b)] += int(cnt)
                ent.append((int(t), ("bag", sorted(c.items()))))
            else:
                ent.append((int(t), ("num", [Fraction(int(a), int(b)) for a, b in pairs])))
        d[int(tag)] = ent
    return 0, d


def _close(real, model):
    """exact rational mean vs the float computed by numpy/torch: within 2 ulp (one rounding of the sum is
    exact for dyadic inputs; numpy divides once, torch may multiply by the rounded reciprocal)"""
    if set(real) != set(model):
        return False, f"tags {sorted(real)} vs {sorted(model)}"
    for k in real:
        if [t for t, _ in real[k]] != [t for t, _ in model[k]]:
            return False, f"times of tag {k}"
        for (t, (ka, va)), (_, (kb, vb)) in zip(real[k], model[k]):
            if ka == "other":
                continue
            if ka != kb:
                return False, f"kind {ka}/{kb}"
            if ka == "bag":
                if va != vb:
                    return False, f"bag tag {k}: {va} vs {vb}"
            else:
                if len(va) != len(vb):
                    return False, f"length tag {k}"
                for x, q in zip(va, vb):
                    if abs(Fraction(x) - q) > Fraction(abs(x)) * Fraction(1, 2 ** 51):
                        return False, f"mean tag {k}: real {x!r} vs exact {float(q)!r}"
    return True, ""


def aggregate_stage(ctx, n_cases):
    ok, detail, hist = True, "", {}
    try:
        ev = common.CoqEval("C34agg", HEADER)
        recs = []
        for i in range(n_cases):
            if i % 3 == 2:   # trajectory-invariant models (empty / Lindblad-only / mixed), n_trajectories 2, 5, 12
                case = gen_agg_case(ctx.rng, noise=AGG_NOISES[(i // 3) % len(AGG_NOISES)],
                                    n_runs=[2, 5, 12][(i // 3) % 3])
            else:
                case = gen_agg_case(ctx.rng, malformed=(i % 6 == 5))
            case["np_seed"] = ctx.rng.randrange(2 ** 31)
            out, per_run, datas, observables, err = run_agg_impl(case)
            ev.add("dump (aggregate [" + "; ".join(_enc_results(case, r, observables) for r in per_run) + "])")
            recs.append((case, out, per_run, datas, observables, err))
        outs = ev.run()
        for (case, out, per_run, datas, observables, err), o in zip(recs, outs):
            code, model = _canon_model(parse(o))
            how = (case["malformed"] or {}).get("how")
            key = f"{case['backend']}/{case['noise']}/runs={'1' if case['n_runs'] == 1 else '2+'}/{how or 'ok'}/{'err' if err else 'ok'}"
            hist[key] = hist.get(key, 0) + 1
            ctx.count_case({"kind": "aggregate", "backend": case["backend"], "n_runs": case["n_runs"], "noise": case["noise"],
                            "obs": [(x["kind"], x["vtype"]) for x in case["obs"]], "malformed": how,
                            "error": bool(err)}, nontrivial=case["n_runs"] >= 2)
            good, d = True, ""
            if len(per_run) != case["n_runs"]:
                good, d = False, f"{len(per_run)} runs simulated for n_trajectories={case['n_runs']}"
                ctx.violation(f"run() simulated {len(per_run)} trajectories for n_trajectories={case['n_runs']}",
                              {"case": case, "finding_key": "run-count"})
            elif err is not None:
                if code == 0 or ERR_TEXT.get(code, "@@") not in err:
                    good, d = False, f"real raised {err!r}, model code {code}"
            elif code != 0:
                good, d = False, f"model error {code}, real succeeded"
            else:
                if case["n_runs"] == 1 and out is not per_run[0]:
                    good, d = False, "single run not returned unchanged"
                if good:
                    good, d = _close(_canon_real(case, out, observables), model)
                if good:  # bitstring totals
                    for ob, oc in zip(observables, case["obs"]):
                        if oc["kind"] == "bitstrings" and ob.tag in out.get_result_tags():
                            for t in out.get_result_times(ob.tag):
                                tot = sum(out.get_result(ob.tag, t).values())
                                if tot != case["n_runs"] * case["shots"]:
                                    good, d = False, f"bitstring total {tot} != {case['n_runs']}*{case['shots']}"
            if not good and ok:
                ok, detail = False, f"case backend={case['backend']} n_runs={case['n_runs']} malformed={how}: {d}"
                ctx.extra["first_aggregate_disagreement"] = {"case": case, "detail": d}
    except (common.CoqEvalError, ValueError) as ex:
        ok, detail = False, repr(ex)
    ctx.extra["aggregate_distribution"] = hist
    ctx.obligation("correspondence:Model.Aggregate.aggregate==backend.run()+pulser Results.aggregate (exact on rationals)",
                   ok, detail, kind="correspondence")


# ---- (c) real kernels, real noise: per-run results vs aggregate; tensor sharing ------------------------
def gen_e2e_case(rng):
    noise = rng.choice(["spam", "spam", "amplitude", "detuning", "register", "spam+amplitude", "none", "dephasing",
                        "relaxation", "depolarizing", "spam+dephasing", "none", "dephasing", "register+spam+amplitude"])
    lind = any(k in noise for k in ("dephasing", "relaxation", "depolarizing"))
    return {"backend": rng.choice(["sv", "mps"]), "n": rng.choice([2, 3]), "noise": noise,
            "ntraj": rng.choice([1, 2, 3, 5, 8, 13, 20, 50]) if not (lind or noise == "none") else rng.choice([2, 5, 8, 12]),
            "eta": rng.choice([0.2, 0.5, 0.8]), "shots": rng.choice([10, 100]), "seed": rng.randrange(2 ** 31)}


def _noise_model(case):
    import pulser
    k = case["noise"]
    kw = {}
    if "spam" in k:
        kw.update(state_prep_error=case["eta"], p_false_pos=0.05, p_false_neg=0.1)
    if "amplitude" in k:
        kw.update(amp_sigma=0.2)
    if k == "detuning":
        kw.update(detuning_sigma=0.5)
    if "register" in k:
        kw.update(temperature=50.0, trap_waist=1.0, trap_depth=150.0)   # noise types: doppler + register
    if "dephasing" in k:
        kw.update(dephasing_rate=40.0)     # strong: P(no jump in a 60 ns emu-mps run) <= exp(-2.4)
    if k == "relaxation":
        kw.update(relaxation_rate=5.0)
    if k == "depolarizing":
        kw.update(depolarizing_rate=20.0)
    if not kw:
        return None
    with warnings.catch_warnings():
        warnings.simplefilter("ignore")
        return pulser.NoiseModel(**kw)


def run_e2e(case):
    import torch
    import emu_mps
    import emu_sv
    import emu_base.pulser_adapter as PA
    from emu_base.pulser_adapter import PulserData
    from pulser.backend import BitStrings, Energy, Occupation

    seq = _small_sequence(case["n"], dur=60)
    obs = [Occupation(evaluation_times=[0.5, 1.0]), Energy(evaluation_times=[1.0]),
           BitStrings(evaluation_times=[1.0], num_shots=case["shots"])]
    cls, cfgcls = (emu_sv.SVBackend, emu_sv.SVConfig) if case["backend"] == "sv" else (emu_mps.MPSBackend, emu_mps.MPSConfig)
    kw = {"gpu": False} if case["backend"] == "sv" else {}
    nm = _noise_model(case)
    with warnings.catch_warnings():
        warnings.simplefilter("ignore")
        cfg = cfgcls(dt=10, observables=obs, noise_model=nm, n_trajectories=case["ntraj"],
                     log_level=logging.CRITICAL, **kw)
        clean = next(iter(PulserData(sequence=seq, config=cfgcls(dt=10, observables=obs, log_level=logging.CRITICAL, **kw),
                                     dt=10).get_sequences()))
    clean_omega = clean.omega.clone()
    per_run, info = [], []
    orig = cls.__dict__["_run_from_sequence_data"].__func__

    captured = []          # the PulserData built by run(): its hamiltonian holds the sampled noise trajectories
    orig_gs = PA.PulserData.get_sequences

    def recording_get_sequences(self):
        captured.append(self)
        return orig_gs(self)

    def wrapped(sequence_data, config):
        before = sequence_data.omega.clone()
        t_end = float(sequence_data.target_times[-1])
        given = {"delta": sequence_data.delta.clone(), "phi": sequence_data.phi.clone(),
                 "imat0": sequence_data.interaction_matrix(0.0).clone(),
                 "imatT": sequence_data.interaction_matrix(t_end).clone()}
        res = orig(sequence_data, config)
        per_run.append(res)
        # keep the tensor itself alive: a freed storage may be handed out again to a later trajectory, which
        # would make equal data_ptr values meaningless (false alarm seen in the thorough tier)
        info.append({"bad": tuple(sequence_data.bad_atoms), "ptr": sequence_data.omega.data_ptr(),
                     "alive": sequence_data.omega,
                     "before": before, "after": sequence_data.omega.clone(), "spe": sequence_data.state_prep_error,
                     "given": given})
        return res

    cls._run_from_sequence_data = staticmethod(wrapped)
    PA.PulserData.get_sequences = recording_get_sequences
    import random as _random
    np.random.seed(case["seed"])
    torch.manual_seed(case["seed"])
    _random.seed(case["seed"])           # emu-mps draws its quantum-jump thresholds from the global `random`
    try:
        with warnings.catch_warnings():
            warnings.simplefilter("ignore")
            out = cls(seq, config=cfg).run()
    finally:
        cls._run_from_sequence_data = staticmethod(orig)
        PA.PulserData.get_sequences = orig_gs
    return out, per_run, info, obs, clean_omega, (captured[-1] if captured else None)


def own_trajectory_problems(case, pd, info):
    """every SequenceData a run received must be the function of ITS OWN noise trajectory (the k-th of the reps
    expansion of the trajectories pulser sampled for this run()): interaction matrix = that trajectory's matrix with
    the cutoff applied (these sequences have no SLM mask and no user matrix), bad atoms, and the drive tables of that
    trajectory's noisy samples on its well-prepared atoms (emu-sv zeroes the others in place).  Bit for bit: same code."""
    import torch
    from emu_base.pulser_adapter import _extract_omega_delta_phi

    if pd is None:
        return [("harness", "run() did not call PulserData.get_sequences")]
    with warnings.catch_warnings():
        warnings.simplefilter("ignore")
        own = [smp for smp in pd.hamiltonian.noisy_samples for _ in range(smp.reps)]
    if len(own) != len(info):
        return []      # reported as run-count
    out = []
    for k, (smp, a) in enumerate(zip(own, info)):
        tr = smp.trajectory
        bad = tuple(bool(b) for b in tr.bad_atoms.values())
        if tuple(bool(b) for b in a["bad"]) != bad:
            out.append((STALE, f"run {k} of {len(info)} got bad_atoms {a['bad']}, its noise trajectory has {bad}"))
            break
        m = tr.interaction_matrix.as_tensor()
        m = (m[0] if m.dim() == 3 else m).clone()
        m[m.abs() < pd.interaction_cutoff] = 0.0
        for name in ("imat0", "imatT"):
            got = a["given"][name]
            if got.shape != m.shape or not torch.equal(got, m):
                err = float((got - m).abs().max()) if got.shape == m.shape else float("inf")
                whose = [j for j, o in enumerate(own) if j != k and torch.equal(
                    got, (lambda x: torch.where(x.abs() < pd.interaction_cutoff, torch.zeros_like(x), x))(
                        o.trajectory.interaction_matrix.as_tensor().reshape(-1, *m.shape)[0]))]
                out.append((STALE, f"run {k} of {len(info)} (noise model: {case['noise']}) was simulated with an interaction "
                                   f"matrix that is not the one of its own noise trajectory (max difference {err:.3g}"
                                   + (f"; it is the matrix of trajectory {whose[0]}" if whose else "") + "): the aggregate "
                                   f"does not combine the {len(info)} sampled trajectories"))
                break
        else:
            good = [j for j, b in enumerate(bad) if not b]
            want = _extract_omega_delta_phi(smp.samples, pd.qubit_ids, pd.target_times, all_register_atoms=True)
            for name, got, w in zip(("omega", "delta", "phi"), (a["before"], a["given"]["delta"], a["given"]["phi"]), want):
                if got.shape != w.shape or not torch.equal(got[:, good], w[:, good]):
                    out.append((STALE, f"run {k} of {len(info)} (noise model: {case['noise']}) was simulated with a {name} "
                                       f"table that is not the one of its own noise trajectory"))
                    break
            else:
                continue
        break
    return out


def check_e2e(ctx, case):
    try:
        out, per_run, info, obs, clean_omega, pd = run_e2e(case)
    except Exception as ex:  # noqa: BLE001
        if case["backend"] == "mps" and "spam" in case["noise"]:
            # emu-mps refuses trajectories with fewer than 2 well-prepared atoms (finding F-13, reported under its own property)
            ctx.extra["mps_few_good_atoms_skipped"] = ctx.extra.get("mps_few_good_atoms_skipped", 0) + 1
            return
        ctx.violation(f"run() raised with n_trajectories={case['ntraj']} noise={case['noise']}: {ex!r}",
                      {"case": case, "finding_key": "multi-trajectory-raises"})
        return
    problems = []
    # "the returned results combine exactly n_trajectories simulations": for EVERY noise model (empty, Lindblad-only,
    # SPAM, shot-to-shot, mixed), on both backends
    expect = case["ntraj"]
    if len(per_run) != expect:
        problems.append(("run-count", f"{len(per_run)} simulations for n_trajectories={expect} (noise model: {case['noise']})"))
    # emu-mps unravels Lindblad noise into quantum-jump trajectories: the runs must be independent draws.
    # dephasing 40/us or depolarizing 20/us on >= 2 atoms for 60 ns: P(a run has no jump) <= 0.1, so
    # P(all of >= 8 runs are the identical no-jump trajectory) <= 1e-8
    if (case["backend"] == "mps" and len(per_run) >= 8
            and any(k in case["noise"] for k in ("dephasing", "depolarizing"))):
        occs = [tuple(np.round(np.asarray(r.get_result("occupation", 1.0), dtype=float), 12)) for r in per_run]
        if len(set(occs)) == 1:
            problems.append(("identical-jump-trajectories",
                             f"all {len(per_run)} emu-mps runs with Lindblad noise returned identical occupations"))
    if len(per_run) == 1 and out is not per_run[0]:
        problems.append(("single-run", "single run not returned unchanged"))
    # "combine exactly n_trajectories simulations": run k is the simulation of noise trajectory k, not of another one
    problems += own_trajectory_problems(case, pd, info)
    if len(per_run) >= 2:
        for tag in ("occupation", "energy"):
            for t in out.get_result_times(tag):
                vals = np.array([np.asarray(r.get_result(tag, t), dtype=float) for r in per_run])
                agg = np.asarray(out.get_result(tag, t), dtype=float)
                if np.abs(agg - vals.mean(axis=0)).max() > 1e-12 * (1 + np.abs(vals).max()):
                    problems.append(("mean", f"{tag}@{t}: aggregate {agg} != mean of runs {vals.mean(axis=0)}"))
        union = Counter()
        for r in per_run:
            union += Counter(r.get_result("bitstrings", 1.0))
        if Counter(out.get_result("bitstrings", 1.0)) != union:
            problems.append(("counts", "aggregated bitstrings are not the multiset union of the runs"))
    tot = sum(out.get_result("bitstrings", 1.0).values())
    if tot != len(per_run) * case["shots"]:
        problems.append(("counts", f"bitstring total {tot} != {len(per_run)} runs * {case['shots']} shots"))
    if tot != case["ntraj"] * case["shots"]:
        problems.append(("counts", f"bitstring total {tot} != n_trajectories {case['ntraj']} * {case['shots']} shots "
                                   f"(noise model: {case['noise']})"))
    # drive tensors: the same storage only between runs with the same bad atoms; every run sees, before it
    # starts, the clean drive on its good atoms (no leftover zeroing from an earlier trajectory)
    if "spam" in case["noise"] and case["noise"] == "spam":
        for a in info:
            good = [j for j, b in enumerate(a["bad"]) if not b]
            if good and not np.allclose(a["before"][:, good].numpy(), clean_omega[:, good].numpy(), rtol=0, atol=1e-12):
                problems.append(("shared-tensor-corrupted",
                                 f"a run with bad atoms {a['bad']} started from drives already zeroed on good atoms"))
            if case["backend"] == "sv":
                bad = [j for j, b in enumerate(a["bad"]) if b]
                if bad and a["spe"] > 0 and float(a["after"][:, bad].abs().max()) != 0.0:
                    problems.append(("dark-not-zeroed", f"bad atoms {a['bad']} kept a drive"))
        for i, a in enumerate(info):
            for b in info[:i]:
                if a["ptr"] == b["ptr"] and a["bad"] != b["bad"]:
                    problems.append(("shared-tensor-corrupted", "trajectories with different bad atoms share a tensor"))
    ctx.count_case({"kind": "e2e", **{k: case[k] for k in ("backend", "n", "noise", "ntraj")},
                    "runs": len(per_run), "distinct_bad": len({a["bad"] for a in info})}, nontrivial=len(per_run) >= 2)
    for key, what in problems[:3]:
        ctx.violation(what, {"case": case, "finding_key": key})


def corpus_cases():
    p = common.VERIF / "corpus" / "C34.json"
    return json.loads(p.read_text()) if p.exists() else []


def run(ctx):
    warnings.showwarning = lambda *a, **k: None   # pulser re-enables "Skipping aggregation" warnings inside aggregate
    common.coq_make(["Model/Aggregate.vo"])
    common.standard_proof_stage(ctx, "C34", ["Properties/C34.vo"])
    expansion_stage(ctx, ctx.n(25, 300))
    aggregate_stage(ctx, ctx.n(24, 400))
    for c in corpus_cases():
        check_e2e(ctx, c)
    # always: register noise (every trajectory has its own atom positions, identical bad atoms), one backend per run
    fixed = gen_e2e_case(ctx.rng)
    fixed.update(noise="register", ntraj=3, n=3)
    check_e2e(ctx, fixed)
    for _ in range(ctx.n(10, 150)):
        case = gen_e2e_case(ctx.rng)
        if not ctx.thorough():
            case["ntraj"] = min(case["ntraj"], 13)   # quick tier: keep the wall time under ~90 s on a busy box
        check_e2e(ctx, case)
    ctx.rule = ("(a) reps lists of 0-8 trajectories with reps 0..50: real get_sequences with scripted noisy_samples vs "
                "`expand` (order, count, one extraction per trajectory, tensor shared exactly between repetitions); "
                "(b) real run() of both backends, SPAM noise with n_trajectories 1..50 and empty / Lindblad-only / mixed noise "
                "models with n_trajectories 2, 5, 12, `_run_from_sequence_data` stubbed "
                "to fabricate per-run Results (tensor/list/float MEAN values, BitStrings counters, SKIP_WARN states; "
                "malformed: missing time, missing observable, atom order, duration): pulser's Results.aggregate vs "
                "vm_compute of the model on exact rationals; (c) real kernels, 2-3 atoms, SPAM/amplitude/detuning/"
                "register/dephasing/relaxation/depolarizing/mixed/no noise, n_trajectories 1..50: recorded per-run Results vs the returned aggregate, "
                "number of runs, bitstring totals, state of the shared drive tensors before/after every run; the SequenceData "
                "every run received (interaction matrix at t = 0 and T, bad atoms, omega/delta/phi on the well-prepared atoms) "
                "vs the k-th noise trajectory pulser sampled for that run() (key trajectory-data-stale); in (a) the scripted "
                "trajectories carry distinct drives, interaction matrices and equal/different bad-atom patterns and every "
                "component of each yielded item must come from the trajectory `expand` names. "
                "non-trivial = >= 2 runs (or >= 2 trajectories for the expansion).")
    ctx.trusted_base += ["hand-written Model/Aggregate.v of pulser 1.9.1 Results.aggregate, tied by correspondence (b)",
                         "the stub replacing _run_from_sequence_data in (b) (fabricates Results through the real "
                         "Results._store and the real observables' aggregation methods)"]
    ctx.assumptions += ["sum(reps) == n_trajectories is Pulser's (HamiltonianData._create_noise_trajectories): checked "
                        "in (b)/(c) for shot-to-shot noise, not proved",
                        "MEANSTD aggregation and user-supplied aggregation functions are outside the model (no emu "
                        "observable uses them by default)",
                        "float means are compared to the exact rational mean within 2 ulp",
                        "emu-mps runs whose trajectory has < 2 well-prepared atoms raise (known finding F-13) and are skipped in (c)"]


def replay(ctx, path):
    rp = json.load(open(path))
    if "case" in rp and "noise" in rp["case"]:
        check_e2e(ctx, rp["case"])
    elif rp.get("case", {}).get("kind") == "expansion":
        c = rp["case"]
        ids, ptrs, calls, parts, bad_ok = expansion_impl(c["reps"], bads=c["bads"])
        print("omega from trajectories", ids, "other components from", parts, "bad atoms ok", bad_ok)
        if any(v != ids for v in parts.values()) or not all(bad_ok):
            ctx.violation("replayed: a yielded SequenceData mixes components of different noise trajectories",
                          {"case": c, "finding_key": STALE})
    elif "case" in rp:
        out, per_run, datas, observables, err = run_agg_impl(rp["case"])
        print("runs:", len(per_run), "error:", err)
        if len(per_run) != rp["case"]["n_runs"]:
            ctx.violation("replayed: wrong number of runs", {"case": rp["case"], "finding_key": "run-count"})


META = {
    "category": "proof",
    "technique": ("Coq proof over a hand model of the reps expansion, the run() loop and pulser's Results.aggregate "
                  "(MEAN / BAG_UNION) + exact correspondence with the real code (stubbed kernels) + end-to-end falsifier"),
    "text": ("Proved for all inputs of the model: get_sequences yields sum(reps) items, trajectory j repeated reps_j "
             "times in order; run() aggregates exactly one result per yielded item; one run is returned unchanged; "
             "whenever aggregation of >= 2 runs succeeds every MEAN value is mean_vec of exactly one value per run (and "
             "n * mean = sum, componentwise, over Q), every BAG_UNION value is the multiset union (counts add, total = "
             "n_runs * shots); zeroing shared drive rows is idempotent across repetitions, while different masks "
             "would accumulate (hence fresh tensors per trajectory, which the tie checks). Validated, not proved: that "
             "Pulser's reps add up to n_trajectories; floating-point means within 2 ulp of the exact mean; that the "
             "item `expand` yields for trajectory j IS the whole of trajectory j in the real code: every component of every "
             "yielded SequenceData (omega, delta, phi, interaction matrix, bad atoms) comes from its own trajectory, on scripted "
             "trajectories and, end to end, for every noise type pulser samples per trajectory incl. register noise: the k-th "
             "simulation of run() receives the interaction matrix / bad atoms / drives of the k-th sampled NoiseTrajectory "
             "(oracle key trajectory-data-stale)."),
    "note": ("Trusted: Coq kernel+VM; the hand model of pulser 1.9.1 Results.aggregate (validated by the correspondence "
             "incl. its error paths); stubs. MEANSTD/custom aggregators outside the model."),
}
