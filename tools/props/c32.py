"""C32 — qubit-order optimisation returns a valid, no-worse permutation; permutation helpers are
mutually consistent (DESIGN.md §4 C32).

Tie = hand model + correspondence:
  * helpers (permutations.py): model == real code, exhaustively for all permutations of n <= 5, random
    up to n = 30, plus a malformed stream (negative / out-of-range / duplicate / short index tensors,
    non-square matrices);
  * optimiser (optimiser.py): the real `minimize_bandwidth` with SciPy's RCM and torch.randperm replaced
    by recording / adversarial oracles is compared *exactly* with the model fed the same oracle answers;
    the unmodified optimiser's outputs are judged by the Coq predicate `result_ok` (= the theorem's
    conclusion, C32_result_ok_is_the_predicate).
"""
import itertools
import json

from vlib import common

HEADER = """From Coq Require Import String Ascii ZArith List Bool.
Import ListNotations.
From EV Require Import Base.Arith Model.Permutations Model.Optimiser.
Open Scope Z_scope."""

ERR = {201: "IndexError", 202: "unspecified", 203: "ValueError", 210: "RuntimeError", 211: "ValueError",
       212: "NotImplementedError", 213: "AssertionError:symmetric", 214: "AssertionError:optimised"}


# ---- Coq literals -----------------------------------------------------------------------
def zl(xs):
    return "[" + "; ".join(str(int(x)) if x >= 0 else f"({int(x)})" for x in xs) + "]"


def nl(xs):
    return "([" + "; ".join(str(int(x)) for x in xs) + "]%nat)"


def zm(m):
    return "[" + "; ".join(zl(r) for r in m) + "]"


def dec(v):
    """('Ok', x) / ('Err', code) -> (kind, payload)"""
    if isinstance(v, tuple) and v[0] == "Ok":
        return ("ok", v[1])
    if isinstance(v, tuple) and v[0] == "Err":
        return ("err", ERR.get(v[1], str(v[1])))
    return ("?", v)


# ---- helpers: real side -------------------------------------------------------------------
def real_helpers(case):
    import torch
    from emu_mps.optimatrix import permutations as P

    pz = torch.tensor(case["perm"], dtype=torch.int64)
    out = {}

    def call(name, f):
        try:
            out[name] = ("ok", f())
        except IndexError:
            out[name] = ("err", "IndexError")
        except ValueError:
            out[name] = ("err", "ValueError")

    call("list", lambda: P.permute_list(list(case["list"]), pz))
    call("tuple", lambda: list(P.permute_tuple(tuple(case["list"]), pz)))
    call("string", lambda: P.permute_string(case["string"], pz))
    call("vector", lambda: P.permute_tensor(torch.tensor(case["list"], dtype=torch.int64), pz).tolist())
    call("matrix", lambda: P.permute_tensor(torch.tensor(case["matrix"], dtype=torch.int64).reshape(
        len(case["matrix"]), len(case["matrix"][0]) if case["matrix"] else 0), pz).tolist())
    call("inv", lambda: P.inv_permutation(pz).tolist())
    return out


def model_helpers_expr(case):
    p = zl(case["perm"])
    return (f"(permute_list_py {zl(case['list'])} {p}, permute_string_py \"{case['string']}\"%string {p}, "
            f"permute_matrix_py {zm(case['matrix'])} {p}, inv_permutation_py {p})")


def compare_helpers(case, real, model):
    """returns None or a description of the disagreement"""
    ml, ms, mm, mi = (dec(x) for x in model)
    pairs = [("list", ml), ("tuple", ml), ("vector", ml), ("string", ms), ("matrix", mm), ("inv", mi)]
    for name, m in pairs:
        r = real[name]
        if m == ("err", "unspecified"):
            # model: the real code returns uninitialised memory; any value is allowed, exceptions are not
            if r[0] != "ok":
                return f"{name}: model=unspecified-value real={r}"
            continue
        if name == "matrix" and m[0] == "ok" and r[0] == "ok" and m[1] == [] and r[1] == []:
            continue
        if r != m:
            return f"{name}: model={m} real={r}"
    return None


def helper_property(ctx, case, real):
    """The property itself on the real helpers (valid permutations only)."""
    import torch
    from emu_mps.optimatrix import permutations as P

    if case["kind"] != "valid":
        return
    n = len(case["perm"])
    p = torch.tensor(case["perm"], dtype=torch.int64)
    bad = None
    if any(real[k][0] != "ok" for k in real):
        bad = "a helper raised on a valid permutation"
    else:
        q = P.inv_permutation(p)
        lst = list(case["list"])
        if P.permute_list(P.permute_list(lst, p), q) != lst or P.permute_list(P.permute_list(lst, q), p) != lst:
            bad = "inverse does not undo permute_list"
        elif P.permute_string(P.permute_string(case["string"], p), q) != case["string"]:
            bad = "inverse does not undo permute_string"
        else:
            m = torch.tensor(case["matrix"], dtype=torch.int64).reshape(n, n)
            if not torch.equal(P.permute_tensor(P.permute_tensor(m, p), q), m):
                bad = "inverse does not undo permute_tensor (2D)"
            pl_, ps_, pv_, pm_ = real["list"][1], real["string"][1], real["vector"][1], real["matrix"][1]
            for k in range(n):
                if not (pl_[k] == lst[case["perm"][k]] == pv_[k] and ps_[k] == case["string"][case["perm"][k]]
                        and all(pm_[k][j] == case["matrix"][case["perm"][k]][case["perm"][j]] for j in range(n))):
                    bad = "helpers do not move the same elements"
    if bad:
        ctx.violation(bad, {"case": case, "finding_key": "helpers-inconsistent", "stage": "helpers"})


def gen_helper_case(rng, n, perm=None, kind="valid"):
    if perm is None:
        perm = list(range(n))
        rng.shuffle(perm)
    m = len(perm) if kind == "valid" else n
    return {"kind": kind, "perm": list(perm),
            "list": [rng.randint(-9, 9) for _ in range(m)],
            "string": "".join(rng.choice("01rgx") for _ in range(m)),
            "matrix": [[rng.randint(-9, 9) for _ in range(m)] for _ in range(m)]}


def gen_malformed_helper_case(rng):
    n = rng.randint(1, 7)
    how = rng.choice(["negative", "out_of_range", "duplicate", "short", "long", "nonsquare", "far_negative"])
    perm = list(range(n))
    rng.shuffle(perm)
    if how == "negative":
        k = rng.randrange(n)
        perm[k] = perm[k] - n
    elif how == "out_of_range":
        perm[rng.randrange(n)] = n + rng.randint(0, 2)
    elif how == "far_negative":
        perm[rng.randrange(n)] = -n - rng.randint(1, 2)
    elif how == "duplicate" and n >= 2:
        perm[0] = perm[1]
    elif how == "short":
        perm = perm[: max(0, n - rng.randint(1, n))]
    elif how == "long":
        perm = perm + [rng.randrange(n) for _ in range(rng.randint(1, 3))]
    c = gen_helper_case(rng, n, perm, kind="malformed:" + how)
    if how == "nonsquare":
        c["matrix"] = [row + [0] for row in c["matrix"]]
    return c


# ---- optimiser: real side with interposed oracles ----------------------------------------
class Oracles:
    """Rebinds optimiser.reverse_cuthill_mckee and optimiser.torch.randperm (through a proxy module
    object bound to the module-level name `torch` of emu_mps.optimatrix.optimiser)."""

    def __init__(self, mode, seed, rnds=None):
        self.mode, self.seed, self.rnds = mode, seed, rnds
        self.table = {}
        self.order = []
        self.drawn = []

    def __enter__(self):
        import numpy as np
        import torch
        import random as _r
        import emu_mps.optimatrix.optimiser as O

        self.O = O
        self.saved = (O.reverse_cuthill_mckee, O.torch)
        real_rcm = O.reverse_cuthill_mckee
        me = self

        def rcm(csr, symmetric_mode=False):
            key = tuple(tuple(int(x) for x in row) for row in csr.toarray())
            if key not in me.table:
                n = len(key)
                if me.mode == "scipy":
                    ans = [int(x) for x in real_rcm(csr, symmetric_mode=symmetric_mode)]
                else:
                    r = _r.Random(f"{me.seed}-{key}")
                    u = r.random()
                    if me.mode == "junk" and u < 0.5:
                        ans = [r.randrange(n) for _ in range(n)]  # not a permutation (in range)
                    elif u < 0.15:
                        ans = list(range(n))
                    elif u < 0.3:
                        ans = [int(x) for x in real_rcm(csr, symmetric_mode=symmetric_mode)]
                    else:
                        ans = list(range(n))
                        r.shuffle(ans)
                        if u < 0.6 and n >= 2:  # a transposition: small steps give long improvement chains
                            ans = list(range(n))
                            i, j = r.sample(range(n), 2)
                            ans[i], ans[j] = ans[j], ans[i]
                me.table[key] = ans
                me.order.append(key)
            return np.array(me.table[key], dtype=np.int32)

        class TorchProxy:
            def __getattr__(self, name):
                return getattr(torch, name)

            @staticmethod
            def randperm(n):
                if me.rnds is not None:
                    p = me.rnds[len(me.drawn)]
                    t = torch.tensor(p, dtype=torch.int64)
                else:
                    t = torch.randperm(n)
                me.drawn.append([int(x) for x in t])
                return t

        O.reverse_cuthill_mckee = rcm
        O.torch = TorchProxy()
        return self

    def __exit__(self, *a):
        self.O.reverse_cuthill_mckee, self.O.torch = self.saved


def snapshot(t):
    """bit-level picture of a tensor: dtype, shape and the raw bytes (distinguishes -0.0 from 0.0, NaN payloads)"""
    return (str(t.dtype), tuple(t.shape), t.detach().contiguous().numpy().tobytes())


def run_real_optimiser(matrix, samples, torch_seed=None, oracles=None, frame=None):
    """frame (a dict, optional) receives 'input_unchanged': the tensor handed to minimize_bandwidth is bit-identical
    after the call (also when the call raised)"""
    import torch

    n = len(matrix)
    m = torch.tensor(matrix, dtype=torch.float64).reshape(n, n)
    before = snapshot(m)
    try:
        return _run_real_optimiser(m, samples, torch_seed, oracles)
    finally:
        if frame is not None:
            frame["input_unchanged"] = snapshot(m) == before
            if not frame["input_unchanged"]:
                frame["input_after_call"] = m.tolist()


def _run_real_optimiser(m, samples, torch_seed, oracles):
    import torch
    from emu_mps.optimatrix import optimiser as O

    if torch_seed is not None:
        torch.manual_seed(torch_seed)
    try:
        if oracles is None:
            p = O.minimize_bandwidth(m, samples=samples)
        else:
            with oracles:
                p = O.minimize_bandwidth(m, samples=samples)
        return ("ok", [int(x) for x in p])
    except NotImplementedError:
        return ("err", "NotImplementedError")
    except AssertionError as ex:
        return ("err", "AssertionError:" + ("symmetric" if "symmetric" in str(ex) else "optimised"))
    except IndexError:
        return ("err", "IndexError")
    except RuntimeError:
        return ("err", "RuntimeError")
    except ValueError:
        return ("err", "ValueError")


def py_bandwidth(m):
    n = len(m)
    return max(abs(m[i][j] * (j - i)) for i in range(n) for j in range(n))


def py_permute(m, p):
    return [[m[i][j] for j in p] for i in p]


def gen_matrix(rng, n, symmetric=True):
    style = rng.choice(["sparse", "dense", "ties", "zero_rows", "chain", "ring", "grid", "blocks"])
    hi = rng.choice([1, 2, 5, 9, 40])
    m = [[0] * n for _ in range(n)]

    def put(i, j, v):
        m[i][j] = v
        m[j][i] = v

    if style in ("chain", "ring", "grid"):
        lab = list(range(n))
        rng.shuffle(lab)
        w = max(1, int(n ** 0.5))
        for k in range(n - 1):
            if style != "grid" or (k + 1) % w:
                put(lab[k], lab[k + 1], rng.choice([1, hi]))
            if style == "grid" and k + w < n:
                put(lab[k], lab[k + w], rng.choice([1, hi]))
        if style == "ring" and n > 2:
            put(lab[0], lab[-1], 1)
    else:
        dens = {"sparse": 0.15, "dense": 0.9, "ties": 0.5, "zero_rows": 0.4, "blocks": 0.6}[style]
        for i in range(n):
            for j in range(i):
                if style == "blocks" and (i % 3) != (j % 3):
                    continue
                if rng.random() < dens:
                    v = 1 if style == "ties" else rng.randint(1, hi)
                    put(i, j, v * rng.choice([1, 1, -1]))
        if style == "zero_rows":
            for z in rng.sample(range(n), max(1, n // 3)):
                for j in range(n):
                    m[z][j] = 0
                    m[j][z] = 0
    if rng.random() < 0.3:
        for i in range(n):
            m[i][i] = rng.randint(-hi, hi)
    if not symmetric and n >= 2:
        i, j = rng.sample(range(n), 2)
        m[i][j] += 1
    return {"style": style, "matrix": m}


# ---- frame condition: the public functions are pure functions of their tensor arguments ----------
# The Coq models are functions: they return a value and cannot touch their argument.  The real functions receive
# torch tensors by reference (MPSBackendImpl hands minimize_bandwidth the very tensor that
# SequenceData.interaction_matrix(t) returns), so "model == real code" includes: after the call -- normal return or
# exception -- every tensor argument is bit-identical (sign bits included) to what was passed in.
FRAME_SPECIALS = [0.0, -0.0, 1.0, -1.0, 0.5, -0.5, 1e-12, -1e-12, 1e6, -1e6, 3.0, -3.0]


def gen_frame_case(rng, n=None):
    n = rng.randint(1, 12) if n is None else n
    sign = rng.choice(["mixed", "mixed", "mixed", "negative", "positive"])
    dens = rng.choice([0.3, 0.7, 1.0])
    m = [[0.0] * n for _ in range(n)]
    for i in range(n):
        for j in range(i):
            if rng.random() < dens:
                v = rng.choice(FRAME_SPECIALS) if rng.random() < 0.25 else round(rng.uniform(0.01, 10.0), 6) * rng.choice([1, -1])
                v = -abs(v) if sign == "negative" else (abs(v) if sign == "positive" else v)
                m[i][j] = m[j][i] = v
    if rng.random() < 0.3:
        for i in range(n):
            m[i][i] = round(rng.uniform(-5, 5), 6)
    symmetric = True
    if n >= 2 and rng.random() < 0.1:  # the asserting path must not have written into the input either
        i, j = rng.sample(range(n), 2)
        m[i][j] += 1.0
        symmetric = False
    perm = list(range(n))
    rng.shuffle(perm)
    amp = max([abs(x) for r in m for x in r] or [0.0])
    return {"n": n, "sign": sign, "symmetric": symmetric, "matrix": m, "perm": perm,
            "dtype": rng.choice(["float64", "float64", "float32"]),
            "layout": rng.choice(["contiguous", "transposed", "view"]),
            "threshold": round(rng.uniform(0.0, 1.0) * amp, 6), "samples": rng.choice([0, 1, 2]),
            "torch_seed": rng.randrange(2 ** 31)}


def frame_tensor(case):
    """the matrix as a tensor in the requested memory layout; returns (tensor, base) -- base is the storage owner"""
    import torch

    n = case["n"]
    dt = getattr(torch, case["dtype"])
    m = torch.tensor(case["matrix"], dtype=dt).reshape(n, n)
    if case["layout"] == "transposed":
        base = m.T.contiguous()
        return base.T, base
    if case["layout"] == "view":
        base = torch.full((n + 2, n + 3), 7.25, dtype=dt)
        base[1:n + 1, 2:n + 2] = m
        return base[1:n + 1, 2:n + 2], base
    return m, m


def frame_calls(case):
    """name -> callable(m, perm, vec) for every public function of optimiser.py / permutations.py"""
    import emu_mps.optimatrix.optimiser as O
    import emu_mps.optimatrix.permutations as P

    n = case["n"]
    lst = list(range(10, 10 + n))
    return {
        "is_symmetric": lambda m, p, v: O.is_symmetric(m),
        "matrix_bandwidth": lambda m, p, v: O.matrix_bandwidth(m),
        "minimize_bandwidth_above_threshold": lambda m, p, v: O.minimize_bandwidth_above_threshold(m, case["threshold"]),
        "minimize_bandwidth_global": lambda m, p, v: O.minimize_bandwidth_global(m),
        "minimize_bandwidth_impl": lambda m, p, v: O.minimize_bandwidth_impl(m, p),
        "minimize_bandwidth": lambda m, p, v: O.minimize_bandwidth(m, samples=case["samples"]),
        "permute_tensor": lambda m, p, v: (P.permute_tensor(m, p), P.permute_tensor(v, p)),
        "inv_permutation": lambda m, p, v: P.inv_permutation(p),
        "permute_list": lambda m, p, v: P.permute_list(lst, p),
        "permute_tuple": lambda m, p, v: P.permute_tuple(tuple(lst), p),
        "permute_string": lambda m, p, v: P.permute_string("".join("01rgx"[k % 5] for k in range(n)), p),
        "eye_permutation": lambda m, p, v: P.eye_permutation(n),
    }


def run_frame_case(case, only=None):
    """[(function, what changed, value after)] for every call that altered one of its tensor arguments"""
    import torch

    changed, raised = [], {}
    for name, f in frame_calls(case).items():
        if only and name != only:
            continue
        m, base = frame_tensor(case)
        p = torch.tensor(case["perm"], dtype=torch.int64)
        v = torch.tensor([float(k) - 2.5 for k in range(case["n"])], dtype=m.dtype)
        before = {"matrix": snapshot(m), "matrix-storage": snapshot(base), "perm": snapshot(p), "vector": snapshot(v)}
        torch.manual_seed(case["torch_seed"])
        try:
            f(m, p, v)
        except Exception as ex:  # noqa: BLE001  (an exception path must not have written into the arguments either)
            raised[name] = type(ex).__name__
        after = {"matrix": snapshot(m), "matrix-storage": snapshot(base), "perm": snapshot(p), "vector": snapshot(v)}
        for k in before:
            if before[k] != after[k]:
                changed.append((name, k, {"matrix": m, "matrix-storage": base, "perm": p, "vector": v}[k].tolist()))
                break
    return changed, raised


def frame_check(ctx, case, hist=None):
    changed, raised = run_frame_case(case)
    for name, what, after in changed:
        ctx.violation(f"{name} wrote into its argument: the {what} passed in is no longer bit-identical after the call "
                      f"(a caller's tensor -- e.g. the one SequenceData.interaction_matrix(t) hands out -- is altered)",
                      {"case": case, "function": name, "argument": what, "argument_after_call": after,
                       "finding_key": "optimatrix-mutates-argument", "stage": "frame"})
    if hist is not None:
        for name, exn in raised.items():
            hist[f"frame/raised/{name}/{exn}"] = hist.get(f"frame/raised/{name}/{exn}", 0) + 1
    return changed


def thresholds_tie(ctx, ev):
    """Model/Optimiser.torch_thresholds == the float32 values torch.arange(0.1, 1.0, 0.01) yields."""
    import torch
    from fractions import Fraction

    vals = [Fraction(x.item()) * 2 ** 27 for x in torch.arange(0.1, 1.0, 0.01)]
    ok = all(v.denominator == 1 for v in vals)
    lit = "[" + "; ".join(f"({int(v)}, den27)" for v in vals) + "]"
    idx = ev.add(f"(length torch_thresholds, forallb (fun '(a, b) => (fst a =? fst b) && (snd a =? snd b)) "
                 f"(combine torch_thresholds {lit}), (length {lit}))")
    return ok, idx


def run(ctx):
    from vlib.coqparse import parse
    import inspect

    rc, out = common.coq_make(["Model/Permutations.vo", "Model/Optimiser.vo"])
    ctx.obligation("build:models", rc == 0, out, kind="build")
    common.standard_proof_stage(ctx, "C32", ["Properties/C32.vo"])

    # the model is hand-written: pin the anchored functions it mirrors (a change of their set of names
    # or signatures is a broken tie; behaviour is tied by the correspondence below)
    import emu_mps.optimatrix.optimiser as O
    import emu_mps.optimatrix.permutations as P
    want = {"optimiser": ["is_symmetric", "matrix_bandwidth", "minimize_bandwidth",
                          "minimize_bandwidth_above_threshold", "minimize_bandwidth_global",
                          "minimize_bandwidth_impl"],
            "permutations": ["eye_permutation", "inv_permutation", "permute_list", "permute_string",
                             "permute_tensor", "permute_tuple"]}
    got = {"optimiser": sorted(n for n, f in vars(O).items() if inspect.isfunction(f) and f.__module__ == O.__name__),
           "permutations": sorted(n for n, f in vars(P).items() if inspect.isfunction(f) and f.__module__ == P.__name__)}
    ctx.obligation("modelled-function-inventory", got == want, f"expected {want}, found {got}", kind="correspondence")

    corpus = []
    cp = common.VERIF / "corpus" / "C32.json"
    if cp.exists():
        corpus = json.loads(cp.read_text())

    ev = common.CoqEval("C32", HEADER)
    th_ok, th_idx = thresholds_tie(ctx, ev)

    # ---------------- helpers ----------------
    hcases = [c["case"] for c in corpus if c.get("stage") == "helpers"]
    for n in range(0, 6):
        for perm in itertools.permutations(range(n)):
            hcases.append(gen_helper_case(ctx.rng, n, list(perm)))
    for _ in range(ctx.n(60, 600)):
        hcases.append(gen_helper_case(ctx.rng, ctx.rng.randint(6, 30)))
    for _ in range(ctx.n(60, 400)):
        hcases.append(gen_malformed_helper_case(ctx.rng))
    hreal = [real_helpers(c) for c in hcases]
    for c, r in zip(hcases, hreal):
        helper_property(ctx, c, r)
    hidx = [ev.add(model_helpers_expr(c)) for c in hcases]

    # ---------------- optimiser: predicate on the unmodified code ----------------
    pcases = [c["case"] for c in corpus if c.get("stage") == "predicate"]
    sizes = list(range(1, 31))
    n_default, n_small = ctx.n(10, 120), ctx.n(60, 600)
    for k in range(n_default + n_small):
        n = sizes[k % 30] if k < 60 else ctx.rng.randint(1, 30)
        g = gen_matrix(ctx.rng, n)
        pcases.append({"n": n, "style": g["style"], "matrix": g["matrix"],
                       "samples": 100 if k < n_default else ctx.rng.choice([0, 1, 2, 5]),
                       "torch_seed": ctx.rng.randrange(2 ** 31)})
    pidx = []
    for c in pcases:
        fr = {}
        r = run_real_optimiser(c["matrix"], c["samples"], c["torch_seed"], frame=fr)
        c["result"] = r
        frame_violation(ctx, c, fr, "predicate")
        predicate_check(ctx, c)
        if r[0] == "ok":
            pidx.append((c, ev.add(f"result_ok {zm(c['matrix'])} {nl(r[1])}")))

    # ---------------- optimiser: exact replay with interposed oracles ----------------
    rcases = [c["case"] for c in corpus if c.get("stage") == "replay"]
    for k in range(ctx.n(70, 700)):
        mode = ctx.rng.choice(["scipy", "adversarial", "adversarial", "adversarial", "junk"])
        kind = ctx.rng.choices(["sym", "nonsym", "empty"], [0.9, 0.07, 0.03])[0]
        n = 0 if kind == "empty" else ctx.rng.randint(1, 7)
        g = gen_matrix(ctx.rng, n, symmetric=(kind != "nonsym")) if n else {"style": "empty", "matrix": []}
        samples = ctx.rng.choice([0, 1, 2, 3])
        rnds = None
        if ctx.rng.random() < 0.5:
            rnds = []
            for _ in range(samples):
                p = list(range(n))
                ctx.rng.shuffle(p)
                rnds.append(p)
        rcases.append({"n": n, "style": g["style"], "matrix": g["matrix"], "samples": samples, "mode": mode,
                       "kind": kind, "oracle_seed": ctx.rng.randrange(2 ** 31), "rnds": rnds,
                       "torch_seed": ctx.rng.randrange(2 ** 31)})
    ridx = []
    for c in rcases:
        orc = Oracles(c["mode"], c["oracle_seed"], c["rnds"])
        fr = {}
        r = run_real_optimiser(c["matrix"], c["samples"], c["torch_seed"], orc, frame=fr)
        c["result"] = r
        frame_violation(ctx, c, fr, "replay")
        tbl = "[" + "; ".join(f"({zm(k)}, {nl(orc.table[k])})" for k in orc.order) + "]"
        rn = "[" + "; ".join(nl(p) for p in orc.drawn) + "]"
        c["rcm_distinct_calls"] = len(orc.order)
        if c["mode"] != "junk" and c["kind"] == "sym":
            predicate_check(ctx, c)
        ridx.append((c, ev.add(f"minimize_bandwidth (lookup_oracle {tbl}) torch_thresholds {zm(c['matrix'])} {rn}")))

    # ---------------- frame condition: no public function writes into its tensor arguments ----------------
    fhist = {}
    fcases = [c["case"] for c in corpus if c.get("stage") == "frame"]
    fcases += [gen_frame_case(ctx.rng, n) for n in range(1, 13)]
    fcases += [gen_frame_case(ctx.rng) for _ in range(ctx.n(25, 400))]
    n_frame_bad = 0
    for c in fcases:
        n_frame_bad += len(frame_check(ctx, c, fhist))
        neg = any(x < 0 for r in c["matrix"] for x in r)
        ctx.count_case({"stage": "frame", **{k: c[k] for k in ("n", "sign", "dtype", "layout", "torch_seed")}}, c["n"] >= 2 and neg)
        fhist[f"frame/{c['sign']}/{c['dtype']}/{c['layout']}"] = fhist.get(f"frame/{c['sign']}/{c['dtype']}/{c['layout']}", 0) + 1
    n_frame_bad += sum(1 for c in pcases + rcases if c.get("input_unchanged") is False)
    n_signed = sum(1 for c in pcases + rcases if any(x < 0 for r in c["matrix"] for x in r))
    ctx.extra["frame_cases_with_negative_entries"] = n_signed + sum(1 for c in fcases if any(x < 0 for r in c["matrix"] for x in r))
    ctx.obligation("frame:every public function of optimatrix leaves its tensor arguments bit-identical (all signs, "
                   "float32/float64, contiguous / transposed / view inputs, also when it raises)",
                   n_frame_bad == 0 and n_signed > 0,
                   f"{n_frame_bad} call(s) altered an argument; inputs with negative entries: {n_signed}", kind="correspondence")

    # ---------------- evaluate the model, compare ----------------
    detail = {"helpers": "", "predicate": "", "replay": "", "thresholds": ""}
    try:
        outs = ev.run()
        tv = parse(outs[th_idx])
        if not (th_ok and tv[0] == 90 and tv[1] is True and tv[2] == 90):
            detail["thresholds"] = f"torch.arange(0.1,1.0,0.01) differs from Model.Optimiser.torch_thresholds: {tv}"
        hist = {}
        for c, r, i in zip(hcases, hreal, hidx):
            d = compare_helpers(c, r, parse(outs[i]))
            ctx.count_case({"stage": "helpers", "kind": c["kind"], "perm": c["perm"]}, len(c["perm"]) >= 2)
            hist["helpers/" + c["kind"].split(":")[0]] = hist.get("helpers/" + c["kind"].split(":")[0], 0) + 1
            if d and not detail["helpers"]:
                detail["helpers"] = f"{d} case={c}"
                ctx.extra["first_disagreement_helpers"] = {"case": c, "what": d}
        for c, i in pidx:
            okb = parse(outs[i])
            ctx.count_case({"stage": "predicate", "n": c["n"], "style": c["style"], "samples": c["samples"],
                            "seed": c["torch_seed"]}, c["n"] >= 3 and c["result"][1] != list(range(c["n"])))
            hist["predicate/" + c["style"]] = hist.get("predicate/" + c["style"], 0) + 1
            if okb is not True:
                if not detail["predicate"]:
                    detail["predicate"] = f"Coq result_ok is false for the real optimiser's output: {c}"
                ctx.violation("minimize_bandwidth returned an order the Coq predicate result_ok rejects",
                              {"case": c, "finding_key": "optimiser-not-valid-or-worse", "stage": "predicate"})
        for c, i in ridx:
            m = dec(parse(outs[i]))
            r = c["result"]
            if m[0] == "ok":
                m = ("ok", [int(x) for x in m[1]])
            ctx.count_case({"stage": "replay", "n": c["n"], "mode": c["mode"], "samples": c["samples"],
                            "oseed": c["oracle_seed"], "result": r}, c["n"] >= 3)
            key = f"replay/{c['mode']}/{r[1] if r[0] == 'err' else 'ok'}"
            hist[key] = hist.get(key, 0) + 1
            if m != r and not detail["replay"]:
                detail["replay"] = f"model={m} real={r} case={c}"
                ctx.extra["first_disagreement_replay"] = {"case": c, "model": m, "real": r}
        hist.update(fhist)
        ctx.extra["input_distribution"] = dict(sorted(hist.items()))
        ctx.extra["rcm_distinct_calls_max"] = max([c["rcm_distinct_calls"] for c in rcases] or [0])
    except (common.CoqEvalError, ValueError) as ex:
        for k in detail:
            detail[k] = detail[k] or str(ex)
    ctx.obligation("tie:torch_thresholds==torch.arange(0.1,1.0,0.01)", not detail["thresholds"],
                   detail["thresholds"], kind="correspondence")
    ctx.obligation("correspondence:Model.Permutations==optimatrix/permutations.py (exact)",
                   not detail["helpers"], detail["helpers"], kind="correspondence")
    ctx.obligation("correspondence:result_ok(real minimize_bandwidth output)", not detail["predicate"],
                   detail["predicate"], kind="correspondence")
    ctx.obligation("correspondence:Model.Optimiser==optimatrix/optimiser.py under replayed oracles (exact)",
                   not detail["replay"], detail["replay"], kind="correspondence")
    ctx.rule = ("helpers: every permutation of n<=5, random permutations n<=30, malformed index tensors; "
                "optimiser: random symmetric integer matrices n=1..30 (8 structure styles, signs, ties, zero "
                "rows, diagonals) through the unmodified code (Coq predicate) and n<=7 with SciPy-recorded / "
                "adversarial / non-permutation RCM answers and scripted or recorded randperm (exact model "
                "equality); frame: every public function of optimiser.py / permutations.py on float matrices n=1..12 with "
                "mixed / all-negative / all-positive entries, -0.0, float32 and float64, contiguous / transposed / sliced-"
                "view inputs, symmetric and not: all tensor arguments (and the storage behind a view) bit-identical after "
                "the call, also on the exception paths; the same check on every predicate / replay call; "
                "non-trivial = n>=2 (helpers), n>=3 (optimiser), n>=2 with a negative entry (frame); distinct by input hash")
    ctx.trusted_base += ["hand models Model/Permutations.v, Model/Optimiser.v (validated by the correspondences "
                         "of this run)", "SciPy reverse_cuthill_mckee returns a permutation of 0..n-1 (theorem "
                         "premise; checked on every recorded call)"]
    ctx.assumptions += ["optimiser theorems are over integer-valued matrices (exact arithmetic); for float "
                        "weights the same control applies to the rounded products, NaN entries excluded",
                        "is_symmetric is exact for |entries| < 1e4 (torch.allclose rtol=1e-5)",
                        "the 100-round NotImplementedError is an explicit, allowed outcome; it is proved "
                        "unreachable only when every start has bandwidth < 100"]


def frame_violation(ctx, c, fr, stage):
    c["input_unchanged"] = fr.get("input_unchanged")
    if fr.get("input_unchanged") is False:
        ctx.violation("minimize_bandwidth wrote into its argument: the interaction matrix passed in is no longer "
                      "bit-identical after the call (the caller's tensor is altered)",
                      {"case": c, "function": "minimize_bandwidth", "argument_after_call": fr.get("input_after_call"),
                       "finding_key": "optimatrix-mutates-argument", "stage": stage})


def predicate_check(ctx, c):
    """The theorem's conclusion, evaluated independently in Python on the real output."""
    r, m, n = c["result"], c["matrix"], c["n"]
    if r[0] == "err":
        if r[1] == "NotImplementedError":
            return  # explicit, allowed outcome
        ctx.violation(f"minimize_bandwidth raised {r[1]} on a symmetric matrix",
                      {"case": c, "finding_key": "optimiser-raises", "stage": "predicate"})
        return
    p = r[1]
    if sorted(p) != list(range(n)):
        ctx.violation("minimize_bandwidth did not return a permutation of all atoms",
                      {"case": c, "finding_key": "optimiser-not-valid-or-worse", "stage": "predicate"})
    elif py_bandwidth(py_permute(m, p)) > py_bandwidth(m):
        ctx.violation("minimize_bandwidth returned an order with a larger bandwidth than the original",
                      {"case": c, "finding_key": "optimiser-not-valid-or-worse", "stage": "predicate"})


def replay(ctx, path):
    rp = json.loads(open(path).read())
    c = rp["case"]
    if rp.get("stage") == "helpers":
        r = real_helpers(c)
        print("replay helpers:", r)
        helper_property(ctx, c, r)
        return
    if rp.get("stage") == "frame":
        changed = frame_check(ctx, c)
        print("replay frame: arguments altered by", [(name, what) for name, what, _ in changed] or "no call")
        return
    orc = Oracles(c["mode"], c["oracle_seed"], c.get("rnds")) if "mode" in c else None
    fr = {}
    c["result"] = run_real_optimiser(c["matrix"], c["samples"], c.get("torch_seed"), orc, frame=fr)
    print("replay optimiser result:", c["result"], "input unchanged:", fr.get("input_unchanged"))
    frame_violation(ctx, c, fr, rp.get("stage", "predicate"))
    predicate_check(ctx, c)


META = {
    "category": "proof",
    "technique": "Coq proof over hand models of permutations.py / optimiser.py (oracles as Section variables) "
                 "+ exact correspondence with the real code under replayed oracles",
    "text": ("Proved for every size n and every permutation: inv_permutation returns the inverse permutation; "
             "permuting then un-permuting is the identity for lists, tuples, strings, vectors and square "
             "matrices (both orders); all helpers move the same elements (position k <- perm[k]); composition "
             "law; matrix_bandwidth = max |m_ij (j-i)|. Proved for every RCM oracle returning permutations, "
             "every list of random restarts and every threshold list: minimize_bandwidth's result is a "
             "permutation of all atoms whose bandwidth is <= the input's (and <= every restart's), no assertion "
             "or index error can fire, only the explicit NotImplementedError, unreachable when all starting "
             "bandwidths are < 100. Validated only: that the models equal the Python code (exact correspondence "
             "on generated inputs), SciPy's RCM returning permutations; the frame condition that makes a functional "
             "model adequate -- minimize_bandwidth and every other public function of optimatrix leave their tensor "
             "arguments bit-identical (signs included; float32/float64, views, exception paths), so the matrix a "
             "caller such as MPSBackendImpl passes in (the tensor SequenceData.interaction_matrix hands out) is the "
             "same before and after the ordering was chosen."),
    "note": ("Trusted: Coq kernel+VM, hand models (validated every run), integer-valued matrices (float rounding "
             "of weights outside the theorems), torch.allclose exactness for small integers."),
}
