"""Helpers shared by the C26/C27 checks: tiny emu-mps simulations and interposition on the module-level
names of emu_mps.mps_backend_impl (no source hooks; everything is restored afterwards)."""
from __future__ import annotations

import contextlib
import logging
import os
import pathlib
import shutil
import tempfile

from vlib import common


def make_sequence(n_atoms=2, duration=20, amp=3.1, det=0.5, spacing=7.0, local_shift=0.35, order=None,
                  local=None):
    """A short constant global pulse on a slightly irregular chain (irregular so that qubit orderings differ).
    order: atom q_i sits at chain position order[i] (atoms listed out of chain order => the optimiser reorders).
    local: {"target": i, "amp":, "det":, "phase":} adds a simultaneous pulse on a local channel addressing q_i,
    so that the omega/delta/phi columns of the atoms differ."""
    import pulser

    xs = [spacing * i + local_shift * i * i for i in range(n_atoms)]
    order = list(order) if order is not None else list(range(n_atoms))
    reg = pulser.Register({f"q{i}": (xs[order[i]], 0.0) for i in range(n_atoms)})
    seq = pulser.Sequence(reg, pulser.MockDevice)
    seq.declare_channel("ch", "rydberg_global")
    seq.add(pulser.Pulse.ConstantAmplitude(amplitude=amp,
                                           detuning=pulser.waveforms.ConstantWaveform(duration, det),
                                           phase=0.0), "ch")
    if local is not None:
        seq.declare_channel("loc", "rydberg_local", initial_target=f"q{local['target']}")
        seq.add(pulser.Pulse.ConstantPulse(duration, local["amp"], local["det"], local["phase"]), "loc",
                protocol="no-delay")
    return seq


def sequence_datas(seq, config):
    from emu_base import PulserData

    return list(PulserData(sequence=seq, config=config, dt=config.dt).get_sequences())


class Crash(BaseException):
    """Simulated kill -9: not an Exception, so no `except Exception` of the code under test sees it."""


@contextlib.contextmanager
def scratch_dir(tag: str):
    """A scratch directory under /verif/build, entered as cwd (autosave files are created in cwd)."""
    common.BUILD.mkdir(exist_ok=True)
    d = pathlib.Path(tempfile.mkdtemp(prefix=tag + "_", dir=str(common.BUILD)))
    old = os.getcwd()
    os.chdir(d)
    try:
        yield d
    finally:
        os.chdir(old)
        shutil.rmtree(d, ignore_errors=True)


@contextlib.contextmanager
def rebound(obj, **names):
    """Temporarily rebind attributes (module-level names / class attributes); always restored."""
    missing = object()
    saved = {}
    try:
        for k, v in names.items():
            saved[k] = obj.__dict__.get(k, missing) if hasattr(obj, "__dict__") else getattr(obj, k, missing)
            setattr(obj, k, v)
        yield
    finally:
        for k, v in saved.items():
            if v is missing:
                try:
                    delattr(obj, k)
                except AttributeError:
                    pass
            else:
                setattr(obj, k, v)


class FakeClock:
    """Stand-in for the `time` module inside mps_backend_impl: every call advances by `step` seconds,
    so with step > autosave_dt every progress() autosaves."""

    def __init__(self, step=1000.0):
        self.t = 0.0
        self.step = step

    def time(self):
        self.t += self.step
        return self.t

    def __getattr__(self, k):
        import time as _t

        return getattr(_t, k)


def quiet():
    import warnings

    import torch

    torch.set_num_threads(1)  # tiny tensors; avoids thread contention on a busy box
    warnings.filterwarnings("ignore", message="Casting complex values to real")
    logging.getLogger("emulators").setLevel(logging.CRITICAL)
