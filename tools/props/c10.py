"""C10 — MPS truncation and canonical form honour their contract (DESIGN.md §4 C10).

Proof part: coq/Properties/C10.v  (cutoff index / split rank arithmetic at R; canonical-form bookkeeping of every
public MPS operation as an oracle-parametric state machine).
Tie: (1) bit-exact correspondence of the cutoff model (PrimFloat instance) with `_determine_cutoff_index` on
generated lists AND on every eigenvalue list the real truncations produce; `split_kept` against the real
`split_matrix` ranks; (2) random operation histories on real MPS objects: bond dimensions and orthogonality centre
compared exactly with the executable instance of the machine, claimed isometries compared with MEASURED ones.
Falsifier: after every operation the declared centre is checked by measurement, the truncations are checked against
an independent dense bipartition SVD (kept rank <= max_bond_dim, discarded weight <= precision^2 unless the cap
binds), the represented state must not move under re-centring, norm() must equal the dense norm.
"""
import json
import math

from vlib import common

HEADER = """From Coq Require Import ZArith List Bool PrimFloat.
Import ListNotations.
From EV Require Import Base.Arith Model.Canon.
Open Scope float_scope.
Open Scope nat_scope."""

ISO_TOL = 1e-9          # >= 1e6 x rounding of a QR / eigh orthonormal factor
MACH = 2.220446049250313e-16


# ---- helpers on real objects --------------------------------------------------------------------
def dense_state(factors):
    import torch

    cur = factors[0][0]
    for t in factors[1:]:
        cur = torch.tensordot(cur, t, dims=1)
    return cur[..., 0]


def is_left_iso(t):
    import torch

    m = t.reshape(-1, t.shape[2])
    g = m.conj().T @ m
    return bool((g - torch.eye(g.shape[0], dtype=g.dtype)).abs().max() < ISO_TOL)


def is_right_iso(t):
    import torch

    m = t.reshape(t.shape[0], -1)
    g = m @ m.conj().T
    return bool((g - torch.eye(g.shape[0], dtype=g.dtype)).abs().max() < ISO_TOL)


def observe_real(m):
    bonds = [m.factors[0].shape[0]] + [f.shape[2] for f in m.factors]
    return {"bonds": bonds, "L": [is_left_iso(f) for f in m.factors], "R": [is_right_iso(f) for f in m.factors],
            "oc": m.orthogonality_center}


def rand_mps(rng, n, d, chimax, tgen):
    import torch

    bonds = [1] + [rng.randint(1, chimax) for _ in range(n - 1)] + [1]
    return [torch.randn(bonds[i], d, bonds[i + 1], dtype=torch.complex128, generator=tgen) for i in range(n)]


def rand_mpo(rng, n, d, wmax, tgen):
    import torch

    bonds = [1] + [rng.randint(1, wmax) for _ in range(n - 1)] + [1]
    return [torch.randn(bonds[i], d, d, bonds[i + 1], dtype=torch.complex128, generator=tgen) for i in range(n)]


def eig(d):
    return ("r", "g") if d == 2 else ("g", "r", "x")


# ---- interposition: record what the real truncation does ------------------------------------------
class Recorder:
    """Rebinds module-level names of the running interpreter (no source hooks); restored by close()."""

    def __init__(self):
        import emu_mps.utils as U
        import emu_mps.algebra as AL
        import emu_mps.mps as MP

        self.U, self.AL, self.MP = U, AL, MP
        self.orig_cut, self.orig_split, self.orig_trunc = U._determine_cutoff_index, U.split_matrix, U.truncate_impl
        self.cut_log = []      # (d list, max_error, result)
        self.split_log = []    # dict per split inside truncate_impl
        self.trunc_args = []   # (precision, max_bond_dim) of every truncate_impl call
        self.cur_factors = None
        self.cur_cfg = None
        rec = self

        def cut(d, max_error):
            r = rec.orig_cut(d, max_error)
            if len(rec.cut_log) < 4000:
                rec.cut_log.append(([float(x) for x in d.tolist()], float(max_error), int(r)))
            rec.last_cut = (int(r), int(d.shape[0]))
            return r

        def split(m, *a, **k):
            import torch

            info = None
            if rec.cur_factors is not None:
                fs = rec.cur_factors
                i = rec.cur_i
                n = len(fs)
                if n <= 10:
                    psi = dense_state(fs)
                    dphys = fs[0].shape[1]
                    sv = torch.linalg.svdvals(psi.reshape(dphys ** i, -1))
                    info = {"site": i, "sv": sv}
            l, r = rec.orig_split(m, *a, **k)
            if rec.cur_factors is not None:
                kept = int(r.shape[0])
                cut_i, length = rec.last_cut
                entry = {"site": rec.cur_i, "kept": kept, "cut": cut_i, "len": length,
                         "max_error": k.get("max_error"), "max_rank": k.get("max_rank")}
                if info is not None:
                    sv = info["sv"]
                    entry["discarded"] = float((sv[kept:] ** 2).sum()) if kept < sv.shape[0] else 0.0
                    entry["svmax2"] = float(sv.max() ** 2) if sv.numel() else 0.0
                rec.split_log.append(entry)
                rec.cur_i -= 1
            return l, r

        def trunc(factors, precision, max_bond_dim):
            rec.cur_factors = factors
            rec.cur_i = len(factors) - 1
            rec.pre_trunc = {"L": [is_left_iso(f) for f in factors[:-1]]}
            rec.trunc_args.append((float(precision), int(max_bond_dim)))
            try:
                return rec.orig_trunc(factors, precision=precision, max_bond_dim=max_bond_dim)
            finally:
                rec.cur_factors = None

        U._determine_cutoff_index = cut
        U.split_matrix = split
        U.truncate_impl = trunc
        AL.truncate_impl = trunc
        MP.truncate_impl = trunc

    def close(self):
        self.U._determine_cutoff_index = self.orig_cut
        self.U.split_matrix = self.orig_split
        self.U.truncate_impl = self.orig_trunc
        self.AL.truncate_impl = self.orig_trunc
        self.MP.truncate_impl = self.orig_trunc


# ---- model encodings -----------------------------------------------------------------------------
def ft(l, r, cl, cr):
    b = lambda x: "true" if x else "false"
    return f"(MkFT {l} {r} {b(cl)} {b(cr)})"


def nats(xs):
    return "[" + ";".join(str(int(x)) for x in xs) + "]"


def op_expr(o):
    k = o["op"]
    if k == "orth":
        return f"@OOrth FT FM {o['c']}"
    if k == "trunc":
        return f"@OTrunc FT FM {nats(o['ks'])}"
    if k == "add":
        other = "[" + ";".join(ft(l, r, False, False) for l, r in o["other"]) + "]"
        return f"@OAdd FT FM {other} {nats(o['ks'])}"
    if k == "scale":
        return "@OScale FT FM"
    if k == "apply":
        return f"@OApply FT FM {o['q']}"
    if k == "expect_batch":
        return "@OExpectBatch FT FM"
    if k == "norm":
        return "@ONorm FT FM"
    if k == "sample":
        return "@OSample FT FM"
    if k == "entropy":
        return f"@OEntropy FT FM {o['site']}"
    if k == "corr":
        return "@OCorr FT FM"
    if k == "apply_to":
        tops = "[" + ";".join(f"({a},{b})" for a, b in o["tops"]) + "]"
        return f"@OApplyTo FT FM {tops} {nats(o['ks'])}"
    if k == "inner":
        return "@OInner FT FM"
    raise ValueError(k)


# ---- one history on the real code ---------------------------------------------------------------
def run_history(ctx, rng, tgen, rec, idx):
    import torch
    from emu_mps.mps import MPS
    from emu_mps.mpo import MPO

    n = rng.randint(2, 10)
    d = rng.choice([2, 3])
    chimax = rng.choice([1, 2, 4, 8, 16, 32])
    if d ** n > 60000:
        n = 9 if d == 3 else n
    precision = 10 ** rng.uniform(-12, -2)
    max_bond = rng.choice([1, 2, 3, 4, 8, 16, 64, rng.randint(1, 64)])
    start = rng.choice(["random", "random", "random_normalised", "make", "canonical", "product", "product"])
    if start == "product":       # bond-dimension-1 chains of UN-normalised user factors, centre None; often squeezed to cap 1
        chimax = 1
        if rng.random() < 0.5:
            max_bond = 1
    if start == "make":
        m = MPS.make(n, precision=precision, max_bond_dim=max_bond, num_gpus_to_use=0, eigenstates=eig(d))
    else:
        fs = rand_mps(rng, n, d, chimax, tgen)
        if start == "random_normalised":
            nr = dense_state(fs).norm()
            fs[0] = fs[0] / nr
        m = MPS(fs, precision=precision, max_bond_dim=max_bond, num_gpus_to_use=None, eigenstates=eig(d))
        if start == "canonical":
            m.orthogonalize(rng.randrange(n))
    case = {"idx": idx, "n": n, "d": d, "chimax": chimax, "precision": precision, "max_bond_dim": max_bond,
            "start": start}
    obs0 = observe_real(m)
    ops, observations = [], []
    nops = rng.randint(1, 8)
    names = ["orth", "orth", "trunc", "trunc", "add", "scale", "apply", "expect_batch", "norm", "sample", "entropy",
             "corr", "apply_to", "inner"]
    if start in ("product", "make"):   # product-state histories: non-unitary apply(k), truncate, norm dominate
        names = names + ["apply", "trunc", "norm"] * 3
    bad = {}

    def fail(what, key, extra=None):
        bad.setdefault(key, (what, extra or {}))

    def cfg_of(x):
        return (float(x.precision), int(x.max_bond_dim), tuple(x.eigenstates))

    cfg = cfg_of(m)   # the configuration every result of this history must carry (rule: left operand's)
    if cfg != (float(precision), int(max_bond), tuple(eig(d))):
        fail(f"constructor did not store precision/max_bond_dim/eigenstates: {cfg}", "precision-not-propagated")

    for step in range(nops):
        k = rng.choice(names)
        o = {"op": k}
        psi_before = dense_state(m.factors)
        nrm_before = float(psi_before.norm())
        rec.split_log.clear()
        rec.trunc_args.clear()
        state_changes = False
        if k == "orth":
            o["c"] = rng.randrange(n)
            m.orthogonalize(o["c"])
        elif k == "trunc":
            m.truncate()
        elif k == "add":
            ofs = rand_mps(rng, n, d, rng.choice([1, 2, 4, 8]), tgen)
            o["other"] = [(f.shape[0], f.shape[2]) for f in ofs]
            if rng.random() < 0.6 and nrm_before > 0:   # a component of relative size 1e-3 .. 1e-8
                o["relative_size"] = 10 ** -rng.uniform(3, 8)
                ofs[rng.randrange(n)] *= o["relative_size"] * nrm_before / float(dense_state(ofs).norm())
            # the right operand has its own configuration; rule of /repo: the sum carries the LEFT operand's
            o["other_cfg"] = [10 ** rng.uniform(-12, -2), rng.randint(1, 64)]
            other = MPS(ofs, precision=o["other_cfg"][0], max_bond_dim=o["other_cfg"][1], num_gpus_to_use=None,
                        eigenstates=eig(d))
            psi_before = psi_before + dense_state(ofs)
            m = m + other
            if cfg_of(other) != (o["other_cfg"][0], o["other_cfg"][1], tuple(eig(d))):
                fail("__add__ changed the configuration of its right operand", "precision-not-propagated")
        elif k == "scale":
            c = complex(rng.uniform(-2, 2), rng.uniform(-2, 2))
            psi_before = c * psi_before
            if rng.random() < 0.5:
                m = c * m
            else:
                m *= c
                o["how"] = "imul"
        elif k == "apply":
            o["q"] = rng.randrange(n)
            g = torch.randn(d, d, dtype=torch.complex128, generator=tgen)
            m.apply(o["q"], g)
            state_changes = True
        elif k == "expect_batch":
            m.expect_batch(torch.randn(2, d, d, dtype=torch.complex128, generator=tgen))
        elif k == "norm":
            got = float(m.norm())
            if abs(got - nrm_before) > 1e-9 * max(1.0, nrm_before):
                fail(f"norm() = {got} but the dense norm is {nrm_before}", "norm-not-centre-norm")
        elif k == "sample":
            if 1e-6 < nrm_before < 1e6:
                m.sample(num_shots=2)
            else:
                m.orthogonalize(0)
                o = {"op": "orth", "c": 0}
        elif k == "entropy":
            o["site"] = rng.randrange(n)
            m.entanglement_entropy(o["site"])
        elif k == "corr":
            m.get_correlation_matrix()
        elif k == "apply_to":
            mpo_f = rand_mpo(rng, n, d, rng.choice([1, 2, 3, 4]), tgen)
            o["tops"] = [(f.shape[0], f.shape[3]) for f in mpo_f]
            psi_before = dense_state(exact_mpo_mps(mpo_f, m.factors))
            m_new = MPO(mpo_f).apply_to(m)
            # apply_to returns an MPS with the DEFAULT precision/max_bond_dim: the history ends here
            m_prev, m = m, m_new
        elif k == "inner":
            ofs = rand_mps(rng, n, d, rng.choice([1, 2, 4]), tgen)
            m.inner(MPS(ofs, num_gpus_to_use=None, eigenstates=eig(d)))
        truncating = k in ("trunc", "add", "apply_to")
        if truncating:
            o["ks"] = [e["kept"] for e in rec.split_log]
        # ---- configuration oracle: results carry the operand's precision / max_bond_dim / eigenstates ----
        if k == "apply_to":
            if cfg_of(m) != cfg:   # /repo builds the result with the defaults: recorded, reported to the lead
                ctx.extra["apply_to_results_with_default_config"] = ctx.extra.get("apply_to_results_with_default_config", 0) + 1
        elif cfg_of(m) != cfg:
            fail(f"after {k}: result carries (precision, max_bond_dim, eigenstates) = {cfg_of(m)} but the operand had {cfg}",
                 "precision-not-propagated", {"step": step})
        # ---- every truncation triggered by the operation must use the operand's precision and cap (exact) ----
        wrong_args = [a for a in rec.trunc_args if a != (cfg[0], cfg[1])]
        if wrong_args:
            fail(f"{k}: truncate_impl ran with (precision, max_bond_dim) = {wrong_args[0]} but the state's are {cfg[:2]}",
                 "truncation-ignores-state-precision", {"step": step})
        ops.append(o)
        ob = observe_real(m)
        observations.append(ob)
        # ---- property-level checks on the real object ------------------------------------------
        c = ob["oc"]
        if c is not None:
            if not (all(ob["L"][:c]) and all(ob["R"][c + 1:])):
                fail(f"after {k}: declared orthogonality centre {c} is not valid (measured L={ob['L']} R={ob['R']})",
                     "declared-centre-invalid", {"step": step})
        psi_after = dense_state(m.factors)
        scale_ref = max(1.0, float(psi_before.norm()))
        if truncating:
            if max(ob["bonds"]) > max_bond:
                fail(f"after {k}: bond {max(ob['bonds'])} exceeds max_bond_dim {max_bond}", "bond-exceeds-max",
                     {"step": step})
            if not all(rec.pre_trunc["L"]):
                fail(f"{k}: truncate_impl was entered without the centre on the last site", "truncate-precondition")
            cap_binds = False
            for e in rec.split_log:
                binds = e["len"] - e["max_rank"] > e["cut"]
                cap_binds |= binds
                if e["kept"] > max_bond:
                    fail(f"{k}: split at site {e['site']} kept {e['kept']} > max_bond_dim {max_bond}", "bond-exceeds-max")
                if "discarded" in e and not binds:
                    tol = precision ** 2 * (1 + 1e-6) + 1e6 * MACH * e["svmax2"]
                    if e["discarded"] > tol:
                        fail(f"{k}: dense discarded weight {e['discarded']:.3e} at bond {e['site']} > precision^2 "
                             f"{precision ** 2:.3e} although the cap does not bind", "discarded-weight", {"step": step})
                    # When the code demonstrably truncated with a LOOSER threshold than the state's precision, the dense
                    # weight is compared with the operand's precision^2 up to the MEASUREMENT error of the SVD reference
                    # only (singular values are accurate to eps*sigma_max): no false alarm is possible on code that
                    # passes the exact argument check above.
                    if wrong_args and e["max_error"] is not None and e["max_error"] > precision:
                        w, sm2 = e["discarded"], e["svmax2"]
                        meas = 1e6 * (2 * MACH * math.sqrt(sm2 * e["len"] * w) + e["len"] * MACH ** 2 * sm2)
                        if w > precision ** 2 * (1 + 1e-6) + meas:
                            fail(f"{k}: dense discarded weight {w:.3e} at bond {e['site']} > precision^2 = {precision ** 2:.3e} "
                                 f"(truncated with {e['max_error']:.1e} instead of the state's {precision:.1e}; kept {e['kept']} "
                                 f"of {e['len']}, cap {e['max_rank']} not binding)", "discarded-weight-exceeds-precision",
                                 {"step": step})
            if not cap_binds:
                err = float((psi_after - psi_before).norm())
                # per bond the code may discard precision^2 plus the rounding level of eigh on the Gram matrix
                # (eps * sigma_max^2, same 1e6 safety factor as the per-bond check above)
                nb2 = float(psi_before.norm()) ** 2
                if err > math.sqrt((n - 1) * (precision ** 2 * (1 + 1e-6) + 1e6 * MACH * nb2)) + 1e-9 * scale_ref:
                    fail(f"{k}: state moved by {err:.3e} > sqrt(N-1)*precision", "truncation-error", {"step": step})
        elif not state_changes:
            err = float((psi_after - psi_before).norm())
            if err > 1e-9 * scale_ref:
                fail(f"{k}: represented state moved by {err:.3e} (gauge-only operation)", "state-moved", {"step": step})
        if k == "apply_to":
            break
    case["ops"] = ops
    for key, (what, extra) in bad.items():
        ctx.violation(what, {"case": case, "finding_key": key, **extra})
    init = "[" + ";".join(ft(obs0["bonds"][i], obs0["bonds"][i + 1], obs0["L"][i], obs0["R"][i]) for i in range(n)) + "]"
    oc0 = "None" if obs0["oc"] is None else f"(Some {obs0['oc']})"
    expr = (f"map observe_res (f_run {d} {max_bond}%Z [" + ";".join(op_expr(o) for o in ops) + "] "
            f"(MkMps {init} {oc0}))")
    return case, expr, observations


def add_witness(ctx, rec, w):
    """corpus witness: a + b where b is a tiny component; the sum must be cut with the LEFT operand's precision"""
    import torch
    from emu_mps.mps import MPS

    def mk(spec):
        fs = [torch.tensor(t, dtype=torch.complex128) for t in spec["factors"]]
        return MPS(fs, precision=spec["precision"], max_bond_dim=spec["max_bond_dim"], num_gpus_to_use=None,
                   eigenstates=tuple(w["eigenstates"]))

    a, b = mk(w["a"]), mk(w["b"])
    p, cap = float(w["a"]["precision"]), int(w["a"]["max_bond_dim"])
    rec.split_log.clear()
    rec.trunc_args.clear()
    r = a + b
    ctx.count_case({"kind": "corpus:add_witness", "name": w.get("name")}, True)
    got = (float(r.precision), int(r.max_bond_dim), tuple(r.eigenstates))
    if got != (p, cap, tuple(w["eigenstates"])):
        ctx.violation(f"{w.get('name')}: a + b carries (precision, max_bond_dim, eigenstates) = {got}, the left operand had "
                      f"{(p, cap, tuple(w['eigenstates']))}", {"case": w, "finding_key": "precision-not-propagated"})
    wrong = [x for x in rec.trunc_args if x != (p, cap)]
    if wrong:
        ctx.violation(f"{w.get('name')}: the sum was truncated with (precision, max_bond_dim) = {wrong[0]} instead of {(p, cap)}",
                      {"case": w, "finding_key": "truncation-ignores-state-precision"})
    for e in rec.split_log:
        if "discarded" not in e or e["len"] - cap > e["cut"]:
            continue
        wgt, sm2 = e["discarded"], e["svmax2"]
        meas = 1e6 * (2 * MACH * math.sqrt(sm2 * e["len"] * wgt) + e["len"] * MACH ** 2 * sm2)
        floor = meas if wrong else 1e6 * MACH * sm2
        if wgt > p * p * (1 + 1e-6) + floor:
            ctx.violation(f"{w.get('name')}: bond {e['site']}: dense discarded weight {wgt:.3e} > precision^2 = {p * p:.3e} "
                          f"(kept {e['kept']} of {e['len']}, cap {cap} not binding)",
                          {"case": w, "discarded": wgt, "finding_key": "discarded-weight-exceeds-precision"})


def exact_mpo_mps(mpo_f, fs):
    """untruncated MPO x MPS product factors (no QR): reference for apply_to"""
    import torch

    out = []
    for w, a in zip(mpo_f, fs):
        t = torch.einsum("xoiy,lir->xloyr", w, a)
        out.append(t.reshape(w.shape[0] * a.shape[0], w.shape[1], w.shape[3] * a.shape[2]))
    return out


def compare_history(got, observations):
    """model observation list vs real: bonds and centre exactly, claimed flags => measured flags"""
    if len(got) != len(observations):
        return f"model produced {len(got)} steps, real {len(observations)}"
    for i, (g, ob) in enumerate(zip(got, observations)):
        if g is None:
            return f"step {i}: model raised, real did not"
        g = g[1] if isinstance(g, tuple) and g[0] == "Some" else g
        (bonds, cl, cr), oc = (g[0], g[1], g[2]), g[3]
        oc = None if oc is None else oc[1]
        if list(bonds) != ob["bonds"]:
            return f"step {i}: bonds model {bonds} real {ob['bonds']}"
        if oc != ob["oc"]:
            return f"step {i}: centre model {oc} real {ob['oc']}"
        for j, (a, b) in enumerate(zip(cl, ob["L"])):
            if a and not b:
                return f"step {i}: model claims tensor {j} left-isometric, measured not"
        for j, (a, b) in enumerate(zip(cr, ob["R"])):
            if a and not b:
                return f"step {i}: model claims tensor {j} right-isometric, measured not"
    return None


# ---- cutoff correspondence ------------------------------------------------------------------------
def cutoff_cases(rng, n):
    cases = []
    for _ in range(n):
        ln = rng.choice([0, 1, 2, 3, 5, 8, 16, 40])
        mode = rng.choice(["ascending", "random", "tiny_negative", "threshold", "zeros"])
        d = [10 ** rng.uniform(-20, 1) for _ in range(ln)]
        if mode == "ascending":
            d.sort()
        elif mode == "tiny_negative":
            d.sort()
            d = [-abs(x) * 1e-17 if i < ln // 3 else x for i, x in enumerate(d)]
        elif mode == "zeros":
            d = [0.0 if rng.random() < 0.5 else x for x in d]
        eps = 10 ** rng.uniform(-12, 0)
        if mode == "threshold" and ln:
            d.sort()
            acc = 0.0
            j = rng.randrange(ln)
            for x in d[: j + 1]:
                acc += x
            eps = math.sqrt(acc) * rng.choice([1.0, 1 + 2e-16, 1 - 2e-16, 1 + 1e-12])
        if rng.random() < 0.05:
            eps = rng.choice([0.0, -1e-3])
        cases.append((d, eps))
    return cases


def real_cutoff(d, eps):
    import torch
    from emu_mps.utils import _determine_cutoff_index

    try:
        return ("Ok", int(_determine_cutoff_index(torch.tensor(d, dtype=torch.float64), eps)))
    except AssertionError:
        return ("Err", 1)


def cutoff_expr(d, eps):
    fl = common.float_lit
    return f"determine_cutoff_index float_arith [{';'.join(fl(x) for x in d)}] {fl(eps)}"


def run(ctx):
    import torch
    from vlib.coqparse import parse

    rc, out = common.coq_make(["Model/Canon.vo"])
    ctx.obligation("build:Model/Canon.vo", rc == 0, out, kind="build")
    common.standard_proof_stage(ctx, "C10", ["Properties/C10.vo"])
    if rc != 0:
        return
    torch.set_num_threads(1)
    rng = ctx.rng
    tgen = torch.Generator().manual_seed(rng.randrange(2 ** 31))
    torch.manual_seed(rng.randrange(2 ** 31))
    corpus = corpus_cases()

    # ---- histories on the real code (with recording of every truncation) -------------------------
    rec = Recorder()
    hist_items = []
    try:
        for w in corpus:
            if w.get("kind") == "add_witness":
                add_witness(ctx, rec, w)
        for i in range(ctx.n(150, 2500)):
            hist_items.append(run_history(ctx, rng, tgen, rec, i))
    finally:
        rec.close()

    # ---- cutoff: generated lists + every list seen in the real truncations (sample) ----------------
    gen = cutoff_cases(rng, ctx.n(300, 4000)) + [(c["d"], c["eps"]) for c in corpus if c.get("kind") == "cutoff"]
    gen_real = [real_cutoff(d, e) for d, e in gen]
    seen = rec.cut_log if len(rec.cut_log) <= ctx.n(300, 3000) else rng.sample(rec.cut_log, ctx.n(300, 3000))
    ok, detail = True, ""
    try:
        ev = common.CoqEval("C10cut", HEADER.replace("Open Scope nat_scope.", ""))
        for d, e in gen:
            ev.add(cutoff_expr(d, e))
        for d, e, r in seen:
            ev.add(cutoff_expr(d, e))
        outs = ev.run(shard=300)
        want = gen_real + [("Ok", r) for _, _, r in seen]
        for (d, e), w, o in zip(gen + [(d, e) for d, e, _ in seen], want, outs):
            g = parse(o)
            g = (g[0], g[1]) if isinstance(g, tuple) else g
            ctx.count_case({"kind": "cutoff", "len": len(d), "eps": e, "d_head": d[:4]}, len(d) >= 2)
            if g != w and ok:
                ok, detail = False, f"d={d} eps={e!r} model={g} real={w}"
                ctx.extra["first_cutoff_disagreement"] = {"d": d, "eps": e, "model": str(g), "real": str(w)}
    except (common.CoqEvalError, ValueError) as ex:
        ok, detail = False, str(ex)
    ctx.obligation("correspondence:Model.Canon.determine_cutoff_index(binary64)==_determine_cutoff_index (bit-exact)",
                   ok, detail, kind="correspondence")

    # ---- split rank arithmetic against the real split_matrix ---------------------------------------
    ok, detail = True, ""
    try:
        ev = common.CoqEval("C10rank", HEADER)
        splits = []
        for _ in range(ctx.n(60, 600)):
            rows, cols = rng.randint(1, 12), rng.randint(1, 12)
            mtx = torch.randn(rows, cols, dtype=torch.complex128, generator=tgen)
            if rng.random() < 0.5:  # low rank
                r0 = rng.randint(1, min(rows, cols))
                mtx = torch.randn(rows, r0, dtype=torch.complex128, generator=tgen) @ torch.randn(
                    r0, cols, dtype=torch.complex128, generator=tgen)
            mr = rng.choice([-1, 0, 1, 2, 3, 5, 8, 20])
            me = 10 ** rng.uniform(-8, 1)
            right_c = rng.random() < 0.5
            rec2 = Recorder()
            try:
                from emu_mps import utils as U
                l, r = U.split_matrix(mtx, max_error=me, max_rank=mr, orth_center_right=right_c)
                cut = rec2.last_cut
            finally:
                rec2.close()
            splits.append((cut, mr, int(l.shape[1]), int(r.shape[0])))
            ev.add(f"split_kept {cut[0]} {cut[1]} ({mr})%Z")
        outs = ev.run()
        for (cut, mr, kl, kr), o in zip(splits, outs):
            g = parse(o)
            ctx.count_case({"kind": "split", "cut": cut, "max_rank": mr}, True)
            if not (g == kl == kr) and ok:
                ok, detail = False, f"cut={cut} max_rank={mr}: model kept {g}, real {kl}/{kr}"
    except (common.CoqEvalError, ValueError) as ex:
        ok, detail = False, str(ex)
    ctx.obligation("correspondence:Model.Canon.split_kept==rank kept by split_matrix (exact)", ok, detail,
                   kind="correspondence")

    # ---- histories: model vs real ---------------------------------------------------------------------
    ok, detail = True, ""
    ophist = {}
    try:
        ev = common.CoqEval("C10hist", HEADER)
        for case, expr, obs in hist_items:
            ev.add(expr)
        outs = ev.run(shard=100)
        for (case, expr, obs), o in zip(hist_items, outs):
            g = parse(o)
            for op in case["ops"]:
                ophist[op["op"]] = ophist.get(op["op"], 0) + 1
            ctx.count_case({k: case[k] for k in ("n", "d", "chimax", "precision", "max_bond_dim", "start")} |
                           {"ops": [op["op"] for op in case["ops"]], "idx": case["idx"]}, len(case["ops"]) >= 2)
            msg = compare_history(g, obs)
            if msg and ok:
                ok, detail = False, f"{msg}; case={case}"
                ctx.extra["first_history_disagreement"] = {"case": case, "model": str(g)[:3000],
                                                           "real": str(obs)[:3000], "msg": msg}
    except (common.CoqEvalError, ValueError) as ex:
        ok, detail = False, str(ex)
    ctx.obligation("correspondence:Model.Canon.f_run==real MPS histories (bonds, centre exact; claimed isometries measured)",
                   ok, detail, kind="correspondence")
    ctx.extra["operation_histogram"] = ophist
    ctx.extra["truncation_splits_observed"] = len(rec.cut_log)
    ctx.rule = ("cutoff lists (5 modes incl. threshold-adjacent eps and the eigenvalue lists of the real truncations), "
                "random matrices for split ranks, random operation histories (1-8 of 14 operation kinds) on random MPS "
                "(2-10 sites, chi<=32, d in {2,3}, precision 1e-12..1e-2, max_bond_dim 1..64); a history is non-trivial "
                "with >= 2 operations, a cutoff list with >= 2 entries; distinct by input hash")
    ctx.trusted_base += ["hand model coq/Model/Canon.v (validated by the correspondences of this run)",
                         "Coq PrimFloat = IEEE binary64 as in CPython/torch float64 scalars",
                         "isometry measurement threshold 1e-9 (max-abs of A^dagger A - 1)"]
    ctx.assumptions += [
        "cutoff theorems are in exact real arithmetic (R instance of the same Gallina term); the binary64 instance is "
        "tied bit-exactly to the code",
        "QR / eigh / zip-up kernels are oracles: premises 'Q isometric', 'eigh eigenvectors orthonormal' are measured, not proved",
        "'no bond exceeds max_bond_dim' is read as: every truncating operation enforces it and re-centring never grows a bond "
        "(an MPS constructed with larger bonds keeps them until it is truncated)",
        "dense discarded-weight and truncation-error checks have an absolute floor of 1e6*eps_mach*sigma_max^2 (eigh on the Gram "
        "matrix resolves squared singular values only to eps*sigma_max^2: components of relative size < ~1e-7 are lost whatever "
        "the precision), so they are informative for precision >~ 1e-5; below that the contract is enforced through the exact "
        "oracle 'every truncation uses the state's precision and cap' plus the bit-exact cutoff tie and theorem",
        "apply_to returns an MPS carrying the default precision/max_bond_dim (its truncation itself uses the operand's); this is "
        "counted in coverage.apply_to_results_with_default_config and not treated as a violation; histories end at apply_to",
        "configuration rule checked: every MPS returned by +, scalar*, *=, and every in-place operation carries the (left) "
        "operand's precision / max_bond_dim / eigenstates, and every truncation it triggers uses exactly those values; "
        "num_gpus_to_use is not stored on the object and is not checked",
    ]


def corpus_cases():
    p = common.VERIF / "corpus" / "C10.json"
    return json.loads(p.read_text()) if p.exists() else []


def replay(ctx, path):
    rp = json.loads(open(path).read())
    print("replay:", rp.get("what"))
    print("case:", json.dumps(rp.get("case"), default=str)[:2000])
    case = rp.get("case") or {}
    if case.get("kind") == "add_witness":
        import torch

        torch.set_num_threads(1)
        rec = Recorder()
        try:
            add_witness(ctx, rec, case)
        finally:
            rec.close()
        return
    # histories are regenerated from the seeded stream (torch generator + ctx.rng): rerun the same tier
    run(ctx)


META = {
    "category": "proof",
    "technique": "Coq proof (cutoff arithmetic at R; oracle-parametric canonical-form machine) + bit-exact / exact correspondences + dense falsifier",
    "text": ("Proved for all inputs: the cutoff index discards at most eps^2 and is maximal; split_matrix keeps between 1 and "
             "max_rank columns and, when the cap does not bind, discards at most eps^2; orthogonalize(c) from any valid declared "
             "centre (or None) yields a canonical form centred at c, for every QR oracle returning isometries; every public "
             "operation (orthogonalize, truncate, +, scalar*, apply, expect_batch, norm, sample, entanglement_entropy, "
             "get_correlation_matrix, apply_to, inner) preserves 'the declared centre is valid' and enters truncate_impl only "
             "with the centre on the last site; after a truncation every bond is <= max_bond_dim. Validated, not proved: that "
             "torch's QR/eigh satisfy the oracle premises, and the dense meaning of the discarded weight."),
    "note": ("Trusted: Coq kernel+VM, stdlib real axioms, the hand model (tied by correspondences on every run), PrimFloat==binary64, "
             "torch.linalg.svdvals as independent reference."),
}
