"""C05 — the MPO Hamiltonian equals the dense neutral-atom Hamiltonian (DESIGN.md §4 C05).

Proof side: coq/Model/MpoHam.v (labelled-bond model of emu_mps/hamiltonian.py over any commutative
ring K), coq/Proofs/MpoHamProofs.v, coq/Properties/C05.v.
Tie (H-tie, exact): every entry and every bond dimension of every torch factor returned by
make_H + update_H is compared with the model's factor, for every sparsity pattern of U (small N)
and random patterns (larger N).  Falsifier on the real code: own dense contraction of the real MPO
against an independently written dense Hamiltonian.
"""
from __future__ import annotations

import contextlib
import io
import itertools
import json
import math

from vlib import common

HEADER = """From Coq Require Import ZArith List.
Import ListNotations.
From EV Require Import Model.MpoHam.
Open Scope Z_scope."""

TOL = 1e-9            # (legacy name) absolute floor of the dense comparison
REL_DENSE = 1e-12     # dense contraction vs complex128 reference, relative to max(1, max|H|)
REL_DRIVE = 1e-13     # drive slot entries (a + b - c + noise: a few float64 roundings), relative to the inputs


# ---- running the real code ---------------------------------------------------------------------
def _torch():
    import torch
    return torch


def impl_build(case, update=True, second=None):
    """make_H (+ update_H) of the real code; returns the list of torch factors."""
    torch = _torch()
    from emu_base import HamiltonianType
    from emu_mps import hamiltonian as hm

    U = torch.tensor(case["U"], dtype=torch.float64)
    ht = HamiltonianType.Rydberg if case["ht"] == "Ryd" else HamiltonianType.XY
    with contextlib.redirect_stdout(io.StringIO()):
        H = hm.make_H(interaction_matrix=U, hamiltonian_type=ht, dim=case["dim"], num_gpus_to_use=0)
    if update:
        for drv in ([second] if second else []) + [case]:
            hm.update_H(
                H,
                # the backend hands all three over as complex128 (pulser_adapter)
                omega=torch.tensor(drv["omega"], dtype=torch.complex128),
                delta=torch.tensor(drv["delta"], dtype=torch.complex128),
                phi=torch.tensor(drv["phi"], dtype=torch.complex128),
                noise=torch.tensor([[complex(*z) for z in row] for row in drv["noise"]],
                                   dtype=torch.complex128),
            )
    return H.factors


DRIVE_KEYS = ("omega", "phi", "delta", "noise")


def impl_build_seq(case):
    """make_H once, then every drive of case["seq"] applied IN PLACE on the same MPO object;
    returns the list of factor snapshots (clones) taken after every update_H call."""
    torch = _torch()
    from emu_base import HamiltonianType
    from emu_mps import hamiltonian as hm

    U = torch.tensor(case["U"], dtype=torch.float64)
    ht = HamiltonianType.Rydberg if case["ht"] == "Ryd" else HamiltonianType.XY
    with contextlib.redirect_stdout(io.StringIO()):
        H = hm.make_H(interaction_matrix=U, hamiltonian_type=ht, dim=case["dim"], num_gpus_to_use=0)
    snaps = []
    for drv in case["seq"]:
        hm.update_H(
            H,
            omega=torch.tensor(drv["omega"], dtype=torch.complex128),
            delta=torch.tensor(drv["delta"], dtype=torch.complex128),
            phi=torch.tensor(drv["phi"], dtype=torch.complex128),
            noise=torch.tensor([[complex(*z) for z in row] for row in drv["noise"]], dtype=torch.complex128),
        )
        snaps.append([f.clone() for f in H.factors])
    return snaps


def step_case(case, k):
    """The single-update case equivalent to the state after the k-th update of a sequence: update_H
    overwrites (theorem C05_update_H_sequence), so only the last drive may show."""
    c = {k2: v for k2, v in case.items() if k2 != "seq"}
    c.update({k2: case["seq"][k][k2] for k2 in DRIVE_KEYS})
    return c


def oc_os(case):
    """omega*cos(phi), omega*sin(phi) exactly as torch computes them (complex128), as (re, im) pairs."""
    torch = _torch()
    om = torch.tensor(case["omega"], dtype=torch.complex128)
    ph = torch.tensor(case["phi"], dtype=torch.complex128)
    pr = lambda t: [(z.real, z.imag) for z in t.tolist()]
    return pr(om * torch.cos(ph)), pr(om * torch.sin(ph))


# ---- own dense contraction and own dense Hamiltonian (nothing shared with /repo/test) -------------
def contract_dense(factors):
    """Dense matrix of an MPO; site 0 is the most significant digit."""
    torch = _torch()
    acc = factors[0][0]  # (d, d, D)
    for f in factors[1:]:
        a, b, D = acc.shape
        Dl, d, d2, Dr = f.shape
        assert D == Dl
        acc = torch.einsum("abl,lcdr->acbdr", acc, f).reshape(a * d, b * d2, Dr)
    assert acc.shape[2] == 1
    return acc[:, :, 0]


def dense_reference(case):
    """sum_i h_i + sum_{i<j} U_ij (n_i n_j | flip-flop_ij), h_i = [[0, W/2 e^{-i phi}],[W/2 e^{i phi}, -delta]]
    + noise, embedded in the first two levels; written element-wise on basis strings."""
    import numpy as np

    N, d = case["N"], case["dim"]
    U = case["U"]
    D = d ** N
    H = np.zeros((D, D), dtype=np.complex128)
    noise = np.array([[complex(*z) for z in row] for row in case["noise"]], dtype=np.complex128)
    blocks = []
    for i in range(N):
        h = noise.copy()
        w, ph, dl = case["omega"][i], case["phi"][i], case["delta"][i]
        h[0, 1] += 0.5 * w * complex(math.cos(ph), -math.sin(ph))
        h[1, 0] += 0.5 * w * complex(math.cos(ph), math.sin(ph))
        h[1, 1] += -dl
        blocks.append(h)
    strings = list(itertools.product(range(d), repeat=N))
    index = {s: k for k, s in enumerate(strings)}
    for s in strings:
        col = index[s]
        for i in range(N):  # single-site terms: <t|h_i|s> with t differing from s at most at i
            for x in range(d):
                t = s[:i] + (x,) + s[i + 1:]
                H[index[t], col] += blocks[i][x, s[i]]
        for i in range(N):
            for j in range(i + 1, N):
                u = U[i][j]
                if u == 0:
                    continue
                if case["ht"] == "Ryd":
                    if s[i] == 1 and s[j] == 1:
                        H[col, col] += u
                else:  # 2 (SxSx + SySy) = |10><01| + |01><10|
                    if (s[i], s[j]) in ((0, 1), (1, 0)):
                        t = list(s)
                        t[i], t[j] = s[j], s[i]
                        H[index[tuple(t)], col] += u
    return H


# ---- the model side ----------------------------------------------------------------------------
def dg(x) -> str:
    """Exact dyadic-Gaussian literal (re, im, e) of a python number / (re, im) pair."""
    if isinstance(x, (tuple, list)):
        re_, im_ = float(x[0]), float(x[1])
    else:
        re_, im_ = float(x), 0.0
    a, da = re_.as_integer_ratio()
    b, db = im_.as_integer_ratio()
    e = max(da.bit_length(), db.bit_length()) - 1
    a, b = a * ((1 << e) // da), b * ((1 << e) // db)
    return f"(({a}), ({b}), {e})"


def dg_list(xs) -> str:
    return "[" + "; ".join(dg(x) for x in xs) + "]"


def model_expr(case, update=True) -> str:
    rows = "[" + "; ".join(dg_list(r) for r in case["U"]) + "]"
    if update:
        oc, os_ = oc_os(case)
        nz = "[" + "; ".join(dg_list(r) for r in case["noise"]) + "]"
        p = f"(Some (dg_drive {dg_list(oc)} {dg_list(os_)} {dg_list(case['delta'])} {nz}))"
    else:
        p = "None"
    return f"export_H dg_ops {case['ht']} {case['N']}%nat {case['dim']}%nat {rows} {p}"


def compare(case, factors, model, exact: bool):
    """None when every bond dimension and every entry agree, else a description."""
    torch = _torch()
    if len(model) != len(factors):
        return f"number of factors: impl {len(factors)} model {len(model)}"
    d = case["dim"]
    for n, (f, m) in enumerate(zip(factors, model)):
        dl, dr, entries = m
        if tuple(f.shape) != (dl, d, d, dr):
            return f"site {n}: shape impl {tuple(f.shape)} model {(dl, d, d, dr)}"
        want = torch.zeros(dl, d, d, dr, dtype=torch.complex128)
        for (l, b, b2, r), (re_, im_, e) in ((x[0], x[1]) for x in (_split(t) for t in entries)):
            want[l, b, b2, r] = complex(re_ / 2 ** e, im_ / 2 ** e)
        if f.dtype != torch.complex128:
            return f"site {n}: factor dtype {f.dtype}, expected complex128"
        diff = (f - want).abs()
        # every entry outside the single-site drive slot is a coupling, 0, 1 or 0.5 copied/scaled by a power
        # of two: it must agree BIT FOR BIT with the model's exact value, also for generic float64 couplings
        tol = torch.zeros(dl, d, d, dr, dtype=torch.float64)
        if not exact:
            tol[0 if n == 0 else 1, :, :, 0] = REL_DRIVE * _drive_scale(case)
        bad = diff > tol
        if bool(bad.any()):
            idx = [int(v) for v in bad.nonzero()[0]]
            return (f"site {n} entry {idx}: impl {complex(f[tuple(idx)])} model {complex(want[tuple(idx)])} "
                    f"({int(bad.sum())} entries differ)")
    return None


def _drive_scale(case):
    vals = [1.0] + [abs(float(x)) for x in case["omega"]] + [abs(float(x)) for x in case["delta"]]
    vals += [abs(complex(*z)) for row in case["noise"] for z in row]
    return max(vals)


def _h_scale(case):
    vals = [_drive_scale(case)] + [abs(float(x)) for row in case["U"] for x in row]
    return max(vals)


def _split(t):
    # ((((l, b), b'), r), (re, im, e))  — coqparse returns nested pairs flattened or not; normalise
    flat = []

    def go(x):
        if isinstance(x, tuple):
            for y in x:
                go(y)
        else:
            flat.append(x)

    go(t)
    return (tuple(flat[:4]), tuple(flat[4:7]))


# ---- generators -----------------------------------------------------------------------------------
def pairs(N):
    return [(i, j) for i in range(N) for j in range(i + 1, N)]


def make_case(rng, N, pattern, ht, dim, mode, kind, symmetric=True):
    """pattern: iterable of pairs (i<j) that interact.  mode: 'exact' (phi = 0) or 'tol'."""
    U = [[0] * N for _ in range(N)]
    for (i, j) in pattern:
        v = rng.choice([-3, -2, -1, 1, 2, 3, 5, -7])
        U[i][j] = v
        U[j][i] = v
    if not symmetric:
        for (i, j) in pairs(N):
            r = rng.random()
            if r < 0.25:
                U[j][i] = 0
            elif r < 0.5:
                U[i][j] = 0
            elif r < 0.75 and U[i][j]:
                U[j][i] = rng.choice([-4, 4, 6])
    if rng.random() < 0.3:
        for i in range(N):
            U[i][i] = rng.choice([0, 9, -9])  # fill_diagonal_(0) must erase it
    if mode == "exact":
        omega = [rng.randint(-6, 6) for _ in range(N)]
        phi = [0.0] * N
        delta = [rng.randint(-5, 5) for _ in range(N)]
    else:
        omega = [round(rng.uniform(-6, 6), 3) for _ in range(N)]
        phi = [rng.uniform(-3.2, 3.2) for _ in range(N)]
        delta = [round(rng.uniform(-5, 5), 3) for _ in range(N)]
    noise = [[(rng.randint(-3, 3), rng.randint(-3, 3)) for _ in range(dim)] for _ in range(dim)]
    return {"kind": kind, "N": N, "ht": ht, "dim": dim, "mode": mode, "symmetric": symmetric,
            "pattern": [list(p) for p in pattern], "U": U, "omega": omega, "phi": phi, "delta": delta,
            "noise": noise}


def all_patterns(N):
    ps = pairs(N)
    for mask in range(1 << len(ps)):
        yield [p for k, p in enumerate(ps) if mask >> k & 1]


def gen_cases(ctx):
    rng = ctx.rng
    cases = []
    nmax_exh = 5 if ctx.thorough() else 4
    for N in range(2, nmax_exh + 1):
        for pat in all_patterns(N):
            for ht in ("Ryd", "XY"):
                for dim in (2, 3):
                    mode = "tol" if rng.random() < 0.2 else "exact"
                    cases.append(make_case(rng, N, pat, ht, dim, mode, "exhaustive"))
    if not ctx.thorough():
        pats5 = list(all_patterns(5))
        for pat in rng.sample(pats5, 48):
            ht, dim = rng.choice(("Ryd", "XY")), rng.choice((2, 3))
            cases.append(make_case(rng, 5, pat, ht, dim, "exact", "sample5"))
    for _ in range(ctx.n(40, 400)):
        N = rng.randint(6, 9)
        dens = rng.choice([0.1, 0.3, 0.5, 0.8, 1.0])
        pat = [p for p in pairs(N) if rng.random() < dens]
        ht, dim = rng.choice(("Ryd", "XY")), rng.choice((2, 3))
        cases.append(make_case(rng, N, pat, ht, dim, "tol" if rng.random() < 0.2 else "exact", "random"))
    for _ in range(ctx.n(30, 300)):  # malformed stream: non-symmetric matrices (N >= 3 keeps the bonds consistent)
        N = rng.randint(3, 7)
        pat = [p for p in pairs(N) if rng.random() < rng.choice([0.3, 0.6, 1.0])]
        ht, dim = rng.choice(("Ryd", "XY")), rng.choice((2, 3))
        cases.append(make_case(rng, N, pat, ht, dim, "exact", "nonsymmetric", symmetric=False))
    return cases


def gen_noise(rng, dim, kind):
    z = lambda: (rng.randint(-3, 3), rng.randint(-3, 3))
    nz = [[(0, 0)] * dim for _ in range(dim)]
    if kind == "full":
        nz = [[z() for _ in range(dim)] for _ in range(dim)]
    elif kind == "third":  # only entries of the last level (row/column dim-1)
        t = dim - 1
        for x in range(dim):
            if rng.random() < 0.7:
                nz[t][x] = z()
            if rng.random() < 0.7:
                nz[x][t] = z()
        if not any(v != (0, 0) for row in nz for v in row):
            nz[t][t] = (1, -2)
    elif kind == "diag":
        for x in range(dim):
            nz[x][x] = (0, -rng.randint(1, 4))
    return nz


def gen_seq_case(rng, N=None, dim=None):
    """3-5 successive in-place updates with noise kinds drawn from zero / full / third-level-only / diagonal,
    always containing a non-zero noise followed (not necessarily immediately) by a zero one."""
    N = N or rng.randint(2, 6)
    dim = dim or rng.choice((2, 3, 3))
    ht = rng.choice(("Ryd", "XY"))
    pat = [p for p in pairs(N) if rng.random() < rng.choice([0.0, 0.4, 0.8, 1.0])]
    mode = "tol" if rng.random() < 0.15 else "exact"
    c = make_case(rng, N, pat, ht, dim, mode, "sequence")
    n_upd = rng.randint(3, 5)
    kinds = [rng.choice(("zero", "full", "third", "diag", "zero")) for _ in range(n_upd)]
    i = rng.randrange(n_upd - 1)
    kinds[i] = rng.choice(("full", "third"))
    kinds[rng.randrange(i + 1, n_upd)] = "zero"
    seq = []
    for kd in kinds:
        o = make_case(rng, N, [], ht, dim, mode, "x")
        if rng.random() < 0.2:  # all-zero drive
            o["omega"] = [0] * N
            o["delta"] = [0] * N
            o["phi"] = [0.0] * N
        o["noise"] = gen_noise(rng, dim, kd)
        seq.append({k: o[k] for k in DRIVE_KEYS})
    c["seq"] = seq
    c["noise_kinds"] = kinds
    c.update(seq[-1])
    return c


def gen_precision_case(rng, N=None):
    """Generic (non-dyadic) float64 couplings of mixed sign over several decades, generic float drives,
    phases and complex noise; make_H, then 2-4 in-place updates."""
    N = N or rng.randint(2, 6)
    dim = rng.choice((2, 3))
    ht = rng.choice(("Ryd", "XY"))
    ukind = rng.choice(("randn", "c6", "c3", "decades", "wide", "wide", "tails", "tails", "scaled", "scaled"))
    base = rng.choice(("randn", "c6", "c3", "tails")) if ukind == "scaled" else ukind
    factor = rng.choice([1e-9, 1e-12, 2.0 ** -37]) if ukind == "scaled" else 1.0
    U = [[0.0] * N for _ in range(N)]
    pos = [(rng.uniform(0, 6.0 * N ** 0.5), rng.uniform(0, 6.0 * N ** 0.5)) for _ in range(N)]
    for (i, j) in pairs(N):
        if base == "randn":
            v = rng.gauss(0.0, 1.0) * rng.choice([1.0, 7.3, 0.011])
        elif base == "decades":
            v = rng.choice([-1, 1]) * 10 ** rng.uniform(-4, 4)
        elif base == "wide":  # every coupling anywhere in 10^[-14, 6]
            v = rng.choice([-1, 1]) * 10 ** rng.uniform(-14, 6)
        elif base == "tails":  # O(1) neighbours, long-range tail of 1e-9 .. 1e-13
            v = (rng.choice([-1, 1]) * rng.uniform(0.5, 20.0) if j == i + 1
                 else rng.choice([-1, 1]) * 10 ** rng.uniform(-13, -9))
        else:
            r = max(math.dist(pos[i], pos[j]), 3.7)
            v = 5420158.53 / r ** 6 if base == "c6" else rng.choice([-1, 1]) * 3700.0 / r ** 3
        if rng.random() < (0.1 if base == "tails" else 0.25):
            v = 0.0
        U[i][j] = U[j][i] = v * factor
    pat = [[i, j] for (i, j) in pairs(N) if U[i][j] != 0.0]
    fz = lambda: (rng.gauss(0, 1.3), rng.gauss(0, 0.7))
    seq = []
    for _ in range(rng.randint(2, 4)):
        nk = rng.choice(("zero", "full", "full", "third"))
        nz = [[(0.0, 0.0)] * dim for _ in range(dim)]
        if nk == "full":
            nz = [[fz() for _ in range(dim)] for _ in range(dim)]
        elif nk == "third":
            nz[dim - 1][dim - 1] = (0.0, -abs(rng.gauss(0, 1)) - 0.01)
        seq.append({"omega": [rng.uniform(-12, 12) for _ in range(N)],
                    "phi": [rng.uniform(-3.2, 3.2) for _ in range(N)],
                    "delta": [rng.gauss(0, 9.0) for _ in range(N)], "noise": nz})
    c = {"kind": "precision", "ukind": ukind, "N": N, "ht": ht, "dim": dim, "mode": "tol", "symmetric": True,
         "pattern": pat, "U": U, "seq": seq, "noise_kinds": None}
    c.update(seq[-1])
    return c


def corpus_cases():
    p = common.VERIF / "corpus" / "C05.json"
    return json.loads(p.read_text()) if p.exists() else []


# ---- property-level oracle on the real code (the falsifier) --------------------------------------
def property_check(ctx, case):
    """Dense contraction of the real MPO == independent dense Hamiltonian (symmetric U only);
    also: a second update_H overwrites the first one completely."""
    import numpy as np

    if not case.get("symmetric", True):
        return True
    N, d = case["N"], case["dim"]
    if d ** N > 800:
        return True
    if "seq" in case:
        return property_check_seq(ctx, case)
    try:
        factors = impl_build(case, update=True, second=case.get("first_drive"))
        got = contract_dense(factors).numpy()
    except Exception as ex:  # the builder itself failed on a valid interaction matrix
        ctx.violation(f"make_H/update_H raised {type(ex).__name__}: {ex}",
                      {"case": case, "finding_key": "make_H-raises"})
        return False
    why = verbatim_check(case, factors, updated=True) or (interaction_checks(case) if _wants_ic(case) else None)
    if why:
        ctx.violation(why, {"case": case, "finding_key": _verbatim_key(why)})
        return False
    want = dense_reference(case)
    err = float(np.abs(got - want).max())
    lim = REL_DENSE * _h_scale(case)
    if err > lim:
        k = int(np.abs(got - want).argmax())
        ctx.violation(
            f"MPO Hamiltonian differs from the dense Hamiltonian (max |diff| = {err:.3g}, allowed {lim:.3g})",
            {"case": case, "max_abs_diff": err, "flat_index": k, "finding_key": _dense_key(case, err)})
        return False
    return True


def _dense_key(case, err):
    """A small relative discrepancy is lost precision, an O(1) one a wrong operator."""
    return "mpo-coupling-lost-precision" if err < 1e-5 * _h_scale(case) else "mpo-ne-dense-" + case["ht"]


def _wants_ic(case):
    """scale covariance / entrywise-relative checks: always on the precision stream and the corpus, on one
    case in four elsewhere (cost)."""
    if case["kind"] in ("precision", "corpus", "corpus-seq"):
        return True
    return sum(map(ord, json.dumps(case["U"]))) % 4 == 0


def _verbatim_key(why):
    if why.startswith("DROPPED"):
        return "mpo-small-coupling-dropped"
    return "mpo-interaction-wrong" if why.startswith("WRONG") else "mpo-coupling-lost-precision"


def interaction_checks(case):
    """On the bare make_H MPO (single-atom part zero):
    (b) scale covariance: H(c U) == c H(U) EXACTLY for c = 2^k (power-of-two scaling commutes with every
        float64 operation as long as nothing under/overflows);
    (c) every entry of the contracted interaction part agrees with the dense reference to 1e-12 relative
        to the sum of |U_ij| contributing to that entry (so a term that stands alone is compared relatively:
        no small coupling may vanish behind an absolute tolerance)."""
    import numpy as np

    zero = {"omega": [0.0] * case["N"], "phi": [0.0] * case["N"], "delta": [0.0] * case["N"],
            "noise": [[(0.0, 0.0)] * case["dim"] for _ in range(case["dim"])]}
    base = {k: v for k, v in case.items() if k not in ("seq", "first_drive")}
    base.update(zero)
    H1 = contract_dense(impl_build(base, update=False)).numpy()
    want = dense_reference(base)
    absU = dict(base, U=[[abs(float(x)) for x in row] for row in base["U"]])
    bound = np.abs(dense_reference(absU))
    bad = np.abs(H1 - want) > 1e-12 * bound
    if bad.any():
        k = int(np.argmax(np.abs(H1 - want) / np.maximum(bound, 1e-300)))
        r, c = divmod(k, H1.shape[1])
        tag = "DROPPED" if abs(H1[r, c] - want[r, c]) <= 1e-6 else "WRONG"
        return (f"{tag}: interaction part of the bare make_H MPO, entry ({r},{c}): MPO {complex(H1[r, c])!r}, dense "
                f"reference {complex(want[r, c])!r} (entrywise-relative comparison, allowed 1e-12 x {bound[r, c]:.3g})")
    mags = [abs(float(x)) for row in base["U"] for x in row if float(x) != 0.0]
    if not mags:
        return None
    for kexp in (-40, -27, 20):
        if not (1e-250 < min(mags) * 2.0 ** kexp and max(mags) * 2.0 ** kexp < 1e250):
            continue
        cc = 2.0 ** kexp
        scaled = dict(base, U=[[float(x) * cc for x in row] for row in base["U"]])
        Hc = contract_dense(impl_build(scaled, update=False)).numpy()
        if not np.array_equal(Hc, cc * H1):
            k = int(np.argmax(np.abs(Hc - cc * H1)))
            r, c = divmod(k, H1.shape[1])
            tag = "DROPPED" if abs(Hc[r, c] - cc * H1[r, c]) <= 1e-6 else "WRONG"
            return (f"{tag}: scale covariance broken: make_H(2^{kexp} U) contracts to {complex(Hc[r, c])!r} at "
                    f"({r},{c}) but 2^{kexp} x make_H(U) is {complex(cc * H1[r, c])!r} (must be exactly equal)")
    return None


def verbatim_check(case, factors, updated):
    """The MPO stores couplings verbatim: outside the drive slot every real/imaginary part of every factor
    entry is, bit for bit, one of 0, 1, 1/2, |U_ij| or 2|U_ij| of the float64 input, and every factor is
    complex128 (dtype oracle; also the builder's private copy of U when the attribute exists)."""
    torch = _torch()
    import numpy as np

    allowed = {0.0, 1.0, 0.5}
    for row in case["U"]:
        for x in row:
            allowed.add(abs(float(x)))
            allowed.add(2.0 * abs(float(x)))
    arr = np.array(sorted(allowed), dtype=np.float64)
    for n, f in enumerate(factors):
        if f.dtype != torch.complex128:
            return f"factor {n} has dtype {f.dtype}, expected complex128"
        g = f.clone()
        if updated:
            g[0 if n == 0 else 1, :, :, 0] = 0
        parts = np.abs(np.concatenate([g.real.numpy().ravel(), g.imag.numpy().ravel()]))
        ok = np.isin(parts, arr)
        if not ok.all():
            v = float(parts[~ok][0])
            near = float(arr[np.abs(arr - v).argmin()])
            tag = "WRONG: " if abs(v - near) > 1e-3 * max(near, 1e-300) else ""
            return (f"{tag}factor {n} holds {v!r}, which is none of 0, 1, 1/2, |U_ij|, 2|U_ij| of the float64 input "
                    f"(nearest {near!r}, relative error {abs(v - near) / max(near, 1e-300):.3g}): a coupling was "
                    f"not stored verbatim")
    seen = np.unique(np.abs(np.concatenate(
        [np.concatenate([f.real.numpy().ravel(), f.imag.numpy().ravel()]) for f in factors])))
    N = case["N"]
    for i in range(N):
        for j in range(i + 1, N):
            u = abs(float(case["U"][i][j]))
            if u != 0.0 and not (np.isin(u, seen) or np.isin(2.0 * u, seen)):
                near = bool((np.abs(seen - u) <= 1e-3 * u).any() or (np.abs(seen - 2 * u) <= 2e-3 * u).any())
                tag = "" if near else ("DROPPED: " if u <= 1e-6 else "WRONG: ")
                return (f"{tag}the non-zero coupling U[{i}][{j}] = {case['U'][i][j]!r} of the input appears in no "
                        f"factor of the MPO (neither |U| nor 2|U|, bit for bit)")
    try:
        from emu_mps import hamiltonian as hm
        cls = hm.RydbergHamiltonianMPOFactors if case["ht"] == "Ryd" else hm.XYHamiltonianMPOFactors
        b = cls(torch.tensor(case["U"], dtype=torch.float64), dim=case["dim"])
        im = getattr(b, "interaction_matrix", None)
    except Exception:
        im = None  # fail closed only through the entry and dense comparisons
    if im is not None and im.dtype != torch.float64:
        return f"the builder's private copy of the float64 interaction matrix has dtype {im.dtype}"
    return None


def property_check_seq(ctx, case):
    """After EVERY in-place update_H of the sequence the real MPO must contract to the dense
    Hamiltonian of the drive just written (nothing of the earlier updates may survive)."""
    import numpy as np

    try:
        snaps = impl_build_seq(case)
    except Exception as ex:
        ctx.violation(f"make_H/update_H raised {type(ex).__name__}: {ex}",
                      {"case": case, "finding_key": "make_H-raises"})
        return False
    for k, factors in enumerate(snaps):
        sc = step_case(case, k)
        got = contract_dense(factors).numpy()
        why = verbatim_check(sc, factors, updated=True) or (
            interaction_checks(sc) if k == 0 and _wants_ic(case) else None)
        if why:
            ctx.violation(why, {"case": case, "failing_call": k, "finding_key": _verbatim_key(why)})
            return False
        err = float(np.abs(got - dense_reference(sc)).max())
        lim = REL_DENSE * _h_scale(sc)
        if err > lim:
            fresh = float(np.abs(contract_dense(impl_build(sc)).numpy() - dense_reference(sc)).max())
            stale = k > 0 and fresh <= lim
            key = "update_H-leaves-stale-entries" if stale else _dense_key(sc, err)
            what = (f"after in-place update_H call #{k + 1} (noise kinds {case.get('noise_kinds')}) the MPO differs "
                    f"from the dense Hamiltonian of the drive just written, max |diff| = {err:.3g}"
                    + ("; the same drive on a fresh make_H is correct: entries of an earlier update survive"
                       if stale else ""))
            ctx.violation(what, {"case": case, "failing_call": k, "max_abs_diff": err, "finding_key": key})
            return False
    return True


def run(ctx):
    from vlib.coqparse import parse

    rc, out = common.coq_make(["Model/MpoHam.vo"])
    ctx.obligation("build:Model/MpoHam.vo", rc == 0, out, kind="build")
    model_ok = rc == 0
    common.standard_proof_stage(ctx, "C05", ["Properties/C05.vo"])

    cases = list(corpus_cases()) + gen_cases(ctx)
    rng = ctx.rng
    seq_cases = [gen_seq_case(rng, N=2 + k % 5, dim=3 if k % 3 else 2) for k in range(ctx.n(60, 600))]
    cases += seq_cases
    cases += [gen_precision_case(rng, N=2 + k % 5) for k in range(ctx.n(50, 500))]
    # a previous drive for a third of the cases: update_H twice must equal the last update
    for c in cases:
        if c.get("symmetric", True) and rng.random() < 0.33 and "first_drive" not in c and "seq" not in c:
            o = make_case(rng, c["N"], [], c["ht"], c["dim"], "tol", "x")
            c["first_drive"] = {k: o[k] for k in ("omega", "phi", "delta", "noise")}

    # ---- falsifier: real MPO contracted densely vs independent dense Hamiltonian
    n_dense = 0
    for c in cases:
        if c.get("symmetric", True) and c["dim"] ** c["N"] <= 800:
            n_dense += 1
            property_check(ctx, c)
    ctx.extra["dense_contraction_cases"] = n_dense

    # ---- correspondence model <-> make_H/update_H, every entry of every factor
    corr_ok, detail = model_ok, "" if model_ok else "model did not build"
    hist = {}
    if model_ok:
        try:
            ev = common.CoqEval("C05", HEADER)
            plan = []
            for k, c in enumerate(cases):
                if "seq" in c:  # one model evaluation per in-place update, compared after EVERY call
                    for j in range(len(c["seq"])):
                        plan.append((k, ("seq", j)))
                        ev.add(model_expr(step_case(c, j), True))
                    if c["kind"] == "precision":  # also straight after make_H: every coupling bit for bit
                        plan.append((k, False))
                        ev.add(model_expr(c, False))
                    continue
                plan.append((k, True))
                ev.add(model_expr(c, True))
                if k % 8 == 0:
                    plan.append((k, False))
                    ev.add(model_expr(c, False))
            outs = ev.run(shard=150, jobs=12)
            snaps_cache = {}
            for (k, upd), o in zip(plan, outs):
                c = cases[k]
                m = parse(o)
                exact = (not upd) or c["mode"] == "exact"  # an earlier drive is overwritten completely
                try:
                    if isinstance(upd, tuple):
                        if k not in snaps_cache:
                            snaps_cache.clear()
                            snaps_cache[k] = impl_build_seq(c)
                        f = snaps_cache[k][upd[1]]
                        why = compare(c, f, m, exact)
                        if why:
                            why = f"after in-place update #{upd[1] + 1} of {c.get('noise_kinds')}: {why}"
                    else:
                        f = impl_build(c, update=upd, second=c.get("first_drive") if upd else None)
                        why = compare(c, f, m, exact)
                except Exception as ex:  # e.g. the MPO constructor rejects inconsistent bond dimensions
                    why = f"make_H/update_H raised {type(ex).__name__}: {ex}"
                key = f"{c['kind']}/N{c['N']}/{c['ht']}/d{c['dim']}/{'exact' if exact else 'tol'}"
                hist[key] = hist.get(key, 0) + 1
                if upd is True or (isinstance(upd, tuple) and upd[1] == 0):
                    ctx.count_case({k2: c.get(k2) for k2 in ("kind", "N", "ht", "dim", "mode", "pattern", "U",
                                                              "noise_kinds")},
                                   nontrivial=len(c["pattern"]) > 0 or "seq" in c)
                if why and corr_ok:
                    corr_ok = False
                    detail = f"update={upd} {why} case={json.dumps(c)}"
                    ctx.extra["first_disagreement"] = {"case": c, "update": upd, "why": why}
        except (common.CoqEvalError, ValueError) as ex:
            corr_ok, detail = False, str(ex)
    ctx.extra["input_distribution"] = dict(sorted(hist.items()))
    ctx.obligation("correspondence:Model.MpoHam factors == make_H+update_H factors (all entries, all bond dims)",
                   corr_ok, detail, kind="correspondence")
    ctx.rule = ("every sparsity pattern of U for N<=4 (quick) / N<=5 (thorough) x {Rydberg,XY} x {dim 2,3}, "
                "sampled N=5, random patterns N=6..9, non-symmetric matrices N=3..7; signed small-integer U, "
                "integer drive with phi=0 (exact) or generic drive (tol 1e-9), Gaussian-integer noise block; "
                "plus sequences of 3-5 in-place update_H calls on the SAME MPO (N=2..6, dim 2/3, noise kinds "
                "zero/full/third-level-only/diagonal with a zero noise after a non-zero one, all-zero drives), "
                "compared entry-by-entry and densely after EVERY call; plus a precision stream (generic float64 "
                "couplings: randn, C6/r^6, C3/r^3 from random positions, +-10^[-4,4]; generic float drives/noise; "
                "+-10^[-14,6] mixed in one matrix, O(1) neighbours with 1e-9..1e-13 tails, whole matrices scaled by "
                "1e-9/1e-12/2^-37; after make_H and after every update of a sequence), on which also: every input "
                "coupling must appear bit for bit in the factors, make_H(2^k U) == 2^k make_H(U) exactly for "
                "k=-40,-27,20, interaction part entrywise-relative vs dense reference. In ALL streams every entry outside the drive "
                "slot must equal the model's exact value bit for bit, drive-slot entries within 1e-13 relative, the "
                "dense contraction within 1e-12 relative to max(1,|inputs|), factors must be complex128; "
                "a case is non-trivial when at least one pair interacts; distinct by input hash")
    ctx.trusted_base += ["hand-written model coq/Model/MpoHam.v (validated entry-by-entry by this correspondence)",
                         "float64 arithmetic on small integers / dyadics is exact (exact mode)"]
    ctx.assumptions += ["theorems assume a symmetric interaction matrix (the code reads the upper triangle in the "
                        "left half and the lower triangle in the right half) and a sound zero test",
                        "omega*cos(phi), omega*sin(phi) are inputs of the model (torch computes them before any "
                        "matrix is touched); generic-phi cases are compared with tolerance 1e-9",
                        "physical indices: the theorems hold for any index functions; dim only bounds the exported range"]


def replay(ctx, path):
    rp = json.loads(open(path).read())
    c = rp["case"]
    ok = property_check(ctx, c)
    print("replay:", "agrees with dense Hamiltonian" if ok else "DIFFERS from dense Hamiltonian")


META = {
    "category": "proof",
    "technique": "Coq proof over an arbitrary commutative ring (labelled-bond transfer-matrix model) + exact "
                 "entry-by-entry correspondence with make_H/update_H + dense contraction falsifier",
    "text": ("Proved for all N >= 2, all symmetric interaction matrices (any sparsity, any values), all drive "
             "blocks, all physical index strings and every commutative ring: the ordered product of the model's "
             "per-site bond matrices equals the explicit dense sum (single-site terms + U_ij A_i B_j pair terms), "
             "bond dimensions chain, update_H touches exactly the Idle->Done block and overwrites. The model is "
             "tied to the code by comparing every entry of every factor for every sparsity pattern (N<=5)."),
    "note": ("Trusted: Coq kernel+VM, the hand model (validated by the correspondence on every run), exactness "
             "of float64 on small integers. cos/sin are outside the model (inputs)."),
}
