"""C27 — a loadable autosave always survives a crash during autosaving (DESIGN.md §4 C27).

Tie: `save_simulation` is re-translated on every run into a Gallina operation list (Gen/SaveOps.v, fail closed);
the crash-semantics model (Model/Fs.v) that executes it is validated against the REAL routine run in a scratch
directory with open / pickle.dump / os.rename|replace|remove / os.path.getsize / Path.is_file interposed: same
calls in the same order with the same results, same directory content after every call, for every initial
directory condition and every crash point.  The property itself is checked on the real directory (and by a real
`MPSBackend.resume`) independently of the model."""
from __future__ import annotations

import itertools
import json
import os
import pathlib
import pickle as real_pickle
import re

from vlib import common
from props import _c27_translate as tr
from props import _mps_runs as mr

SRC = common.REPO / "emu_mps/mps_backend_impl.py"
GEN = common.COQ / "Gen" / "SaveOps.v"
HEADER = """From Coq Require Import List String.
Import ListNotations.
From EV Require Import Model.Fs Gen.SaveOps.
Open Scope string_scope.
Definition ops_dat := resolve (Some "dat") save_ops.  (* a fresh run advertises <prefix><uuid>.dat *)"""
VALS = [None, ("Old", True), ("Old", False), ("New", True), ("New", False), ("Other", True), ("Other", False)]
ADV_FILE = "snap_c27.dat"


def gen():
    text, _ = tr.translate(SRC.read_text())
    return [(GEN, text)]


# ---- names / listings ------------------------------------------------------------------------
def norm(x):
    """coqparse output -> plain data: bare constructors as str, `Some v` unwrapped"""
    if hasattr(x, "name") and type(x).__name__ == "_Id":
        return x.name
    if isinstance(x, tuple):
        if len(x) == 2 and x[0] == "Some":
            return norm(x[1])
        return tuple(norm(y) for y in x)
    if isinstance(x, list):
        return [norm(y) for y in x]
    return x


def parse(s):
    from vlib import coqparse

    return norm(coqparse.parse(s))


def name_str(n) -> str:
    """parsed Coq name -> 'Adv' | 'Sfx:new' | 'App:new'"""
    if n == "Adv":
        return "Adv"
    return n[0] + ":" + n[1]


def name_coq(n: str) -> str:
    return "Adv" if n == "Adv" else f'({n[:3]} "{n[4:]}")'


def val_coq(v) -> str:
    return "None" if v is None else f"Some ({v[0]}, {'true' if v[1] else 'false'})"


def listing_coq(lst) -> str:
    return "[" + "; ".join(f"({name_coq(n)}, {val_coq(v)})" for n, v in lst) + "]"


def parse_listing(l):
    out = []
    for n, v in l:
        out.append([name_str(n), None if v is None else [v[0], bool(v[1])]])
    return out


def parse_ev(e):
    tag = e[0][1:]  # drop the E
    if tag in ("WriteBegin", "WriteEnd", "Remove", "Stat"):
        return [tag, name_str(e[1])]
    if tag == "IsFile":
        return [tag, name_str(e[1]), bool(e[2])]
    if tag == "Move":
        return [tag, name_str(e[1]), name_str(e[2])]
    if tag == "Raise":
        p = e[1]
        return [tag, p[0]] + [name_str(x) for x in p[1:]]
    raise ValueError(f"event {e}")


def path_of(d: pathlib.Path, n: str, adv_name: str = None) -> pathlib.Path:
    adv = d / (adv_name or ADV_FILE)
    if n == "Adv":
        return adv
    if n.startswith("App:"):
        return adv.with_name(adv.name + "." + n[4:])
    return adv.with_suffix("." + n[4:])


def name_of_path(d: pathlib.Path, p, adv_name: str = None) -> str:
    """canonical model name of a real path (the representative chosen by Model/Fs.v: canon)"""
    p = pathlib.Path(p)
    adv = d / (adv_name or ADV_FILE)
    if p == adv:
        return "Adv"
    if p.parent == adv.parent and p.suffix and p.stem == adv.stem:
        return "Sfx:" + p.suffix[1:]
    if p.parent == adv.parent and p.name.startswith(adv.name + ".") and p.name[len(adv.name) + 1:].isalnum():
        return "App:" + p.name[len(adv.name) + 1:]
    return "?" + p.name


def class_of(adv_name: str):
    """the aliasing class (Model/Fs.v: sg) of an advertised file name: its last suffix or None"""
    suf = pathlib.PurePath(adv_name).suffix
    return suf[1:] if suf else None


def adv_of_class(sg) -> str:
    return "run" if sg is None else "run." + sg


def is_default_name(adv_name) -> bool:
    return adv_name is None or adv_name.endswith(".dat")


# ---- the real routine under interposition -------------------------------------------------------
class Snapshots:
    """Three distinguishable, genuinely resumable emu-mps snapshots (mid-run solver objects)."""

    def __init__(self, pad: int = 0):
        import logging
        from emu_mps import MPSConfig
        from emu_mps.mps_backend_impl import create_impl
        from pulser.backend import Occupation

        mr.quiet()
        cfg = MPSConfig(observables=[Occupation(evaluation_times=[0.5, 1.0])], dt=10, autosave_dt=20,
                        log_level=logging.ERROR)
        seq = mr.make_sequence(n_atoms=2, duration=20)
        (sd,) = mr.sequence_datas(seq, cfg)
        with mr.scratch_dir("c27_init"):
            impl = create_impl(sd, cfg)
            impl.init()
            impl.progress()  # one of two time steps done
            assert not impl.is_finished()
            if pad:  # make the pickle much larger than any file/pickle-frame buffer
                import torch

                impl._verif_pad = torch.arange(pad, dtype=torch.float64)
            self.blob = {}
            for t in ("Old", "New", "Other"):
                impl._verif_token = t
                self.blob[t] = real_pickle.dumps(impl)
        for t, b in self.blob.items():
            try:
                real_pickle.loads(b[: len(b) // 2])
                raise AssertionError("truncated snapshot unexpectedly loadable")
            except AssertionError:
                raise
            except Exception:
                pass

    def content(self, v):
        t, complete = v
        b = self.blob[t]
        return b if complete else b[: len(b) // 2]

    def classify(self, path: pathlib.Path):
        """None | [token, True] | [None, False] — 'complete' means: pickle.load succeeds"""
        if not path.is_file():
            return None
        try:
            with open(path, "rb") as f:
                obj = real_pickle.load(f)
            return [getattr(obj, "_verif_token", "?"), True]
        except Exception:
            return [None, False]


class Recorder:
    """Wrappers bound to the module-level names of emu_mps.mps_backend_impl while save_simulation runs."""

    def __init__(self, d: pathlib.Path, crash_after, mode: str, adv_name: str = None):
        self.d = d
        self.adv_name = adv_name
        self.crash_after = crash_after  # crash right after this many events (0 = before the first call)
        self.mode = mode  # 'empty': crash inside a write leaves an empty file; 'half': half of the bytes
        self.events = []
        self.open_files = {}
        self.unknown = []

    # -- bookkeeping
    def entry(self):
        if self.crash_after == 0 and not self.events:
            raise mr.Crash()

    def rec(self, *e):
        self.events.append(list(e))
        if self.crash_after is not None and len(self.events) == self.crash_after:
            raise mr.Crash()

    def nm(self, p):
        n = name_of_path(self.d, p, self.adv_name)
        if n.startswith("?"):
            self.unknown.append(n)
        return n

    # -- wrappers
    def open(self, path, mode="r", *a, **k):
        if "w" not in mode and "a" not in mode and "+" not in mode:
            return open(path, mode, *a, **k)
        self.entry()
        n = self.nm(path)
        fh = open(path, mode, *a, **k)
        self.open_files[id(fh)] = n
        if self.mode == "empty":
            try:
                self.rec("WriteBegin", n)
            except mr.Crash:
                fh.close()
                raise
        return fh

    def dump(self, obj, fh, *a, **k):
        n = self.open_files.get(id(fh), "?unopened")
        data = real_pickle.dumps(obj, *a, **k)
        if self.mode == "half":
            fh.write(data[: len(data) // 2])
            fh.flush()
            self.rec("WriteBegin", n)
            fh.write(data[len(data) // 2:])
        else:
            fh.write(data)
        fh.flush()
        self.rec("WriteEnd", n)

    def _move(self, kind, real, a, b):
        self.entry()
        na, nb = self.nm(a), self.nm(b)
        try:
            real(a, b)
        except OSError:
            self.rec("Raise", kind, na, nb)
            raise
        self.rec("Move", na, nb)

    def rename(self, a, b):
        self._move("Rename", os.rename, a, b)

    def replace(self, a, b):
        self._move("Replace", os.replace, a, b)

    def remove(self, a):
        self.entry()
        n = self.nm(a)
        try:
            os.remove(a)
        except OSError:
            self.rec("Raise", "Remove", n)
            raise
        self.rec("Remove", n)

    def getsize(self, a):
        self.entry()
        n = self.nm(a)
        try:
            r = os.path.getsize(a)
        except OSError:
            self.rec("Raise", "Stat", n)
            raise
        self.rec("Stat", n)
        return r

    def is_file(self, p):
        r = _REAL["is_file"](p)
        if pathlib.Path(p).parent == self.d:
            self.entry()
            self.rec("IsFile", self.nm(p), bool(r))
        return r


_REAL = {k: pathlib.Path.__dict__[k] for k in ("is_file", "exists", "rename", "replace", "unlink")}


class _Proxy:
    def __init__(self, real, **over):
        self._real = real
        self.__dict__.update(over)

    def __getattr__(self, k):
        return getattr(self._real, k)


def run_real(snaps: Snapshots, initial, crash_after, mode="empty", keep=None, adv_name=None):
    """Populate a scratch directory as `initial` ([[name, value]]), run the REAL save_simulation of a
    solver object carrying token New with a crash after `crash_after` events; returns what happened."""
    import emu_mps.mps_backend_impl as im

    with mr.scratch_dir("c27") as d:
        for n, v in initial:
            if v is not None:
                path_of(d, n, adv_name).write_bytes(snaps.content(tuple(v)))
        obj = real_pickle.loads(snaps.blob["New"])
        obj.autosave_file = d / (adv_name or ADV_FILE)
        obj.last_save_time = float("-inf")  # the time trigger fires
        rec = Recorder(d, crash_after, mode, adv_name)
        os_proxy = _Proxy(os, rename=rec.rename, replace=rec.replace, remove=rec.remove, unlink=rec.remove,
                          path=_Proxy(os.path, getsize=rec.getsize))
        outcome = "completed"
        err = ""
        with mr.rebound(im, open=rec.open, os=os_proxy, pickle=_Proxy(real_pickle, dump=rec.dump)), \
                mr.rebound(pathlib.Path,
                           is_file=lambda self: rec.is_file(self),
                           exists=lambda self, **k: rec.is_file(self),
                           rename=lambda self, t: rec.rename(self, t),
                           replace=lambda self, t: rec.replace(self, t),
                           unlink=lambda self, missing_ok=False: rec.remove(self)):
            try:
                obj.save_simulation()
            except mr.Crash:
                outcome = "crashed"
            except OSError as ex:
                outcome = "raised"
                err = f"{type(ex).__name__}: {ex}"
        names = sorted({n for n, _ in initial} | {name_of_path(d, p, adv_name) for p in d.iterdir()})
        after = {n: snaps.classify(path_of(d, n, adv_name)) if not n.startswith("?") else ["?", True] for n in names}
        res = {"outcome": outcome, "error": err, "events": rec.events, "after": after,
               "unknown_paths": rec.unknown, "resume": None}
        if keep is not None:  # attempt the real resume from the advertised path
            res["resume"] = try_resume(d / (adv_name or ADV_FILE))
            res["dir_listing"] = sorted(p.name for p in d.iterdir())
        return res


def try_resume(adv: pathlib.Path):
    from emu_mps import MPSBackend

    before = sorted(p.name for p in adv.parent.iterdir())
    try:
        r = MPSBackend.resume(adv)
        occ = r.get_result("occupation", 1.0)
        return {"ok": True, "n_occ": len(occ), "dir_before": before}
    except BaseException as ex:  # noqa: BLE001  (whatever resume does with a bad file is the finding)
        return {"ok": False, "error": f"{type(ex).__name__}: {str(ex)[:200]}", "dir_before": before}


# ---- crash-instant oracle: what a SIGKILL would leave ON DISK at every point of the real routine ---------------
class _FileProxy:
    """The handle `open(.., "wb")` returns while the oracle runs: every write / flush / close is a crash point.
    Nothing is flushed or closed by the harness: bytes still in Python's buffer are NOT on disk."""

    def __init__(self, fh, orc, name):
        self._fh, self._orc, self._name = fh, orc, name

    def write(self, b):
        self._orc.point(f"before write({self._name})")
        r = self._fh.write(b)
        self._orc.point(f"after write({self._name}, {len(b)} bytes)")
        return r

    def flush(self):
        self._fh.flush()
        self._orc.point(f"after flush({self._name})")

    def close(self):
        self._orc.point(f"before close({self._name})")
        self._fh.close()
        self._orc.point(f"after close({self._name})")

    def __enter__(self):
        return self

    def __exit__(self, *a):
        self.close()
        return False

    def __getattr__(self, k):
        return getattr(self._fh, k)


class DiskOracle:
    def __init__(self, d: pathlib.Path, snaps: "Snapshots", adv_name: str = None):
        self.d, self.snaps, self.adv_name = d, snaps, adv_name
        self.points = []  # [label, {file name: classification}]
        self._cache = {}

    def point(self, label):
        """read the directory through fresh OS-level reads, exactly as another process (or the next boot) sees it"""
        st = {}
        for p in sorted(self.d.iterdir()):
            try:
                with open(p, "rb") as f:
                    b = f.read()
            except OSError:
                continue
            k = hash(b)
            if k not in self._cache:
                try:
                    self._cache[k] = [getattr(real_pickle.loads(b), "_verif_token", "?"), True, len(b)]
                except Exception:
                    self._cache[k] = [None, False, len(b)]
            st[name_of_path(self.d, p, self.adv_name)] = self._cache[k]
        self.points.append([label, st])

    def wrap(self, label, fn):
        def w(*a, **k):
            self.point("before " + label)
            try:
                return fn(*a, **k)
            finally:
                self.point("after " + label)
        return w

    def open(self, path, mode="r", *a, **k):
        if "w" not in mode and "a" not in mode and "+" not in mode:
            return open(path, mode, *a, **k)
        n = name_of_path(self.d, path, self.adv_name)
        self.point(f"before open({n})")
        fh = open(path, mode, *a, **k)
        self.point(f"after open({n})")
        return _FileProxy(fh, self, n)


def run_disk_oracle(snaps: Snapshots, initial, adv_name=None):
    """Run the REAL save_simulation (token New) from the directory `initial` and return the on-disk content at
    every crash point: before and immediately after each file-system call and each write of the dump."""
    import emu_mps.mps_backend_impl as im

    with mr.scratch_dir("c27o") as d:
        for n, v in initial:
            if v is not None:
                path_of(d, n, adv_name).write_bytes(snaps.content(tuple(v)))
        obj = real_pickle.loads(snaps.blob["New"])
        obj.autosave_file = d / (adv_name or ADV_FILE)
        obj.last_save_time = float("-inf")
        orc = DiskOracle(d, snaps, adv_name)
        nm = lambda p: name_of_path(d, p, adv_name)  # noqa: E731
        os_proxy = _Proxy(
            os,
            rename=lambda a, b: orc.wrap(f"os.rename({nm(a)}, {nm(b)})", os.rename)(a, b),
            replace=lambda a, b: orc.wrap(f"os.replace({nm(a)}, {nm(b)})", os.replace)(a, b),
            remove=lambda a: orc.wrap(f"os.remove({nm(a)})", os.remove)(a),
            unlink=lambda a: orc.wrap(f"os.unlink({nm(a)})", os.unlink)(a),
            path=_Proxy(os.path, getsize=lambda a: orc.wrap(f"getsize({nm(a)})", os.path.getsize)(a)))
        err = ""
        with mr.rebound(im, open=orc.open, os=os_proxy), \
                mr.rebound(pathlib.Path,
                           rename=lambda self, t: orc.wrap(f"Path.rename({nm(self)}, {nm(t)})", os.rename)(self, t),
                           replace=lambda self, t: orc.wrap(f"Path.replace({nm(self)}, {nm(t)})", os.replace)(self, t),
                           unlink=lambda self, missing_ok=False: orc.wrap(f"Path.unlink({nm(self)})", os.remove)(self)):
            orc.point("start")
            try:
                obj.save_simulation()
            except Exception as ex:  # noqa: BLE001
                err = f"{type(ex).__name__}: {ex}"
            orc.point("end")
        return {"points": orc.points, "error": err}


def alias_key(adv_name, missing: bool, default_missing: str, default_partial: str) -> str:
    if is_default_name(adv_name):
        return default_missing if missing else default_partial
    return "advertised-file-removed-by-alias" if missing else "advertised-name-is-temp-name"


def disk_oracle_check(ctx, snaps, initial, size, adv_name=None) -> bool:
    r = run_disk_oracle(snaps, initial, adv_name)
    init = dict((n, v) for n, v in initial)
    ok = True
    for i, (label, st) in enumerate(r["points"]):
        ctx.count_case({"oracle": "disk", "size": size, "adv": adv_name, "initial": initial, "point": label,
                        "dir": st}, True)
        v = st.get("Adv")
        if good_value(init.get("Adv")) and not (v is not None and v[1] and v[0] in ("Old", "New")):
            key = alias_key(adv_name, v is None, "autosave-window", "advertised-file-truncated-at-crash")
            what = ((f"advertised file named {adv_name!r}: " if adv_name else "")
                    + f"a kill at crash point #{i} ({label}) leaves "
                    + ("no file" if v is None else f"a truncated / unloadable file of {v[2]} bytes")
                    + " under the advertised autosave name (previous complete snapshot already gone)")
            ctx.violation(what, {"case": {"oracle": "disk", "size": size, "initial": initial, "point": i,
                                          "adv": adv_name},
                                 "label": label, "on_disk": st, "trail": [p[0] for p in r["points"][: i + 1]],
                                 "finding_key": key})
            ok = False
            break
    if ok and not r["error"] and r["points"][-1][1].get("Adv", [None])[0] != "New":
        ctx.violation("a completed autosave did not leave the new snapshot under the advertised name",
                      {"case": {"oracle": "disk", "size": size, "initial": initial, "point": None, "adv": adv_name},
                       "on_disk": r["points"][-1][1], "finding_key": "stale-autosave"})
        ok = False
    return ok


SIGKILL_CHILD = r"""
import os, pathlib, pickle, signal, sys
import emu_mps.mps_backend_impl as im
d, src, nth = pathlib.Path(sys.argv[1]), sys.argv[2], int(sys.argv[3])
with open(src, "rb") as f:
    obj = pickle.load(f)
obj.autosave_file = d / sys.argv[4]
obj.last_save_time = float("-inf")
count = [0]
def killing(fn):
    def w(*a, **k):
        r = fn(*a, **k)
        count[0] += 1
        if count[0] == nth:
            os.kill(os.getpid(), signal.SIGKILL)
        return r
    return w
class P:
    def __init__(self, real, **o): self._r = real; self.__dict__.update(o)
    def __getattr__(self, k): return getattr(self._r, k)
im.os = P(os, rename=killing(os.rename), replace=killing(os.replace))
obj.save_simulation()
"""


def sigkill_case(ctx, snaps, size):
    """One REAL hard kill: a child process is SIGKILLed right after its first os.rename/os.replace returned."""
    import subprocess
    import sys

    with mr.scratch_dir("c27k") as d:
        work = d / "autosave"
        work.mkdir()
        (work / ADV_FILE).write_bytes(snaps.blob["Old"])
        (d / "obj.pkl").write_bytes(snaps.blob["New"])
        (d / "child.py").write_text(SIGKILL_CHILD)
        p = subprocess.run([sys.executable, str(d / "child.py"), str(work), str(d / "obj.pkl"), "1", ADV_FILE],
                           env=common.env_for_impl(), stdout=subprocess.PIPE, stderr=subprocess.STDOUT, timeout=300)
        v = snaps.classify(work / ADV_FILE)
        files = sorted(q.name for q in work.iterdir())
        ctx.count_case({"oracle": "sigkill", "size": size, "rc": p.returncode, "adv": v, "files": files}, True)
        if p.returncode != -9:
            ctx.notes.append(f"sigkill child ended with rc={p.returncode}: {p.stdout.decode(errors='replace')[-300:]}")
            return
        if not good_value(v):
            ctx.violation("a child process SIGKILLed right after its first rename left "
                          + ("no file" if v is None else "a truncated pickle") + " under the advertised name",
                          {"case": {"oracle": "sigkill", "size": size}, "adv": v, "files": files,
                           "finding_key": "autosave-window" if v is None else "advertised-file-truncated-at-crash"})


ALIAS_NAMES = ["run.bak", "run.new", "run", "job.7.dat", "x.y.bak", "run.tmp"]


class _Stop(BaseException):
    pass


def alias_resume_case(ctx, snaps, adv_name) -> bool:
    """A user's copy of an autosave called `adv_name` is resumed with the real MPSBackend.resume; the resumed run
    autosaves again (fake clock) and is killed right after that autosave returned: the advertised file must still
    be a complete snapshot, and resuming from it again must work and clean up."""
    import emu_mps.mps_backend as mb
    import emu_mps.mps_backend_impl as im
    from emu_mps import MPSBackend

    orig = im.MPSBackendImpl.save_simulation
    state = {"saves": 0}

    def save_then_die(self):
        before = self.last_save_time
        orig(self)
        if self.last_save_time != before:
            state["saves"] += 1
            raise _Stop()

    with mr.scratch_dir("c27a") as d:
        adv = d / adv_name
        adv.write_bytes(snaps.blob["Old"])
        clock = mr.FakeClock()
        err = ""
        with mr.rebound(im, time=clock), mr.rebound(mb, time=clock), \
                mr.rebound(im.MPSBackendImpl, save_simulation=save_then_die):
            try:
                MPSBackend.resume(adv)
            except _Stop:
                pass
            except Exception as ex:  # noqa: BLE001
                err = f"{type(ex).__name__}: {str(ex)[:200]}"
        v = snaps.classify(adv)
        files = sorted(q.name for q in d.iterdir())
        second = try_resume(adv) if state["saves"] else None
        left = sorted(q.name for q in d.iterdir())
        ctx.count_case({"oracle": "alias-resume", "adv": adv_name, "autosaves": state["saves"], "after_kill": v,
                        "files": files, "second_resume": second, "left": left}, True)
        if err or not state["saves"]:
            ctx.notes.append(f"alias-resume {adv_name}: no autosave happened in the resumed run ({err})")
            return True
        ok = v is not None and v[1] and (second or {}).get("ok") and not left
        if not ok:
            what = (f"a run resumed from a file named {adv_name!r} autosaved and was killed right after: the "
                    f"advertised file is {'missing' if v is None else 'not loadable' if not v[1] else 'present'}; "
                    f"files {files}; second resume {second}; files left at the end {left}")
            ctx.violation(what, {"case": {"oracle": "alias-resume", "adv": adv_name, "size": "small"},
                                 "finding_key": alias_key(adv_name, v is None or bool(left), "autosave-window",
                                                          "advertised-file-truncated-at-crash")})
        return bool(ok)


# ---- property oracle on the real directory (independent of the model) -----------------------------
def good_value(v) -> bool:
    return v is not None and v[1] is True and v[0] in ("Old", "New")


def property_check(ctx, case, r) -> bool:
    """C27 on the real directory: initial advertised file complete (old) => after the crash it is a complete
    old-or-new snapshot and MPSBackend.resume(advertised) works."""
    init = dict((n, v) for n, v in case["initial"])
    if not good_value(init.get("Adv")):
        return True
    v = r["after"].get("Adv")
    ok = good_value(v) and (r["resume"] is None or r["resume"]["ok"])
    if not ok:
        what = ("after a crash during a later autosave the advertised autosave file is "
                + ("missing" if v is None else "not a complete old/new snapshot" if not good_value(v) else "not resumable")
                + f" (crash after call #{case['crash_after']}: {r['events'][-1] if r['events'] else 'start'})")
        ctx.violation((f"advertised file named {case['adv']!r}: " if case.get("adv") else "") + what,
                      {"case": case, "real": r,
                       "finding_key": alias_key(case.get("adv"), v is None, "autosave-window", "autosave-window")})
    return ok


def corpus_cases():
    p = common.VERIF / "corpus" / "C27.json"
    return json.loads(p.read_text()) if p.exists() else []


def fallback_names():
    """names to explore when the translator refuses the source: the suffixes mentioned in save_simulation"""
    m = re.search(r"def save_simulation\(self\).*?(?=\n    def )", SRC.read_text(), flags=re.S)
    sufs = sorted(set(re.findall(r"with_suffix\(\s*[\"'](\.\w+)[\"']", m.group(0) if m else "")))
    apps = sorted(set(re.findall(r"\.name\s*\+\s*[\"'](\.\w+)[\"']", m.group(0) if m else "")))
    return (["Adv"] + ["Sfx:" + s[1:] for s in sufs if s != ".dat"] + ["App:" + s[1:] for s in apps])[:3]


def refutation_file(k: int, init, ops="save_ops") -> str:
    return (f"""{HEADER}
From EV Require Import Proofs.FsProofs.
(* generated by the C27 check: machine-checked witness that the CURRENT save_simulation violates C27 *)
Theorem C27_refuted_safe_false : safe ({ops}) = false.
Proof. vm_compute. reflexivity. Qed.
Theorem C27_refuted :
  let s0 := of_listing {listing_coq(init)} in
  holds s0 Old /\\
  exists s', nth_error (trace Posix New ({ops}) s0) {k} = Some s' /\\ ~ (holds s' Old \\/ holds s' New).
Proof.
  split; [reflexivity|]. eexists. split; [vm_compute; reflexivity|].
  unfold holds. intros [H|H]; vm_compute in H; discriminate.
Qed.
Print Assumptions C27_refuted.
""")


def run(ctx):
    # ---- 1. translation (fail closed)
    info = None
    try:
        text, info = tr.translate(SRC.read_text())
        common.write_if_changed(GEN, text)
        ctx.obligation("translate:save_simulation->Gen/SaveOps.v", True, "; ".join(info["ops"]), kind="translator")
    except (tr.Unsupported, SyntaxError) as ex:
        ctx.obligation("translate:save_simulation->Gen/SaveOps.v", False, f"unsupported construct: {ex}",
                       kind="translator")
    model_ok = info is not None

    # ---- 2. proofs
    if model_ok:
        rc, out = common.coq_make(["Gen/SaveOps.vo"])
        if rc != 0:
            ctx.obligation("build:Gen/SaveOps.vo", False, out, kind="build")
            model_ok = False
    if model_ok:
        common.standard_proof_stage(ctx, "C27", ["Properties/C27.vo"])

    # ---- 3. the decidable checks on the generated operation list
    names = fallback_names()
    safe = None
    bad_posix = None
    model_witnesses = []
    if model_ok:
        try:
            ev = common.CoqEval("C27a", HEADER)
            ev.add("(safe save_ops, fresh save_ops, completes save_ops, names_of ops_dat)")
            ev.add("(all_classes safe save_ops, all_classes fresh save_ops, all_classes completes save_ops)")
            ev.add("map (fun sg => (sg, safe (resolve sg save_ops), fresh (resolve sg save_ops), "
                   "completes (resolve sg save_ops), find_bad_on Posix (resolve sg save_ops), "
                   "find_bad_on Windows (resolve sg save_ops))) (Some \"dat\" :: classes save_ops)")
            ev.add("show_run Posix ops_dat after_first_save")
            o = [parse(x) for x in ev.run()]
            safe_sym, fresh, completes, ns = o[0]
            safe_all, fresh_all, completes_all = o[1]
            safe = bool(safe_sym) and bool(safe_all)
            names = [name_str(n) for n in ns]
            ctx.extra["generated_ops"] = info["ops"]
            ctx.extra["model_second_autosave_posix"] = [parse_ev(e) for e, _ in o[3][0]]
            ctx.obligation("all_classes fresh save_ops = true (vm_compute)", bool(fresh) and bool(fresh_all),
                           "a completed autosave does not always leave the new snapshot under the advertised name")
            ctx.obligation("all_classes completes save_ops = true (vm_compute)", bool(completes) and bool(completes_all),
                           "save_simulation raises from a tidy directory on some platform / for some advertised name")
            detail = ""
            classes_out = []
            seen_sg = set()
            for sg, sf, fr, cp, wp, ww in o[2]:
                if sg in seen_sg:
                    continue
                seen_sg.add(sg)
                classes_out.append({"advertised_suffix": sg, "safe": bool(sf), "fresh": bool(fr), "completes": bool(cp)})
                for pl, w in (("Posix", wp), ("Windows", ww)):
                    if w is not None:
                        init, k, after = w
                        wit = {"platform": pl, "advertised_suffix": sg, "adv": adv_of_class(sg),
                               "initial": parse_listing(init), "crash_index": k, "after": parse_listing(after)}
                        ctx.extra.setdefault("model_witness", []).append(wit)
                        detail += (f"advertised name ending in {('.' + sg) if sg else 'no suffix'} / {pl}: from "
                                   f"{wit['initial']} a crash after {k} events leaves {wit['after']}; ")
                        if pl == "Posix" and bad_posix is None:
                            bad_posix = wit
            ctx.extra["alias_classes"] = classes_out
            ctx.obligation("all_classes safe save_ops = true (vm_compute on the generated operation list, every way the "
                           "advertised file name can end)", bool(safe), detail)
            if not safe and bad_posix:
                f = common.BUILD / "assum" / "C27_refuted.v"
                f.parent.mkdir(parents=True, exist_ok=True)
                sgc = "None" if bad_posix["advertised_suffix"] is None else f'(Some "{bad_posix["advertised_suffix"]}")'
                f.write_text(refutation_file(bad_posix["crash_index"],
                                             [(n, None if v is None else tuple(v)) for n, v in bad_posix["initial"]],
                                             ops=f"resolve {sgc} save_ops"))
                rc, out = common.coqc_file(f)
                ctx.obligation("C27_refuted (witness of the violation machine-checked by coqc; build/assum/C27_refuted.v)",
                               rc == 0 and "Closed under the global context" in out, out, kind="refutation")
        except (common.CoqEvalError, ValueError) as ex:
            ctx.obligation("evaluate safe/fresh/completes", False, str(ex), kind="build")
            model_ok = False

    # ---- 4. real routine: every initial directory condition x every crash point
    snaps = Snapshots()
    all_states = [list(zip(names, vs)) for vs in itertools.product(VALS, repeat=len(names))]
    plain = [s for s in all_states if all(v in (None, ("Old", True), ("Old", False)) for n, v in s if n == "Adv")
             and all(v in (None, ("Other", True), ("Other", False)) for n, v in s if n != "Adv")]
    if ctx.thorough():
        states, modes = all_states, ["empty", "half"]
    else:
        rest = [s for s in all_states if s not in plain]
        states, modes = plain + ctx.rng.sample(rest, min(30, len(rest))), ["empty"]
    jform = lambda s: [[n, None if v is None else list(v)] for n, v in s]  # noqa: E731
    plain_keys = {json.dumps(jform(s)) for s in plain}
    states = [jform(s) for s in states]

    model_runs = {}
    if model_ok:
        try:
            ev = common.CoqEval("C27b", HEADER)
            for s in states:
                ev.add(f"show_run Posix ops_dat (of_listing {listing_coq([(n, None if v is None else tuple(v)) for n, v in s])})")
            for s, o in zip(states, ev.run()):
                (evs, fin) = parse(o)
                model_runs[json.dumps(s)] = {
                    "events": [parse_ev(e) for e, _ in evs],
                    "states": [parse_listing(l) for _, l in evs],
                    "final": None if fin is None else parse_listing(fin),
                }
        except (common.CoqEvalError, ValueError) as ex:
            ctx.obligation("evaluate model runs", False, str(ex), kind="build")
            model_ok = False

    # corpus first (minimal witnesses of past findings), then the sweep
    n_viol_before = len(ctx.violations)
    for c in corpus_cases():
        if c.get("oracle") == "disk":
            disk_oracle_check(ctx, snaps, c["initial"], "small", c.get("adv"))
            continue
        r = run_real(snaps, c["initial"], c["crash_after"], c.get("mode", "empty"), keep=True, adv_name=c.get("adv"))
        property_check(ctx, c, r)
        ctx.count_case({"corpus": c}, True)
    # the model's witnesses for aliasing advertised names, replayed on a real directory
    for wit in [w for w in ctx.extra.get("model_witness", []) if w["platform"] == "Posix"]:
        c = {"initial": wit["initial"], "crash_after": wit["crash_index"], "mode": "empty", "adv": wit["adv"]}
        r = run_real(snaps, c["initial"], c["crash_after"], "empty", keep=True, adv_name=c["adv"])
        property_check(ctx, c, r)
        ctx.count_case({"model_witness_replayed": c, "after": r["after"]}, True)

    # crash-instant disk oracle (needs no model): small and large (> 64 KiB buffers) snapshots
    big = Snapshots(pad=60000)
    o_names = names if len(names) > 1 else names + ["Sfx:new"]
    o_inits = [[[n, ["Old", True] if n == "Adv" else None] for n in o_names]]
    for v in (["Other", True], ["Other", False]):
        o_inits += [[[n, ["Old", True] if n == "Adv" else (v if n == m else None)] for n in o_names]
                    for m in o_names[1:]]
    o_inits.append([[n, None] for n in o_names])  # the very first autosave
    ctx.extra["disk_oracle"] = {"snapshot_bytes": {"small": len(snaps.blob["New"]), "big": len(big.blob["New"])},
                                "initial_directories": len(o_inits)}
    for size, sn in (("big", big), ("small", snaps)):
        for ini in o_inits:
            disk_oracle_check(ctx, sn, ini, size)
    # advertised files with other names (a resumed run advertises whatever path the user passed): paths alias
    for adv_name in ALIAS_NAMES:
        disk_oracle_check(ctx, snaps, [["Adv", ["Old", True]]], "small", adv_name)
        alias_resume_case(ctx, snaps, adv_name)
    disk_oracle_check(ctx, big, [["Adv", ["Old", True]]], "big", "run.bak")
    if ctx.thorough():
        sigkill_case(ctx, big, "big")
        sigkill_case(ctx, snaps, "small")

    corr_ok, corr_detail = True, ""
    hist = {"crash_points": 0, "completed": 0, "raised": 0, "resumes": 0, "resume_failed": 0}

    def same_state(model_listing, after):
        for n, v in model_listing:
            a = after.get(n)
            if v is None or a is None:
                if not (v is None and a is None):
                    return False
            elif v[1] != a[1] or (v[1] and v[0] != a[0]):  # content of a partial file is not observable
                return False
        return not any(k.startswith("?") for k in after)

    for s in states:
        init = dict((n, None if v is None else tuple(v)) for n, v in s)
        m = model_runs.get(json.dumps(s))
        for mode in modes:
            full = run_real(snaps, s, None, mode)
            n_ev = len(full["events"])
            hist["completed" if full["outcome"] == "completed" else "raised"] += 1
            if m is not None and corr_ok:
                exp_out = "completed" if m["final"] is not None else "raised"
                if full["events"] != m["events"] or full["outcome"] != exp_out or full["unknown_paths"]:
                    corr_ok = False
                    corr_detail = f"initial={s} mode={mode}: real calls {full['events']} ({full['outcome']}) != model {m['events']} ({exp_out})"
                    ctx.extra["first_disagreement"] = {"initial": s, "real": full, "model": m}
            for j in range(0, n_ev + 1):
                want_resume = good_value(init.get("Adv")) and (ctx.thorough() or json.dumps(s) in plain_keys)
                case = {"initial": s, "crash_after": j, "mode": mode}
                r = full if j == n_ev and not want_resume else run_real(snaps, s, j, mode, keep=want_resume or None)
                hist["crash_points"] += 1
                if r["resume"] is not None:
                    hist["resumes"] += 1
                    hist["resume_failed"] += 0 if r["resume"]["ok"] else 1
                ctx.count_case({"initial": s, "crash_after": j, "mode": mode, "after": r["after"]},
                               any(v is not None for _, v in s))
                property_check(ctx, case, r)
                if m is not None and corr_ok:
                    exp = s if j == 0 else m["states"][j - 1] if j - 1 < len(m["states"]) else None
                    if exp is None or not same_state(exp, r["after"]) or r["events"] != m["events"][:j]:
                        corr_ok = False
                        corr_detail = f"initial={s} crash_after={j} mode={mode}: real dir {r['after']} events {r['events']} != model {exp} / {m['events'][:j]}"
                        ctx.extra["first_disagreement"] = {"case": case, "real": r, "model": m}
            # freshness on the real directory
            if full["outcome"] == "completed" and full["after"].get("Adv") != ["New", True]:
                ctx.violation("a completed autosave did not leave the new snapshot under the advertised name",
                              {"case": {"initial": s, "crash_after": None, "mode": mode}, "real": full,
                               "finding_key": "stale-autosave"})
    if model_ok:
        ctx.obligation("correspondence:Model.Fs(run Posix save_ops)==real save_simulation "
                       "(calls, results, directory after every call)", corr_ok, corr_detail, kind="correspondence")
    ctx.extra["input_distribution"] = dict(hist, initial_states=len(states), modes=modes, names=names)

    # ---- 5. tie the model verdict to the real code
    if safe is False and len(ctx.violations) == n_viol_before:
        # the model refutes the property but no real-directory failure was produced (e.g. Windows-only)
        ctx.violation("safe save_ops = false: the model exhibits a crash point without a loadable advertised file",
                      {"model_witness": ctx.extra.get("model_witness"), "finding_key": "autosave-window-model"},
                      found_input=False)

    ctx.rule = ("every assignment of {absent, complete/partial x old/new/other snapshot} to the files save_simulation "
                "mentions (quick: the 27 plain ones + 30 sampled; thorough: all 343, and both partial-write shapes) x a "
                "crash after every file-system call; a case is non-trivial when some file exists initially; "
                "distinct by (initial directory, crash point, resulting directory)")
    ctx.trusted_base += [
        "translator tools/props/_c27_translate.py (validated on every run by the call-by-call correspondence)",
        "Windows semantics of os.rename/os.replace as documented (only the POSIX instance is compared with a real run)",
        "crash = process kill: data handed to the OS survives; power-loss reordering (no fsync in the code) is outside the model",
    ]
    ctx.assumptions += [
        "the advertised name is self.autosave_file (what the log tells the user to resume from)",
        "no other process touches the autosave files; one autosave at a time",
        "a partially written pickle is not loadable (checked for the snapshots used)",
        "file-name suffixes are alphanumeric (pathlib with_suffix semantics: the last suffix is replaced, or appended "
        "when there is none)",
    ]


def replay(ctx, path):
    rp = json.loads(open(path).read())
    if "case" not in rp:
        print("model-level witness only:", json.dumps(rp.get("model_witness"), indent=1))
        ctx.violation(rp.get("what", "model witness"), {k: rp[k] for k in rp if k in ("model_witness", "finding_key")},
                      found_input=False)
        return
    c = rp["case"]
    if c.get("oracle") == "alias-resume":
        if alias_resume_case(ctx, Snapshots(), c["adv"]):
            print("replay: property holds on this input now")
        else:
            print(json.dumps(ctx.samples[-1:], indent=1, default=str))
        return
    if c.get("oracle") == "disk":
        sn = Snapshots(pad=60000 if c.get("size") == "big" else 0)
        r = run_disk_oracle(sn, c["initial"], c.get("adv"))
        print("advertised file name:", c.get("adv") or ADV_FILE)
        for i, (label, st) in enumerate(r["points"]):
            print(f"#{i:2d} {label:45s} {st}")
        if disk_oracle_check(ctx, sn, c["initial"], c.get("size", "small"), c.get("adv")):
            print("replay: property holds on this input now")
        return
    if c.get("oracle") == "sigkill":
        sn = Snapshots(pad=60000 if c["size"] == "big" else 0)
        n0 = len(ctx.violations)
        sigkill_case(ctx, sn, c["size"])
        if len(ctx.violations) == n0:
            print("replay: property holds on this input now")
        return
    snaps = Snapshots()
    r = run_real(snaps, c["initial"], c["crash_after"], c.get("mode", "empty"), keep=True, adv_name=c.get("adv"))
    print("advertised file   :", c.get("adv") or ADV_FILE)
    print("initial directory :", c["initial"])
    print("calls before crash:", r["events"])
    print("directory after   :", r["after"], r.get("dir_listing"))
    print("MPSBackend.resume :", r["resume"])
    if property_check(ctx, c, r):
        print("replay: property holds on this input now")


META = {
    "category": "proof",
    "technique": ("Coq proof of a generic crash-safety theorem over a file-system crash model + operation list "
                  "translated from save_simulation on every run + call-by-call correspondence with the real routine"),
    "text": ("Proved for every operation list p passing the decidable check `safe` (exact: sound and complete), every "
             "content type, both platforms, every prior directory condition and every crash point (before/after each "
             "call, inside the write, escaping exception): the advertised file remains a complete old-or-new snapshot; "
             "lifted by induction to any number of successive completed/crashed autosaves; a completed autosave leaves "
             "the new snapshot; no raise from a tidy directory. `safe save_ops` is evaluated by vm_compute on the list "
             "regenerated from the source: true discharges C27, false yields the crash point, which is replayed on a "
             "real directory with a real MPSBackend.resume. Validated (not proved): the model against the real routine "
             "on POSIX for all 343 directory conditions x every crash point."),
    "note": ("Trusted: Coq kernel+VM, the translator (validated by the correspondence), documented Windows rename "
             "semantics, pickle truncation => not loadable. Crash = process kill; power loss without fsync is outside."),
}
