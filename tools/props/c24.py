"""C24 — noise-model channels act on the intended atomic levels (DESIGN.md §4 C24).

Tie (H-tie, exact): Model/NoiseOps.v is run at the Gaussian integers on the same noise models as the real
`get_lindblad_operators`, `_get_all_lindblad_noise_operators`, `compute_noise_from_lindbladians` (rates chosen
so that every square root is exact => all entries are Gaussian integers, compared exactly), the reference
`pulser_ops` is compared with pulser's own `HamiltonianData._build_local_collapse_operators`, and on random
float rates the real operators are compared bit-for-bit with `math.sqrt(rate*k) * pattern`.
The falsifier compares the real emulator operators with pulser's definition level pair by level pair."""
import itertools
import json
import math
from types import SimpleNamespace

from vlib import common

PROP = "C24"
HEADER = """From Coq Require Import String.
From Coq Require Import ZArith List.
Import ListNotations.
From EV Require Import Base.Arith Model.NoiseOps.
Open Scope string_scope. Open Scope Z_scope."""

NON_LINDBLADIAN_MODEL = ["SPAM", "doppler", "amplitude", "detuning", "register", "dmm_sigma", "dmm_crosstalk"]
LINDBLADIAN = ["relaxation", "dephasing", "depolarizing", "eff_noise", "leakage"]
PULSER_ORDER = {True: ["r", "g", "x"], False: ["u", "d", "x"]}   # ising / XY eigenbasis order in pulser
EMU_ORDER = {True: ["g", "r", "x"], False: ["u", "d", "x"]}      # emulator order


# ---------------------------------------------------------------------------------------------------
# case -> real objects
def make_noise_model(case):
    """A real pulser.NoiseModel when case['real'] else a duck-typed stand-in (malformed stream)."""
    import numpy as np

    ops = [np.array([[complex(a, b) for a, b in row] for row in op], dtype=complex) for op in case["eff_ops"]]
    if case["real"]:
        import pulser

        kw = {}
        if case["relaxation_rate"]:
            kw["relaxation_rate"] = case["relaxation_rate"]
        if case["dephasing_rate"]:
            kw["dephasing_rate"] = case["dephasing_rate"]
        if case["hyperfine_dephasing_rate"]:
            kw["hyperfine_dephasing_rate"] = case["hyperfine_dephasing_rate"]
        if case["depolarizing_rate"]:
            kw["depolarizing_rate"] = case["depolarizing_rate"]
        if ops:
            kw["eff_noise_rates"] = tuple(case["eff_rates"])
            kw["eff_noise_opers"] = tuple(ops)
        if case["with_leakage"]:
            kw["with_leakage"] = True
        for k in case.get("extra_kw", {}):
            kw[k] = case["extra_kw"][k]
        return pulser.NoiseModel(**kw)
    return _DuckNoiseModel(
        noise_types=tuple(case["types"]), relaxation_rate=case["relaxation_rate"],
        dephasing_rate=case["dephasing_rate"], hyperfine_dephasing_rate=case["hyperfine_dephasing_rate"],
        depolarizing_rate=case["depolarizing_rate"], eff_noise_rates=tuple(case["eff_rates"]),
        eff_noise_opers=tuple(ops))


class _DuckNoiseModel:
    """duck-typed stand-in for pulser.NoiseModel (hashable by identity, so that caching code paths accept it)"""

    def __init__(self, **kw):
        self.__dict__.update(kw)


def exc_code(ex):
    if isinstance(ex, AssertionError):
        return 1
    if isinstance(ex, NotImplementedError):
        return 2
    if isinstance(ex, ValueError) and "effective noise operator matrices are supported" in str(ex):
        return 3
    if isinstance(ex, ValueError) and "Unknown noise type" in str(ex):
        return 4
    if isinstance(ex, IndexError):
        return 5
    raise ex


def tensor_to_lists(t):
    return [[complex(v) for v in row] for row in t.tolist()]


def impl_run(case):
    """Run the REAL functions. Returns dict with 'all' (ops or error), 'single' (probe kind -> ops or error),
    'noise2' (2 * compute_noise_from_lindbladians)."""
    from emu_base.jump_lindblad_operators import get_lindblad_operators, compute_noise_from_lindbladians
    from emu_base.pulser_adapter import _get_all_lindblad_noise_operators

    nm = make_noise_model(case)
    it = "ising" if case["ising"] else "XY"
    out = {"types": list(nm.noise_types)}
    try:
        ops = _get_all_lindblad_noise_operators(nm, dim=case["dim"], interact_type=it)
        out["all"] = ("Ok", [tensor_to_lists(o) for o in ops])
        try:
            n = compute_noise_from_lindbladians(ops, dim=case["dim"])
            out["noise2"] = ("Ok", [[2 * v for v in row] for row in tensor_to_lists(n)])
        except (AssertionError,) as ex:
            out["noise2"] = ("Err", exc_code(ex))
    except (AssertionError, NotImplementedError, ValueError, IndexError) as ex:
        out["all"] = ("Err", exc_code(ex))
        out["noise2"] = out["all"]
    except Exception as ex:  # noqa: BLE001  any other exception: reported as a disagreement, never a harness crash
        out["all"] = ("Err", f"unexpected {type(ex).__name__}: {ex}"[:200])
        out["noise2"] = out["all"]
    single = {}
    for t in case["probes"]:
        try:
            ops = get_lindblad_operators(noise_type=t, noise_model=nm, interact_type=it, dim=case["dim"])
            single[t] = ("Ok", [tensor_to_lists(o) for o in ops])
        except (AssertionError, NotImplementedError, ValueError, IndexError) as ex:
            single[t] = ("Err", exc_code(ex))
        except Exception as ex:  # noqa: BLE001
            single[t] = ("Err", f"unexpected {type(ex).__name__}: {ex}"[:200])
    out["single"] = single
    return out


def pulser_reference(case):
    """Pulser's own collapse operators (pulser order) for a real NoiseModel: {kind: [matrix]} with exact
    complex entries, built from HamiltonianData._build_local_collapse_operators."""
    import numpy as np
    from pulser._hamiltonian_data.hamiltonian_data import HamiltonianData

    nm = make_noise_model(case)
    dim = case["dim"]
    eig = PULSER_ORDER[case["ising"]][:dim]
    names = HamiltonianData._get_projectors(eig)
    basis_name = ("ground-rydberg" if case["ising"] else "XY") + ("_with_error" if dim == 3 else "")
    if "relaxation" in nm.noise_types and not case["ising"]:
        return None
    ops, pauli = HamiltonianData._build_local_collapse_operators(None, nm, basis_name, eig, names)

    def sigma(name):
        a, b = name[len("sigma_"):]
        m = np.zeros((dim, dim), dtype=complex)
        m[eig.index(a), eig.index(b)] = 1.0
        return m

    res = {"relaxation": [], "dephasing": [], "depolarizing": [], "eff_noise": []}
    for coeff, op in ops:
        if isinstance(op, str) and op in pauli:
            res["depolarizing"].append(float(coeff) * sum(complex(c) * sigma(n) for c, n in pauli[op]))
        elif isinstance(op, str) and op == "sigma_gr":
            res["relaxation"].append(float(coeff) * sigma(op))
        elif isinstance(op, str):
            res["dephasing"].append(float(coeff) * sigma(op))
        else:
            res["eff_noise"].append(float(coeff) * np.array(op, dtype=complex))
    return {k: [[[complex(v) for v in row] for row in m.tolist()] for m in v] for k, v in res.items()}


# ---------------------------------------------------------------------------------------------------
# case -> model expression
def zi(a, b=0):
    return f"({int(a)}, {int(b)})"


def mat_lit(op):
    return "[" + "; ".join("[" + "; ".join(zi(a, b) for a, b in row) + "]" for row in op) + "]"


def str_list(xs):
    return "[" + "; ".join('"%s"' % x for x in xs) + "]"


def model_expr(case, types):
    """Model at Z[i] with the integer coefficients of the case (exact-sqrt cases) or unit coefficients."""
    if case["exact"]:
        cr, cd, cp = case["c_relax"], case["c_deph"], case["c_depol"]
        ce = case["c_eff"]
    else:
        cr = cd = cp = 1
        ce = [1] * len(case["eff_rates"])
    hf = "true" if case["hyperfine_dephasing_rate"] != 0.0 else "false"
    nm = (f"mk_nm {str_list(types)} {zi(cr)} {zi(cd)} {hf} {zi(cp)} "
          f"[{'; '.join(zi(c) for c in ce)}] [{'; '.join(mat_lit(o) for o in case['eff_ops'])}]")
    ising = "true" if case["ising"] else "false"
    dim = f"{case['dim']}%nat"
    probes = str_list(case["probes"])
    return (f"let nm := {nm} in "
            f"let af := get_all_lindblad_noise_operators zi_ring RebaseFlipBlock (Some nm) {ising} {dim} in "
            f"let ap := get_all_lindblad_noise_operators zi_ring RebasePermute (Some nm) {ising} {dim} in "
            f"(af, ap, res_bind af (fun ops => compute_noise_x2 zi_ring ops {dim}), "
            f"res_bind ap (fun ops => compute_noise_x2 zi_ring ops {dim}), "
            f"map (fun t => get_lindblad_operators zi_ring RebaseFlipBlock t nm {ising} {dim}) {probes}, "
            f"map (fun t => get_lindblad_operators zi_ring RebasePermute t nm {ising} {dim}) {probes}, "
            f"map (fun t => pulser_ops zi_ring t nm {ising} {dim}) "
            f"[\"relaxation\"; \"dephasing\"; \"depolarizing\"; \"eff_noise\"])")


def dec_res(v, mat_depth):
    """parsed Coq `res` -> ('Ok', python complex nested lists) / ('Err', code)"""
    if isinstance(v, tuple) and v[0] == "Err":
        return ("Err", v[1])
    if v == "OutOfFuel":
        return ("Err", -1)
    assert isinstance(v, tuple) and v[0] == "Ok", v
    return ("Ok", dec_mats(v[1], mat_depth))


def dec_mats(v, depth):
    if depth == 0:
        return complex(v[0], v[1])
    return [dec_mats(x, depth - 1) for x in v]


def coefficient_walk(case, types):
    """Per-operator coefficient (as the real code must compute it) for an 'Ok' result, in order."""
    out = []
    for t in types:
        if t in NON_LINDBLADIAN_MODEL:
            continue
        if t == "relaxation":
            out.append(math.sqrt(case["relaxation_rate"]))
        elif t == "dephasing":
            out.append(math.sqrt(case["dephasing_rate"] / 2))
        elif t == "depolarizing":
            out += [math.sqrt(case["depolarizing_rate"] / 4)] * 3
        elif t == "eff_noise":
            n = min(len(case["eff_rates"]), len(case["eff_ops"]))
            out += [math.sqrt(r) for r in case["eff_rates"][:n]]
    return out


def scale_pattern(c, mats_pattern):
    """c_float * Gaussian-integer pattern, computed the way float*complex rounds (componentwise)."""
    return [[complex(c * v.real, c * v.imag) for v in row] for row in mats_pattern]


def same(a, b):
    """exact equality of nested lists of complex numbers (-0.0 == 0.0)"""
    if isinstance(a, list) != isinstance(b, list):
        return False
    if isinstance(a, list):
        return len(a) == len(b) and all(same(x, y) for x, y in zip(a, b))
    return complex(a) == complex(b)


# ---------------------------------------------------------------------------------------------------
# generators
def rand_gauss_op(rng, n, m=None, big=False):
    m = n if m is None else m
    lim = 1000 if big else 4
    mode = rng.random()
    if mode < 0.25:   # elementary unit matrix
        i, j = rng.randrange(n), rng.randrange(m)
        return [[(1, 0) if (a, b) == (i, j) else (0, 0) for b in range(m)] for a in range(n)]
    if mode < 0.4:    # real
        return [[(rng.randint(-lim, lim), 0) for _ in range(m)] for _ in range(n)]
    return [[(rng.randint(-lim, lim), rng.randint(-lim, lim)) for _ in range(m)] for _ in range(n)]


def unit_op(n, i, j):
    return [[(1, 0) if (a, b) == (i, j) else (0, 0) for b in range(n)] for a in range(n)]


def base_case(dim, ising):
    return {"real": True, "exact": True, "dim": dim, "ising": ising, "with_leakage": dim == 3,
            "relaxation_rate": 0.0, "dephasing_rate": 0.0, "hyperfine_dephasing_rate": 0.0,
            "depolarizing_rate": 0.0, "eff_rates": [], "eff_ops": [],
            "c_relax": 0, "c_deph": 0, "c_depol": 0, "c_eff": [],
            "probes": LINDBLADIAN + ["SPAM", "doppler", "foo"], "types": None, "tag": ""}


def set_exact(case, relax=0, deph=0, depol=0, eff=()):
    """integer coefficients -> rates whose square roots are exact"""
    case["c_relax"], case["c_deph"], case["c_depol"] = relax, deph, depol
    case["relaxation_rate"] = float(relax * relax)
    case["dephasing_rate"] = float(2 * deph * deph)
    case["depolarizing_rate"] = float(4 * depol * depol)
    case["c_eff"] = [c for c, _ in eff]
    case["eff_rates"] = [float(c * c) for c, _ in eff]
    case["eff_ops"] = [op for _, op in eff]
    return case


def elementary_cases():
    """every elementary unit operator E_ij, 2x2 and 3x3, ising and XY (exhaustive)"""
    out = []
    for dim in (2, 3):
        for ising in (True, False):
            for i in range(dim):
                for j in range(dim):
                    c = set_exact(base_case(dim, ising), eff=[(1, unit_op(dim, i, j))])
                    c["tag"] = f"E{i}{j}"
                    out.append(c)
    return out


def kind_cases():
    """every Lindbladian kind alone and all together, dims 2/3, ising/XY (relaxation only for ising)"""
    out = []
    for dim in (2, 3):
        for ising in (True, False):
            leak = [(1, unit_op(3, 2, 0))] if dim == 3 else []
            combos = [dict(deph=1), dict(deph=3), dict(depol=1), dict(depol=2), dict(deph=2, depol=3)]
            if ising:
                combos += [dict(relax=1), dict(relax=5), dict(relax=2, deph=3, depol=5)]
            for kw in combos:
                c = set_exact(base_case(dim, ising), eff=leak, **kw)
                c["tag"] = "kinds:" + ",".join(sorted(kw))
                out.append(c)
    return out


SHOT_KW = [
    {"temperature": 50.0}, {"amp_sigma": 0.05}, {"detuning_sigma": 0.1},
    {"p_false_pos": 0.01, "p_false_neg": 0.02}, {"state_prep_error": 0.01},
    {"temperature": 20.0, "trap_waist": 1.0, "trap_depth": 150.0},
]


def random_real_case(rng, exact):
    dim = rng.choice([2, 3])
    ising = rng.random() < 0.65
    c = base_case(dim, ising)
    n_eff = rng.choice([0, 1, 1, 2, 3]) if dim == 2 else rng.choice([1, 1, 2, 3])
    eff = [(rng.choice([0, 1, 2, 3, 4, 5, 6]), rand_gauss_op(rng, dim, big=rng.random() < 0.2)) for _ in range(n_eff)]
    relax = rng.choice([0, 0, 1, 2, 3]) if ising else 0
    deph = rng.choice([0, 0, 1, 2, 5])
    depol = rng.choice([0, 0, 1, 3, 4])
    set_exact(c, relax=relax, deph=deph, depol=depol, eff=eff)
    if not exact:
        c["exact"] = False
        mag = lambda: 10 ** rng.uniform(-6, 2)  # noqa: E731
        c["relaxation_rate"] = mag() if relax else 0.0
        c["dephasing_rate"] = mag() if deph else 0.0
        c["depolarizing_rate"] = mag() if depol else 0.0
        c["eff_rates"] = [mag() if k else 0.0 for k, _ in eff]
    if ising and rng.random() < 0.3:
        c["extra_kw"] = rng.choice(SHOT_KW)
    if rng.random() < 0.05 and deph:
        c["hyperfine_dephasing_rate"] = 0.001
    c["tag"] = "random-real"
    return c


def distinct_ops(rng, dim, k):
    """k pairwise distinct, non-zero Gaussian-integer operators"""
    ops = []
    while len(ops) < k:
        op = rand_gauss_op(rng, dim)
        if any(v != (0, 0) for row in op for v in row) and op not in ops:
            ops.append(op)
    return ops


def multi_eff_case(rng, dim, ising, k, coeffs, exact, tag):
    """eff_noise model with k pairwise distinct operators and the given integer coefficients (0 = rate exactly 0.0)"""
    c = base_case(dim, ising)
    set_exact(c, eff=list(zip(coeffs, distinct_ops(rng, dim, k))))
    if not exact:
        c["exact"] = False
        rates = []
        for co in coeffs:   # same coefficient -> same rate, distinct coefficients -> distinct random rates
            rates.append(0.0 if co == 0 else round(10 ** ((co * 0.37) % 3 - 2) * (1 + co / 7.0), 6))
        c["eff_rates"] = rates
    c["tag"] = "multi-eff:" + tag
    return c


def multi_eff_cases(rng, n_random):
    """2..5 operators: an exact zero rate at every position (all other rates pairwise distinct), two zeros, all equal,
    all distinct, all zero; exact-sqrt and float rates; dims 2/3, ising/XY"""
    out = []
    for k in range(2, 6):
        for pos in range(k):
            dim, ising, exact = rng.choice([2, 3]), rng.random() < 0.6, rng.random() < 0.6
            coeffs = rng.sample(range(1, 10), k)
            coeffs[pos] = 0
            out.append(multi_eff_case(rng, dim, ising, k, coeffs, exact, f"zero@{pos}/{k}"))
    for dim in (2, 3):
        for ising in (True, False):
            out.append(multi_eff_case(rng, dim, ising, 2, [0, 3], True, "zero-first-of-2"))
            out.append(multi_eff_case(rng, dim, ising, 3, [1, 0, 4], True, "zero-middle-of-3"))
            out.append(multi_eff_case(rng, dim, ising, 3, [0, 5, 2], False, "zero-first-of-3"))
    for _ in range(n_random):
        k = rng.randint(2, 5)
        dim, ising, exact = rng.choice([2, 3]), rng.random() < 0.6, rng.random() < 0.5
        mode = rng.choice(["distinct", "distinct", "zeros", "zeros", "equal", "allzero", "mixed"])
        if mode == "distinct":
            coeffs = rng.sample(range(1, 10), k)
        elif mode == "zeros":
            coeffs = rng.sample(range(1, 10), k)
            for pos in rng.sample(range(k), rng.randint(1, k - 1)):
                coeffs[pos] = 0
        elif mode == "equal":
            coeffs = [rng.randint(1, 6)] * k
        elif mode == "allzero":
            coeffs = [0] * k
        else:
            coeffs = [rng.choice([0, 1, 2, 2, 5]) for _ in range(k)]
        out.append(multi_eff_case(rng, dim, ising, k, coeffs, exact, mode))
    return out


def malformed_case(rng):
    """duck-typed noise model: arbitrary kind order, duplicates, unknown kinds, wrong shapes, rate/operator
    count mismatch, hyperfine dephasing, dim/operators mismatch"""
    dim = rng.choice([2, 3])
    c = base_case(dim, rng.random() < 0.6)
    c["real"] = False
    pool = LINDBLADIAN + NON_LINDBLADIAN_MODEL + ["foo", "Relaxation", "", "eff_noise "]
    weights = [4] * 5 + [1] * 7 + [1, 1, 1, 1]
    c["types"] = rng.choices(pool, weights=weights, k=rng.randint(0, 6))
    n_eff = rng.randint(0, 3)
    eff = []
    for _ in range(n_eff):
        r = rng.random()
        shape = (dim, dim) if r < 0.8 else rng.choice([(2, 2), (3, 3), (2, 3), (1, 1), (3, 2)])
        eff.append((rng.randint(1, 5), rand_gauss_op(rng, shape[0], shape[1])))
    set_exact(c, relax=rng.randint(0, 3), deph=rng.randint(0, 3), depol=rng.randint(0, 3), eff=eff)
    if rng.random() < 0.2 and c["eff_rates"]:
        c["eff_rates"] = c["eff_rates"][:-1]     # zip truncates
        c["c_eff"] = c["c_eff"][:-1]
    if rng.random() < 0.15:
        c["hyperfine_dephasing_rate"] = 0.5
    c["tag"] = "malformed"
    return c


# ---------------------------------------------------------------------------------------------------
# precision stream: generic complex128 operators and generic rates (nothing here is dyadic)
def gen_precision_case(rng):
    dim = rng.choice([2, 3])
    ising = rng.random() < 0.6
    k = rng.randint(1, 4)
    ops = [[[(rng.gauss(0, 1) * 10 ** rng.uniform(-2, 2), rng.gauss(0, 1) * 10 ** rng.uniform(-2, 2)) for _ in range(dim)]
            for _ in range(dim)] for _ in range(k)]
    mag = lambda: 10 ** rng.uniform(-5, 2) * 1.2345678901234567  # noqa: E731
    return {"dim": dim, "ising": ising, "eff_ops": ops, "eff_rates": [mag() for _ in range(k)],
            "relaxation_rate": mag() if (ising and rng.random() < 0.5) else 0.0,
            "dephasing_rate": mag() if rng.random() < 0.5 else 0.0,
            "depolarizing_rate": mag() if rng.random() < 0.5 else 0.0, "kind": "precision"}


def check_precision_case(ctx, case):
    """real NoiseModel -> real operators; oracle: dtype complex128, every entry within 1e-13 (relative to the
    operator's largest entry) of the float64 value sqrt(rate * k) * pattern / sqrt(rate_k) * A_k re-based"""
    import numpy as np
    import pulser
    import torch
    from emu_base.jump_lindblad_operators import compute_noise_from_lindbladians
    from emu_base.pulser_adapter import _get_all_lindblad_noise_operators

    dim, ising = case["dim"], case["ising"]
    A = [np.array([[complex(a, b) for a, b in row] for row in op], dtype=complex) for op in case["eff_ops"]]
    kw = {"eff_noise_rates": tuple(case["eff_rates"]), "eff_noise_opers": tuple(A)}
    for name in ("relaxation_rate", "dephasing_rate", "depolarizing_rate"):
        if case[name]:
            kw[name] = case[name]
    if dim == 3:
        kw["with_leakage"] = True
    nm = pulser.NoiseModel(**kw)
    ops = _get_all_lindblad_noise_operators(nm, dim=dim, interact_type="ising" if ising else "XY")
    noise = compute_noise_from_lindbladians(ops, dim=dim)

    def bad(what, detail):
        ctx.violation(f"{what}: {detail}", {"case": case, "finding_key": "lindblad-op-lost-precision", "kind": "precision"})
        return False

    for i, o in enumerate(list(ops) + [noise]):
        if o.dtype != torch.complex128:
            return bad("dtype", f"operator {i} has dtype {o.dtype}, not complex128")
    got = [o.numpy() for o in ops]
    want = []   # list of lists of acceptable references (both basis-change variants for 3x3 ising: F-12 is judged elsewhere)
    z = np.zeros((dim, dim), dtype=complex)
    for t in nm.noise_types:
        if t == "relaxation":
            m = z.copy(); m[0, 1] = math.sqrt(case["relaxation_rate"]); want.append([m])
        elif t == "dephasing":
            c = math.sqrt(case["dephasing_rate"] / 2)
            m = np.diag([c if a != 1 else -c for a in range(dim)]).astype(complex); want.append([m])
        elif t == "depolarizing":
            c = math.sqrt(case["depolarizing_rate"] / 4)
            x = z.copy(); x[0, 1] = c; x[1, 0] = c
            y = z.copy(); y[0, 1] = -1j * c; y[1, 0] = 1j * c
            zz = z.copy(); zz[0, 0] = c; zz[1, 1] = -c
            want += [[x], [y], [zz]]
        elif t == "eff_noise":
            for r, a in zip(case["eff_rates"], A):
                L = math.sqrt(r) * a
                if ising:
                    f = L.copy(); f[:2, :2] = L[:2, :2][::-1, ::-1]
                    perm = [1, 0] + list(range(2, dim))
                    want.append([f, L[np.ix_(perm, perm)]])
                else:
                    want.append([L])
    if len(got) != len(want):
        return bad("count", f"{len(got)} operators, expected {len(want)}")
    for i, (g, refs) in enumerate(zip(got, want)):
        scale = max(float(np.abs(refs[0]).max()), 1e-300)
        err = min(float(np.abs(g - r).max()) for r in refs) / scale
        if err > 1e-13:
            return bad("value", f"operator {i} deviates by {err:.3e} (relative) from the float64 value; got {g.tolist()}")
    ref_noise = -0.5j * sum((g.conj().T @ g for g in got), start=z)
    scale = max(float(np.abs(ref_noise).max()), 1e-300)
    err = float(np.abs(noise.numpy() - ref_noise).max()) / scale
    if err > 1e-12:
        return bad("value", f"compute_noise_from_lindbladians deviates by {err:.3e} (relative) from -0.5j*sum(L^+ L)")
    return True


# ---------------------------------------------------------------------------------------------------
# end to end through the REAL adapter: PulserData(sequence, config).lindblad_ops / SequenceData.lindblad_ops of real
# Rydberg and XY sequences vs pulser's own LindbladData (pd.hamiltonian.lindblad_data), relabelled to emulator order
def adapter_sequence(xy):
    import pulser

    reg = pulser.Register.rectangle(1, 2, spacing=8.0, prefix="q")
    seq = pulser.Sequence(reg, pulser.MockDevice)
    seq.declare_channel("ch0", "mw_global" if xy else "rydberg_global")
    seq.add(pulser.Pulse.ConstantPulse(40, 1.0, 0.0, 0.0), "ch0")
    return seq


def gen_adapter_case(rng, fixed=None):
    """integer coefficients (exact sqrt) and Gaussian-integer operators that are NOT invariant under the r/g swap"""
    dim = rng.choice([2, 3])
    ising = rng.random() < 0.7
    c = base_case(dim, ising)
    pool = [unit_op(dim, 1, 0), unit_op(dim, 0, 0), unit_op(dim, 0, 1), rand_gauss_op(rng, dim), rand_gauss_op(rng, dim)]
    if dim == 3:
        blk = rand_gauss_op(rng, 3)
        for a in range(3):      # block-diagonal: generic on (r,g), only a diagonal entry on x (not affected by F-12)
            for b in range(3):
                if (a == 2) != (b == 2):
                    blk[a][b] = (0, 0)
        pool += [blk, blk, unit_op(3, 2, 0), unit_op(3, 1, 2)]
    k = rng.randint(1, 3)
    eff = [(rng.randint(1, 5), rng.choice(pool)) for _ in range(k)]
    set_exact(c, relax=rng.choice([0, 1, 2]) if ising else 0, deph=rng.choice([0, 0, 1, 3]),
              depol=rng.choice([0, 0, 2]), eff=eff)
    if fixed:
        c.update(fixed)
    c["tag"] = "adapter"
    c["kind"] = "adapter"
    return c


def lindblad_data_matrices(ld, eig, dim):
    """pulser's LindbladData -> list of dim x dim numpy matrices in PULSER order"""
    import numpy as np

    def sigma(name):
        a, b = name[len("sigma_"):]
        m = np.zeros((dim, dim), dtype=complex)
        m[eig.index(a), eig.index(b)] = 1.0
        return m

    out = []
    for coeff, op in ld.local_collapse_ops:
        if isinstance(op, str) and op in ld.depolarizing_pauli_2ds:
            out.append(("depolarizing", float(coeff) * sum(complex(c) * sigma(n) for c, n in ld.depolarizing_pauli_2ds[op])))
        elif isinstance(op, str):
            out.append(("named", float(coeff) * sigma(op)))
        else:
            out.append(("eff_noise", float(coeff) * np.array(op, dtype=complex)))
    return out


def check_adapter_case(ctx, case):
    import numpy as np
    from pulser.backend import EmulationConfig, BitStrings
    from emu_base.pulser_adapter import PulserData

    dim, ising = case["dim"], case["ising"]
    nm = make_noise_model(case)
    cfg = EmulationConfig(observables=[BitStrings(evaluation_times=[1.0])], noise_model=nm, interaction_cutoff=0.0)
    pd = PulserData(sequence=adapter_sequence(not ising), config=cfg, dt=10)
    sds = list(pd.get_sequences())
    eig = list(pd.hamiltonian.basis_data.eigenbasis)
    emu_order = EMU_ORDER[ising][:dim]
    if sorted(eig) != sorted(emu_order) or pd.dim != dim:
        ctx.violation(f"adapter: eigenbasis {eig} / dim {pd.dim} for a dim-{dim} {'ising' if ising else 'XY'} model",
                      {"case": case, "finding_key": "adapter-basis", "kind": "adapter"})
        return
    perm = [eig.index(l) for l in emu_order]
    ref = lindblad_data_matrices(pd.hamiltonian.lindblad_data, eig, dim)
    P = [m[np.ix_(perm, perm)] for _, m in ref]

    def flip(m):
        f = m.copy()
        f[:2, :2] = m[:2, :2][::-1, ::-1]
        return f

    P_f12 = [flip(m) if kind == "eff_noise" else m[np.ix_(perm, perm)] for kind, m in ref]

    def total(ops, rho):
        return sum((dissip2(np.array(o, dtype=complex), rho) for o in ops), start=np.zeros((dim, dim), dtype=complex))

    for label, ops in (("PulserData.lindblad_ops", pd.lindblad_ops), ("SequenceData.lindblad_ops", sds[0].lindblad_ops)):
        E = [np.array(o.tolist(), dtype=complex) for o in ops]
        ok = okf = True
        where = None
        for a in range(dim):
            for b in range(dim):
                rho = np.zeros((dim, dim), dtype=complex)
                rho[a, b] = 1.0
                d = total(E, rho)
                if not np.array_equal(d, total(P, rho)):
                    ok, where = False, where or (emu_order[a], emu_order[b])
                if not np.array_equal(d, total(P_f12, rho)):
                    okf = False
        if ok:
            continue
        is_f12 = dim == 3 and ising and okf
        ctx.violation(
            f"{label} of a real {'Rydberg' if ising else 'XY'} sequence is not the process pulser's LindbladData defines: "
            f"total dissipator differs on rho=|{where[0]}><{where[1]}| (emulator order {emu_order}, pulser order {eig}); "
            f"emulator ops {[e.tolist() for e in E]}",
            {"case": case, "finding_key": "eff-noise-3x3" if is_f12 else "eff-noise-basis-not-rebased-through-adapter",
             "kind": "adapter"})
        return


def check_sv_decay(ctx):
    """emu-sv dynamics: decay r->g given as relaxation_rate and as eff_noise |g><r| (pulser order (r,g): entry [1][0])
    must both give P(r) = exp(-rate * t)"""
    import numpy as np
    import pulser
    from emu_sv import DensityMatrix, Occupation, StateVector, SVBackend, SVConfig

    reg = pulser.Register.rectangle(1, 1, spacing=1e4, prefix="q")
    seq = pulser.Sequence(reg, pulser.MockDevice)
    seq.declare_channel("ch0", "rydberg_global")
    seq.add(pulser.Pulse.ConstantPulse(1000, 0.0, 0.0, 0.0), "ch0")
    out = {}
    for name, nm in (("relaxation", pulser.NoiseModel(relaxation_rate=1.0)),
                     ("eff_noise", pulser.NoiseModel(eff_noise_rates=[1.0],
                                                     eff_noise_opers=[np.array([[0, 0], [1, 0]], dtype=complex)]))):
        initial = DensityMatrix.from_state_vector(
            StateVector.from_state_amplitudes(eigenstates=("r", "g"), amplitudes={"r": 1.0}))
        cfg = SVConfig(initial_state=initial, dt=100, observables=[Occupation(evaluation_times=[1.0])], noise_model=nm,
                       gpu=False, log_level=1000)
        out[name] = float(SVBackend(seq, config=cfg).run().occupation[-1][0])
    ctx.count_case({"sv_decay": out}, True)
    want = math.exp(-1.0)
    if abs(out["relaxation"] - out["eff_noise"]) > 1e-6 or abs(out["eff_noise"] - want) > 1e-3:
        ctx.violation(f"emu-sv: P(r) after 1 us of decay at rate 1/us: relaxation channel {out['relaxation']:.6f}, "
                      f"eff_noise |g><r| {out['eff_noise']:.6f}, exact exp(-1) = {want:.6f}",
                      {"case": {"sv_decay": out}, "finding_key": "eff-noise-decay-dynamics-sv", "kind": "sv_decay"})


def corpus_cases():
    p = common.VERIF / "corpus" / "C24.json"
    return json.loads(p.read_text()) if p.exists() else []


# ---------------------------------------------------------------------------------------------------
# the property oracle on the REAL code (falsifier): emulator operators vs pulser's definition
def dissip2(L, rho):
    import numpy as np
    L = np.array(L, dtype=complex)
    Ld = L.conj().T
    return 2 * L @ rho @ Ld - Ld @ L @ rho - rho @ Ld @ L


def property_check(ctx, case, impl, ref):
    """`ref` = pulser's operators in pulser order. Every comparison is exact (integer-valued entries)."""
    import numpy as np
    if not (case["real"] and case["exact"]) or ref is None:
        return
    dim, ising = case["dim"], case["ising"]
    po, eo = PULSER_ORDER[ising][:dim], EMU_ORDER[ising][:dim]
    perm = [po.index(l) for l in eo]       # emulator index -> pulser index of the same level

    def to_emu(P):
        P = np.array(P, dtype=complex)
        return P[np.ix_(perm, perm)]

    for kind in ("relaxation", "dephasing", "depolarizing", "eff_noise"):
        got = impl["single"].get(kind)
        if kind not in impl["types"]:
            continue
        if got[0] != "Ok":
            if kind == "dephasing" and case["hyperfine_dephasing_rate"] != 0.0:
                continue      # documented NotImplementedError
            ctx.violation(f"{kind}: real code raised (code {got[1]}) on a valid noise model",
                          {"case": case, "finding_key": f"{kind}-raises"})
            continue
        E = [np.array(m, dtype=complex) for m in got[1]]
        P = [to_emu(m) for m in ref[kind]]
        if kind == "eff_noise":
            # compared as MULTISETS of non-null jump operators (a null operator has no dissipator, dropping or
            # keeping it is the same process; the order of the channels is irrelevant): every (rate, operator)
            # pairing must survive, so each sqrt(rate_k) * A_k must appear re-based exactly once
            def canon(ms):
                return sorted([[(v.real, v.imag) for v in m.flatten()] for m in ms if m.any()])

            def flip_block(m):
                f = np.array(m, dtype=complex)
                f[:2, :2] = f[:2, :2][::-1, ::-1].copy()
                return f

            if canon(E) == canon(P):
                continue
            # known finding F-12 ONLY when the operators are exactly the flips of the upper-left 2x2 block of
            # pulser's 3x3 ising operators (RebaseFlipBlock); any other discrepancy gets its own key
            is_f12 = dim == 3 and ising and canon(E) == canon([flip_block(m) for m in ref[kind]])
            ctx.violation(
                f"eff_noise: the non-null emulator operators are not pulser's sqrt(rate_k) * A_k in emulator order "
                f"{eo} (pulser order {po}); rates {case['eff_rates']}: {len([m for m in E if m.any()])} non-null "
                f"emulator operators, {len([m for m in P if m.any()])} non-null pulser operators",
                {"case": case, "emulator": str([m.tolist() for m in E]),
                 "pulser_in_emu_order": str([m.tolist() for m in P]),
                 "finding_key": "eff-noise-3x3" if is_f12 else "eff_noise-levels"})
            continue
        if len(E) != len(P):
            ctx.violation(f"{kind}: {len(E)} emulator operators for {len(P)} pulser operators",
                          {"case": case, "finding_key": f"{kind}-count"})
            continue
        for k, (e, p) in enumerate(zip(E, P)):
            if kind == "relaxation":
                if not np.array_equal(e, p):
                    bad = [(eo[a], eo[b]) for a in range(dim) for b in range(dim) if e[a, b] != p[a, b]]
                    ctx.violation(
                        f"{kind} operator {k}: entries <a|L|b> differ from pulser's definition for level pairs "
                        f"{bad} (emulator order {eo}, pulser order {po})",
                        {"case": case, "op_index": k, "emulator": str(e.tolist()), "pulser_in_emu_order": str(p.tolist()),
                         "finding_key": f"{kind}-levels"})
            else:
                # same physical process = same dissipator on every elementary rho (exact, linear in rho)
                for a in range(dim):
                    for b in range(dim):
                        rho = np.zeros((dim, dim), dtype=complex)
                        rho[a, b] = 1.0
                        if not np.array_equal(dissip2(e, rho), dissip2(p, rho)):
                            key = "dephasing-qutrit" if (kind == "dephasing" and dim == 3) else f"{kind}-process"
                            ctx.violation(
                                f"{kind} operator {k}: Lindblad dissipator differs from pulser's on rho=|{eo[a]}><{eo[b]}| "
                                f"(emulator order {eo})",
                                {"case": case, "op_index": k, "rho": [eo[a], eo[b]], "emulator": str(e.tolist()),
                                 "pulser_in_emu_order": str(p.tolist()), "finding_key": key})
                            break
                    else:
                        continue
                    break


# ---------------------------------------------------------------------------------------------------
def evaluate(ctx, cases):
    """returns (impl results, refs, detected rebase variant, correspondence ok, detail)"""
    from vlib.coqparse import parse

    impl, refs = [], []
    for c in cases:
        r = impl_run(c)
        impl.append(r)
        refs.append(pulser_reference(c) if c["real"] else None)
    ev = common.CoqEval(PROP, HEADER)
    for c, r in zip(cases, impl):
        ev.add(model_expr(c, r["types"]))
    outs = ev.run()
    ok, detail = True, ""
    variant_votes = {"RebaseFlipBlock": 0, "RebasePermute": 0, "both": 0, "neither": 0}
    hist = {}

    def fail(msg, c):
        nonlocal ok, detail
        if ok:
            ok, detail = False, f"{msg}; case={json.dumps(c)[:900]}"
            ctx.extra["first_disagreement"] = {"what": msg, "case": c}

    decoded = []
    for c, r, ref, o in zip(cases, impl, refs, outs):
        af, ap, nf, np_, sf, sp, pul = parse(o)
        m_all = {"RebaseFlipBlock": dec_res(af, 3), "RebasePermute": dec_res(ap, 3)}
        m_noise = {"RebaseFlipBlock": dec_res(nf, 2), "RebasePermute": dec_res(np_, 2)}
        m_single = {"RebaseFlipBlock": [dec_res(x, 3) for x in sf], "RebasePermute": [dec_res(x, 3) for x in sp]}
        coeffs = coefficient_walk(c, r["types"])

        def expected(mres, c=c, coeffs=coeffs):
            """what the real code must return given the model result"""
            if mres[0] == "Err" or c["exact"]:
                return mres
            return ("Ok", [scale_pattern(k, m) for k, m in zip(coeffs, mres[1])]) \
                if len(coeffs) == len(mres[1]) else ("Err", "coefficient-walk-length")

        match = {v: (expected(m_all[v])[0] == r["all"][0] and
                     (same(expected(m_all[v])[1], r["all"][1]) if r["all"][0] == "Ok"
                      else expected(m_all[v])[1] == r["all"][1])) for v in m_all}
        if match["RebaseFlipBlock"] and match["RebasePermute"]:
            variant_votes["both"] += 1
        elif match["RebaseFlipBlock"]:
            variant_votes["RebaseFlipBlock"] += 1
        elif match["RebasePermute"]:
            variant_votes["RebasePermute"] += 1
        else:
            variant_votes["neither"] += 1
            fail(f"_get_all_lindblad_noise_operators: real={str(r['all'])[:300]} "
                 f"model(flip)={str(expected(m_all['RebaseFlipBlock']))[:300]}", c)
        decoded.append((m_noise, m_single, pul))
    # the source performs ONE of the two basis changes: decided by the cases that distinguish them
    v = "RebasePermute" if variant_votes["RebasePermute"] else "RebaseFlipBlock"
    for c, r, ref, (m_noise, m_single, pul) in zip(cases, impl, refs, decoded):
        # single-kind probes
        for t, ms in zip(c["probes"], m_single[v]):
            got = r["single"][t]
            if c["exact"] or ms[0] == "Err":
                good = ms[0] == got[0] and (same(ms[1], got[1]) if ms[0] == "Ok" else ms[1] == got[1])
            else:
                good = got[0] == "Ok" and len(got[1]) == len(ms[1])
            if not good:
                fail(f"get_lindblad_operators({t}): real={str(got)[:300]} model={str(ms)[:300]}", c)
        # compute_noise_from_lindbladians (exact cases only: integer arithmetic)
        if c["exact"]:
            mn = m_noise[v]
            if not (mn[0] == r["noise2"][0] and (same(mn[1], r["noise2"][1]) if mn[0] == "Ok" else mn[1] == r["noise2"][1])):
                fail(f"compute_noise_from_lindbladians: 2*real={str(r['noise2'])[:300]} model={str(mn)[:300]}", c)
        # reference model vs pulser's own operators
        if ref is not None and c["exact"]:
            for kind, mp in zip(["relaxation", "dephasing", "depolarizing", "eff_noise"], pul):
                if kind not in r["types"]:
                    continue
                if kind == "dephasing" and c["hyperfine_dephasing_rate"] != 0.0:
                    continue
                if not same(dec_mats(mp, 3), ref[kind]):
                    fail(f"pulser_ops({kind}) != HamiltonianData._build_local_collapse_operators: "
                         f"model={str(dec_mats(mp, 3))[:300]} pulser={str(ref[kind])[:300]}", c)
        nontrivial = r["all"][0] == "Ok" and len(r["all"][1]) > 0
        ctx.count_case({k: c[k] for k in ("tag", "dim", "ising", "real", "exact", "relaxation_rate", "dephasing_rate",
                                          "depolarizing_rate", "eff_rates", "eff_ops")} | {"types": r["types"]},
                       nontrivial)
        hk = f"{c['tag'].split(':')[0]}/dim{c['dim']}/{'ising' if c['ising'] else 'XY'}/{r['all'][0]}" + \
             (str(r["all"][1]) if r["all"][0] == "Err" else "")
        hist[hk] = hist.get(hk, 0) + 1
    ctx.extra["input_distribution"] = dict(sorted(hist.items()))
    ctx.extra["rebase_variant_votes"] = variant_votes
    return impl, refs, variant_votes, ok, detail


def static_ties(ctx):
    """the name sets of the model are the ones of the source / of pulser"""
    from typing import get_args
    from emu_base import pulser_adapter
    from pulser.noise_model import NoiseTypes

    real = set(pulser_adapter._NON_LINDBLADIAN_NOISE)
    ctx.obligation("tie:_NON_LINDBLADIAN_NOISE == Model.non_lindbladian", real == set(NON_LINDBLADIAN_MODEL),
                   f"source={sorted(real)} model={sorted(NON_LINDBLADIAN_MODEL)}", kind="correspondence")
    ev = common.CoqEval(PROP + "_names", HEADER)
    ev.add("non_lindbladian")
    from vlib.coqparse import parse
    names = parse(ev.run()[0])
    ctx.obligation("tie:driver name list == Coq non_lindbladian", list(names) == NON_LINDBLADIAN_MODEL,
                   str(names), kind="correspondence")
    all_types = set(get_args(NoiseTypes))
    part = set(NON_LINDBLADIAN_MODEL) | set(LINDBLADIAN)
    ctx.obligation("tie:pulser NoiseTypes == 7 skipped + 5 Lindbladian kinds", all_types == part,
                   f"pulser={sorted(all_types)} model={sorted(part)}", kind="correspondence")


def run(ctx):
    rc, out = common.coq_make(["Model/NoiseOps.vo"])
    ctx.obligation("build:Model/NoiseOps.vo", rc == 0, out, kind="build")
    common.standard_proof_stage(ctx, PROP, ["Properties/C24.vo"])

    rng = ctx.rng
    cases = list(corpus_cases()) + elementary_cases() + kind_cases()
    cases += [random_real_case(rng, True) for _ in range(ctx.n(120, 1500))]
    cases += [random_real_case(rng, False) for _ in range(ctx.n(60, 800))]
    cases += multi_eff_cases(rng, ctx.n(60, 800))
    cases += [malformed_case(rng) for _ in range(ctx.n(80, 1000))]
    try:
        static_ties(ctx)
        impl, refs, votes, ok, detail = evaluate(ctx, cases)
    except (common.CoqEvalError, ValueError, AssertionError) as ex:
        import traceback
        ctx.obligation("correspondence:Model.NoiseOps==emu_base (exact)", False, traceback.format_exc(),
                       kind="correspondence")
        return
    if votes["RebaseFlipBlock"] and votes["RebasePermute"]:
        ok, detail = False, f"source matches neither basis-change variant consistently: {votes}"
    variant = "RebasePermute" if votes["RebasePermute"] else "RebaseFlipBlock"
    ctx.obligation(f"correspondence:Model.NoiseOps[{variant}]==get_lindblad_operators/_get_all_lindblad_noise_operators/"
                   "compute_noise_from_lindbladians and pulser_ops==pulser (exact)", ok, detail, kind="correspondence")
    ctx.notes.append(f"basis-change variant of the current source: {variant} "
                     "(C24_eff_noise_basis_change covers 3x3 ising operators only for RebasePermute)")
    for c, r, ref in zip(cases, impl, refs):
        property_check(ctx, c, r, ref)
    # precision stream (generic float64 / complex128 data, dtype oracle)
    p_ok, p_detail = True, ""
    for _ in range(ctx.n(60, 600)):
        pc = gen_precision_case(rng)
        try:
            check_precision_case(ctx, pc)
            ctx.count_case({"precision": {k: pc[k] for k in ("dim", "ising", "eff_rates", "relaxation_rate",
                                                              "dephasing_rate", "depolarizing_rate")}}, True)
        except Exception:  # noqa: BLE001
            import traceback
            p_ok, p_detail = False, f"case={pc}\n{traceback.format_exc()}"
    ctx.obligation("precision-stream ran on generic complex128 operators and rates", p_ok, p_detail, kind="correspondence")
    # end to end through the real adapter (PulserData / SequenceData), Rydberg and XY, dims 2 and 3
    a_ok, a_detail = True, ""
    fixed = [  # |g><r|, |r><r|, generic 2x2 through a Rydberg sequence; 3x3 with leakage; XY
        {"dim": 2, "ising": True, "with_leakage": False}, {"dim": 2, "ising": False, "with_leakage": False},
        {"dim": 3, "ising": True, "with_leakage": True}, {"dim": 3, "ising": False, "with_leakage": True}]
    acases = []
    for f in fixed:
        c0 = gen_adapter_case(rng)
        c0 = set_exact(base_case(f["dim"], f["ising"]), relax=1 if f["ising"] else 0, deph=1,
                       eff=[(2, unit_op(f["dim"], 1, 0)), (3, unit_op(f["dim"], 0, 0)), (1, rand_gauss_op(rng, 2) if f["dim"] == 2
                            else [[(1, 2), (0, -1), (0, 0)], [(3, 0), (-2, 1), (0, 0)], [(0, 0), (0, 0), (1, 1)]])])
        c0["tag"], c0["kind"] = "adapter", "adapter"
        acases.append(c0)
    acases += [gen_adapter_case(rng) for _ in range(ctx.n(30, 300))]
    for ac in acases:
        try:
            check_adapter_case(ctx, ac)
            ctx.count_case({"adapter": {k: ac[k] for k in ("dim", "ising", "eff_rates", "eff_ops", "relaxation_rate",
                                                           "dephasing_rate", "depolarizing_rate")}}, True)
        except Exception:  # noqa: BLE001
            import traceback
            a_ok, a_detail = False, f"case={ac}\n{traceback.format_exc()}"
    try:
        check_sv_decay(ctx)
    except Exception:  # noqa: BLE001
        import traceback
        a_ok, a_detail = False, traceback.format_exc()
    ctx.obligation("end-to-end:PulserData/SequenceData.lindblad_ops of real Rydberg and XY sequences compared with pulser's "
                   "LindbladData; emu-sv decay cross-check", a_ok, a_detail, kind="correspondence")
    ctx.rule = ("corpus + every elementary E_ij (2x2, 3x3, ising, XY) + every Lindbladian kind alone/combined + multi-operator "
                "eff_noise models (2-5 pairwise distinct operators; an exact zero rate at every position, equal, distinct, all-zero "
                "rate vectors) + random real "
                "pulser.NoiseModel objects (exact-sqrt integer coefficients and random float rates, with shot-to-shot "
                "kinds mixed in) + duck-typed malformed models (kind order, duplicates, unknown kinds, wrong shapes, "
                "rate/operator count mismatch, hyperfine); non-trivial = real code returned >= 1 operator")
    ctx.trusted_base += ["hand model Model/NoiseOps.v (validated by the exact correspondence on every run)",
                         "driver's coefficient formulas sqrt(rate), sqrt(rate/2), sqrt(rate/4), sqrt(rate_k) "
                         "(compared bit-for-bit with the real operators on random float rates)",
                         "pulser 1.9.1 HamiltonianData._build_local_collapse_operators as the definition of the channels"]
    ctx.assumptions += ["dims 2 and 3 only (the emulators support qubits and qutrits)",
                        "'same physical process' = equal Lindblad dissipator L rho L^+ - 1/2{L^+L, rho} for every rho; "
                        "operators equal up to a global sign / a real multiple of the identity (Hermitian L) are identified",
                        "operator entries are exact only for Gaussian-integer operators and exact-sqrt rates; random float "
                        "rates are checked against sqrt(rate*k)*pattern bit-for-bit"]


def replay(ctx, path):
    rp = json.loads(open(path).read())
    c = rp["case"]
    if rp.get("kind") == "precision":
        print("replay precision case:", check_precision_case(ctx, c))
        return
    if rp.get("kind") == "adapter":
        check_adapter_case(ctx, c)
        return
    if rp.get("kind") == "sv_decay":
        check_sv_decay(ctx)
        return
    r = impl_run(c)
    ref = pulser_reference(c) if c["real"] else None
    print("replay: real ops:", str(r["all"])[:600])
    print("replay: pulser (pulser order):", str(ref)[:600])
    property_check(ctx, c, r, ref)


META = {
    "category": "proof",
    "technique": "Coq proof over an arbitrary commutative *-ring (hand model of jump_lindblad_operators.py) + exact "
                 "Gaussian-integer correspondence with the real code and with pulser's own collapse operators",
    "text": ("Proved for every coefficient, every operator list and (where stated) every density matrix: the channel table "
             "(relaxation c|g><r|; dephasing c(|g><g|-|r><r|) with hyperfine guard; depolarizing c{sx,sy,sz}), their "
             "equality with pulser's definition up to unobservable sign/identity shift (dissipator equality, dims 2/3), "
             "the effective-noise basis change L = P(sqrt(rate)A)P^T with every entry keeping its "
             "meaning (all 2x2; all 3x3 only for the row-and-column permutation variant; XY unchanged), the filter (exactly "
             "seven kinds skipped, order kept, leakage -> [], unknown -> error). Refuted on the faithful model: 3x3 "
             "effective operators under the current 2x2 block flip (F-12, open known finding). Dephasing is proved to be "
             "pulser's process for dims 2 and 3 (qutrit case fixed in /repo 6810dc4, regression theorem + corpus). "
             "Validated only: the model itself (exact correspondence), sqrt coefficients (bit-exact on floats)."),
    "note": ("Trusted: Coq kernel+VM, the hand model (checked by correspondence each run), pulser's "
             "_build_local_collapse_operators as the definition. Dims 2 and 3 only."),
}
