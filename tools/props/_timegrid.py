"""Shared harness of C21 and C14 (time grid and recording times): case generators, drivers of the
REAL adapter / backends, and builders of the Gallina expressions of Model/TimeGrid.v."""
from __future__ import annotations

import logging
import math
import warnings
from decimal import Decimal
from fractions import Fraction

from vlib import common

HEADER = """From Coq Require Import ZArith List PrimFloat.
Import ListNotations.
From EV Require Import Base.Arith Model.TimeGrid.
Open Scope float_scope."""

TOLB, TOL0, TOLU = 1e-10, 1e-6, 1e-12
fl = common.float_lit


# ---------------------------------------------------------------------------------------------
# Gallina expressions
def _flist(xs):
    return "[" + "; ".join(fl(float(x)) for x in xs) + "]"


def _obs_expr(obs):
    return "[" + "; ".join("None" if o is None else f"Some {_flist(o)}" for o in obs) + "]"


def _dflt_expr(dflt):
    return "None" if dflt == "Full" else f"(Some {_flist(dflt)})"


def model_tt_expr(case, expected=None):
    """res_list (get_target_times ...) ; with `expected` the comparison is done inside Coq and only
    (code, length, equal?, min relative gap) is printed."""
    core = (f"(get_target_times float_arith float_floor {fl(TOLU)} {fl(float(case['dur']))} {fl(float(case['dt']))} "
            f"{_obs_expr(case['obs'])} {_dflt_expr(case['dflt'])})")
    if expected is None:
        return f"res_list {core}"
    return (f"let r := res_list {core} in (fst r, Z.of_nat (length (snd r)), "
            f"flist_eqb (snd r) {_flist(expected)})")


def model_run_expr(case, tt):
    """summary (run mps tt nsteps obs dflt) on the REAL target times tt."""
    mps = "true" if case["backend"].startswith("mps") else "false"
    return (f"summary (run float_arith float_floor {fl(TOLB)} {fl(TOL0)} {fl(TOLU)} {mps} {_flist(tt)} "
            f"{case['nsteps']} {_obs_expr(case['obs'])} {_dflt_expr(case['dflt'])})")


def model_pipeline_expr(case, dur_eff):
    """summary (run_config ...): the model's own grid (adapter) composed with the model's run."""
    mps = "true" if case["backend"].startswith("mps") else "false"
    return (f"summary (run_config float_arith float_floor {fl(TOLB)} {fl(TOL0)} {fl(TOLU)} {mps} "
            f"{fl(float(dur_eff))} {fl(float(case['dt']))} {_obs_expr(case['obs'])} {_dflt_expr(case['dflt'])})")


# ---------------------------------------------------------------------------------------------
# real objects
class StubSeq:
    """Minimal stand-in for pulser.Sequence as far as _get_target_times is concerned."""

    def __init__(self, dur, dur_mod=None):
        self.dur, self.dur_mod = dur, dur if dur_mod is None else dur_mod
        self.calls = []

    def get_duration(self, include_fall_time=False):
        self.calls.append(include_fall_time)
        return self.dur_mod if include_fall_time else self.dur


PROBE = {"steps": 0}
_probe_cls = {}


def probe_class():
    """An Observable whose value is the number of solver steps completed so far."""
    if "c" not in _probe_cls:
        from pulser.backend.observable import Observable
        from emu_base.utils import observable_aggregation_kwargs

        class Probe(Observable):
            def __init__(self, evaluation_times=None, tag_suffix=None):
                super().__init__(evaluation_times=evaluation_times, tag_suffix=tag_suffix,
                                 **observable_aggregation_kwargs("SKIP"))

            @property
            def _base_tag(self):
                return "probe"

            def apply(self, *, config, state, hamiltonian):
                return PROBE["steps"]

        _probe_cls["c"] = Probe
    return _probe_cls["c"]


def make_config(case, kind=None):
    """Real config object for the case; raises what the real constructors raise."""
    kind = kind or case.get("backend", "base")
    P = probe_class()
    obs = [P(evaluation_times=o, tag_suffix=str(j)) for j, o in enumerate(case["obs"])]
    kw = dict(observables=obs, with_modulation=bool(case.get("with_modulation", False)))
    kw["default_evaluation_times"] = case["dflt"] if case["dflt"] == "Full" else list(case["dflt"])
    with warnings.catch_warnings():
        warnings.simplefilter("ignore")
        if kind.startswith("mps"):
            from emu_mps import MPSConfig
            extra = {}
            if kind == "mps-dmrg":
                from emu_mps.solver import Solver
                extra["solver"] = Solver.DMRG
            return MPSConfig(dt=case["dt"], num_gpus_to_use=0, optimize_qubit_ordering=False,
                             log_level=logging.ERROR, **extra, **kw)
        if kind == "sv":
            from emu_sv import SVConfig
            return SVConfig(dt=case["dt"], gpu=False, log_level=logging.ERROR, **kw)
        from pulser.backend.config import EmulationConfig
        return EmulationConfig(**kw)


def exc_code(ex):
    s = str(ex)
    if isinstance(ex, ZeroDivisionError):
        return 2
    if isinstance(ex, OverflowError) or "cannot convert float" in s:
        return 3
    if isinstance(ex, RuntimeError) and "already stored" in s:
        return 10
    if isinstance(ex, AssertionError) and "not sorted" in s:
        return 11
    if isinstance(ex, ValueError) and "must be unique" in s:
        return 20
    if isinstance(ex, ValueError) and "ascending order" in s:
        return 21
    if isinstance(ex, ValueError) and "between 0. and 1." in s:
        return 22
    if isinstance(ex, ValueError) and "is not supported" in s:
        return 1
    if isinstance(ex, IndexError):
        return 30
    return None


def real_target_times(case, cfg=None):
    """(code, list) from the REAL _get_target_times; unknown exceptions propagate."""
    from emu_base.pulser_adapter import _get_target_times

    cfg = cfg or make_config(case)
    seq = StubSeq(case["dur"], case.get("dur_mod"))
    try:
        tt = _get_target_times(seq, cfg, case["dt"])
    except Exception as ex:  # noqa: BLE001
        code = exc_code(ex)
        if code is None:
            raise
        return code, []
    assert seq.calls == [bool(case.get("with_modulation", False))]
    return 0, [float(t) for t in tt]


# ---------------------------------------------------------------------------------------------
# real sequences and backend runs
_seq_cache = {}


def real_sequence(dur: int, natoms: int = 2, modulated: bool = False):
    key = (dur, natoms, modulated)
    if key not in _seq_cache:
        import pulser
        from pulser.devices import AnalogDevice, MockDevice

        reg = pulser.Register.from_coordinates([(7.0 * i, 0.0) for i in range(natoms)], prefix="q")
        seq = pulser.Sequence(reg, AnalogDevice if modulated else MockDevice)
        seq.declare_channel("ch", "rydberg_global")
        seq.add(pulser.Pulse.ConstantPulse(dur, 1.0, -0.5, 0.0), "ch")
        if len(_seq_cache) > 64:
            _seq_cache.clear()
        _seq_cache[key] = seq
    return _seq_cache[key]


class _StubStepper:
    """Replaces emu_sv's EvolveStateVector: no numerics, records (dt argument, matrix time)."""

    calls: list = []

    @staticmethod
    def apply(dt, omegas, deltas, phis, interaction_matrix, state, tol, lindblads):
        _StubStepper.calls.append(float(dt))
        PROBE["steps"] += 1
        return state, object()

    @staticmethod
    def get_hamiltonian(**kw):
        return object()


def run_backend(case):
    """Drive the REAL backend on a real pulser sequence.  emu-sv: numerical stepper stubbed
    (module name rebound); emu-mps: real 2-atom TDVP/DMRG with evolve_pair wrapped to record dt.
    Returns dict(code, tt, nsteps, recs=[[(t,k)..]..], stat=[t..], steps=[dt..], n_results)."""
    from emu_base import PulserData

    backend = case["backend"]
    seq = real_sequence(case["dur"], 2, bool(case.get("with_modulation")))
    out = {"code": 0, "tt": [], "nsteps": 0, "recs": [], "stat": [], "steps": [], "exc": None}
    try:
        cfg = make_config(case, backend)
    except Exception as ex:  # noqa: BLE001
        code = exc_code(ex)
        if code is None:
            raise
        out.update(code=100 + code, exc=repr(ex)[:200])  # invalid config: rejected by pulser itself
        return out
    with warnings.catch_warnings():
        warnings.simplefilter("ignore")
        try:
            pd = PulserData(sequence=seq, config=cfg, dt=cfg.dt)
            datas = list(pd.get_sequences())
        except Exception as ex:  # noqa: BLE001
            code = exc_code(ex)
            out.update(code=99 if code is None else code, exc=repr(ex)[:200])
            return out
        assert len(datas) == 1
        data = datas[0]
        out["tt"] = [float(t) for t in data.target_times]
        out["nsteps"] = int(data.omega.shape[0])
        PROBE["steps"] = 0
        steps = []
        try:
            if backend == "sv":
                import emu_sv.sv_backend_impl as M
                from emu_sv import SVBackend

                saved = M.EvolveStateVector
                M.EvolveStateVector = _StubStepper
                _StubStepper.calls = steps
                try:
                    res = SVBackend._run_from_sequence_data(data, cfg)
                finally:
                    M.EvolveStateVector = saved
            else:
                import emu_mps.mps_backend_impl as M
                from emu_mps import MPSBackend

                saved = M.evolve_pair

                def wrapped(*a, dt, **kw):
                    steps.append(float(dt))
                    PROBE["steps"] += 1
                    return saved(*a, dt=dt, **kw)

                M.evolve_pair = wrapped
                try:
                    res = MPSBackend._run_from_sequence_data(data, cfg)
                finally:
                    M.evolve_pair = saved
        except Exception as ex:  # noqa: BLE001
            code = exc_code(ex)
            out.update(code=99 if code is None else code, exc=repr(ex)[:200])
            return out
    tags = res.get_result_tags()
    for j, o in enumerate(cfg.observables):
        if o.tag in tags:
            ts = res.get_result_times(o.tag)
            out["recs"].append([(float(t), int(k)) for t, k in zip(ts, res.get_tagged_results()[o.tag])])
        else:
            out["recs"].append([])
    out["stat"] = [float(t) for t in res.get_result_times("statistics")] if "statistics" in tags else []
    out["steps"] = steps
    return out


# ---------------------------------------------------------------------------------------------
# generators
DTS = [0.1, 0.25, 0.3, 0.5, 1, 2, 3, 7, 10, 33.3, 12.5, 100]


def _dec_time(rng, dur, dt):
    """A time a user would type: the decimal fraction k*dt/dur rounded to a float (this is what
    collides with the float grid point (k*dt/dur)*dur up to an ulp)."""
    n = int(dur / dt)
    k = rng.randint(0, max(n, 0))
    return float(Fraction(k) * Fraction(Decimal(str(dt))) / Fraction(Decimal(str(dur))))


def gen_times(rng, dur, dt, maxn=4):
    n = rng.randint(1, maxn)
    ts = set()
    for _ in range(n):
        m = rng.random()
        if m < 0.35:
            t = _dec_time(rng, dur, dt)
        elif m < 0.5:
            q = rng.choice([2, 3, 4, 5, 7, 8, 10, 16, 100, 1000])
            t = rng.randint(0, q) / q
        elif m < 0.6:
            t = rng.choice([0.0, 1.0])
        elif m < 0.7:
            t = round(rng.random(), rng.randint(1, 4))
        else:
            t = rng.random()
        if 0.0 <= t <= 1.0:
            ts.add(t)
    ts = sorted(ts)
    out = []
    for t in ts:  # pulser rejects times closer than 1e-12 in one list
        if not out or t - out[-1] >= 1e-11:
            out.append(t)
    return out


def gen_case(rng, max_points=400, max_dur=10000, backend=None, near=0.0, min_dur=1):
    """Well-formed configuration; the grid has at most max_points points."""
    while True:
        dur = rng.choice([1, 2, 4, 7, 10, 16, 50, 100, 250, 1000, 1234, 5000, 10000,
                          rng.randint(1, max_dur)])
        if dur > max_dur or dur < min_dur:
            continue
        dt = rng.choice(DTS + [dur * 1.5, float(dur), rng.choice([1, 10]) * round(rng.uniform(0.1, 20), 2)])
        if dur / dt <= max_points:
            break
    nobs = rng.choice([0, 1, 1, 2, 2, 3])
    obs = []
    for _ in range(nobs):
        obs.append(None if rng.random() < 0.35 else gen_times(rng, dur, dt))
    m = rng.random()
    if m < 0.3:
        dflt = [1.0]
    elif m < 0.4 and all(o is not None for o in obs):
        dflt = "Full"
    else:
        dflt = gen_times(rng, dur, dt)
    if near and obs and rng.random() < near:
        # plant a default time close to an own time (what F-07 is about)
        own = [o for o in obs if o]
        if own and dflt != "Full":
            t = rng.choice(rng.choice(own))
            d = t + rng.choice([-1, 1]) * rng.choice([0.2, 0.45, 0.6, 3.0]) / max(dur, 1)
            if 0 <= d <= 1:
                dflt = sorted(set(dflt) | {d})
                dflt = [x for i, x in enumerate(dflt) if i == 0 or x - dflt[i - 1] >= 1e-11]
    case = {"dur": dur, "dt": dt, "obs": obs, "dflt": dflt}
    if backend:
        case["backend"] = backend
    return case


def requested(case, j=None):
    """Requested relative times: of observable j, or the union over all observables."""
    def of(o):
        if o is not None:
            return list(o)
        return None if case["dflt"] == "Full" else list(case["dflt"])
    if j is not None:
        return of(case["obs"][j])
    out = []
    for o in case["obs"]:
        r = of(o)
        if r is None:
            return None
        out += r
    return out


def ulp_close(a, b, n=4):
    return abs(a - b) <= n * math.ulp(max(abs(a), abs(b), 5e-324))


# ---------------------------------------------------------------------------------------------
# clusters: evaluation times a tiny relative distance away from another candidate time
# ("duplicates within tolerance" of the property's quantifier)
MIN_SAME_LIST_GAP = 1.5e-12  # pulser rejects times closer than 1e-12 inside one list


def _clean_list(ts):
    """Sorted, inside [0,1], and acceptable to pulser as ONE list (gaps >= 1.5e-12)."""
    out = []
    for t in sorted(set(float(x) for x in ts if 0.0 <= x <= 1.0)):
        if not out or t - out[-1] >= MIN_SAME_LIST_GAP:
            out.append(t)
    return out


def gen_cluster_case(rng, max_points=300, max_dur=10000, backend=None, min_dur=1):
    """Evaluation-time sets containing clusters: a requested time at relative distance delta,
    log-uniform in [1e-15, 1e-7], from (a) a multiple of dt, (b) another time of the same
    observable, (c) a time of another observable / of the config default; anchors anywhere in
    [0,1] including 0 and 1 and the last multiple of dt."""
    while True:
        dur = rng.choice([2, 4, 10, 16, 50, 100, 250, 1000, 1234, 4000, 10000, rng.randint(min_dur, max_dur)])
        dt = rng.choice(DTS + [float(dur), dur * 1.5, round(rng.uniform(0.1, 20), 2)])
        if min_dur <= dur <= max_dur and dur / dt <= max_points:
            break
    n = int(math.floor(dur / dt))
    lists = {"a": [], "b": [], "d": []}   # observable A, observable B, config default (observable C)
    info = []
    for _ in range(rng.randint(1, 3)):
        how = rng.choice(["multiple", "multiple", "same", "other", "default"])
        where = rng.random()
        if where < 0.15:
            anchor = 1.0
        elif where < 0.25:
            anchor = 0.0
        elif where < 0.4:
            anchor = n * dt / dur          # last multiple of dt
        elif where < 0.7 or how == "multiple":
            anchor = rng.randint(0, n) * dt / dur
        elif where < 0.85:
            anchor = rng.randint(1, 999) / 1000
        else:
            anchor = rng.random()
        anchor = min(max(anchor, 0.0), 1.0)
        delta = 10 ** rng.uniform(-15, -7)
        sign = -1.0 if (anchor >= 1.0 or (anchor > 0.0 and rng.random() < 0.5)) else 1.0
        t = anchor + sign * delta
        if not (0.0 <= t <= 1.0) or t == anchor:
            continue
        info.append({"how": how, "anchor": anchor, "delta": abs(t - anchor)})
        if how == "multiple":
            lists[rng.choice("abd")].append(t)
        elif how == "same":
            k = rng.choice("abd")
            lists[k] += [anchor, t]
        elif how == "other":
            lists["a"].append(anchor)
            lists["b"].append(t)
        else:
            lists["d"].append(anchor)
            lists[rng.choice("ab")].append(t)
    if rng.random() < 0.5:
        lists[rng.choice("abd")] += gen_times(rng, dur, dt, maxn=2)
    a, b, d = (_clean_list(lists[k]) for k in "abd")
    obs = [o for o in (a, b) if o]
    dflt = d if d else [1.0]
    if d or rng.random() < 0.3:
        obs.append(None)
    if not obs:
        obs = [None]
    rng.shuffle(obs)
    case = {"dur": dur, "dt": dt, "obs": obs, "dflt": dflt, "clusters": info}
    if backend:
        case["backend"] = backend
    return case


GREY_LO, GREY_HI = 0.5e-12, 4e-9


def premise_mode(case, dur_eff=None):
    """'strong' when the input satisfies the premise of C14_recorded_exactly_at_requested_times
    (with margins): all distinct candidate times (multiples of dt, requested times, 1.0; relative)
    are closer than 0.5e-12 or farther than 4e-9.  'weak' otherwise: then only 'every requested
    time is recorded within 1e-12' and 'every recorded time is within 1e-10 of a requested one'
    are implied by the theorems (an observable may legitimately be recorded at two grid points
    that are 1e-12..1e-10 apart)."""
    dur = float(dur_eff if dur_eff is not None else case["dur"])
    dt = float(case["dt"])
    cand = [1.0] + [i * dt / dur for i in range(int(math.floor(dur / dt)) + 1)]
    for o in case["obs"]:
        r = o if o is not None else (None if case["dflt"] == "Full" else case["dflt"])
        if r:
            cand += [float(x) for x in r]
    cand.sort()
    for x, y in zip(cand, cand[1:]):
        if GREY_LO <= y - x <= GREY_HI:
            return "weak"
    return "strong"
