"""C21 — the simulation time grid covers the sequence and every evaluation time (DESIGN.md §4 C21)."""
import bisect
import json
import math

from vlib import common
from props import _timegrid as tg

KEY_F08 = "near-duplicate-grid-points"


def corpus_cases():
    p = common.VERIF / "corpus" / "C21.json"
    return json.loads(p.read_text()) if p.exists() else []


# ---- generators -----------------------------------------------------------------------------
def gen_malformed(rng):
    c = tg.gen_case(rng, max_points=200)
    how = rng.choice(["dt0", "dtneg", "dur0", "full-none", "dtnan", "no-obs"])
    if how == "dt0":
        c["dt"] = 0.0
    elif how == "dtneg":
        c["dt"] = -abs(c["dt"])
    elif how == "dur0":
        c["dur"] = 0
    elif how == "full-none":
        c["dflt"] = "Full"
        c["obs"] = list(c["obs"]) + [None]
    elif how == "dtnan":
        c["dt"] = float("nan")
    else:
        c["obs"] = []
    c["kind"] = "malformed:" + how
    return c


def gen_long_case(rng):
    """Long sequences (ulp(t) comparable to 1e-12 ns): evaluation times from np.linspace / k/N fractions that
    coincide with multiples of dt up to round-off."""
    import numpy as np
    dur = rng.choice([5000, 10000, 50000, 200000, 4096, 8192, 30000])
    dt = rng.choice([d for d in (10, 100, 1000, 25, 250) if dur / d <= 3000])
    n = rng.choice([10, 20, 50, 100, 101, 200, 64, 1000, 7, 30])
    m = rng.random()
    if m < 0.5:
        ts = [float(x) for x in np.linspace(0, 1, n + 1)]
    elif m < 0.8:
        ts = [k / n for k in range(n + 1)]
    else:
        ts = [float(x) for x in np.arange(0, n + 1) * (1.0 / n) if x <= 1.0]
    ts = sorted(set(ts))
    if rng.random() < 0.3:
        ts = ts[rng.randint(0, len(ts) // 2):]
    obs = [ts] if rng.random() < 0.6 else [None]
    dflt = [1.0] if obs[0] is not None else ts
    if rng.random() < 0.3:
        obs.append([k / 8 for k in range(9)])
    return {"kind": "long", "dur": dur, "dt": dt, "obs": obs, "dflt": dflt}


# ---- property oracle on the REAL output (falsifier) --------------------------------------------
def property_check(ctx, case, code, tt, backends=False):
    """What C21 demands of _get_target_times on a well-formed input."""
    if case.get("kind", "").startswith("malformed"):
        return
    dur, dt = float(case["dur_eff"] if "dur_eff" in case else case["dur"]), float(case["dt"])

    def bad(what, key):
        ctx.violation(what, {"case": case, "target_times_head": tt[:12], "n": len(tt), "finding_key": key})

    if code != 0:
        return bad(f"_get_target_times raised (code {code}) on a well-formed input", "grid-raises")
    if not tt or tt[0] != 0.0:
        return bad("grid does not start at 0", "grid-start")
    if tt[-1] != dur:
        return bad("grid does not end at the sequence duration", "grid-end")
    if any(not (a < b) for a, b in zip(tt, tt[1:])):
        return bad("grid is not strictly increasing", "grid-order")

    def near(x):  # present up to pulser's identity tolerance: near-duplicates are merged (F-08 fix)
        i = bisect.bisect_left(tt, x)
        return any(0 <= j < len(tt) and abs(tt[j] - x) <= tg.TOLU * dur * 1.01 + 4 * math.ulp(x)
                   for j in (i - 1, i, i + 1))

    n = math.floor(dur / dt)
    cand = [dur]
    for i in range(n + 1):
        x = i * dt
        cand.append(x)
        if not near(x):
            return bad(f"multiple {i}*dt = {x} of dt is missing from the grid", "grid-missing-multiple")
    req = tg.requested(case) or []
    for t in req:
        x = float(t) * dur
        cand.append(x)
        if not near(x):
            return bad(f"requested time {t} (abs {x}) is missing from the grid", "grid-missing-requested")
    cand.sort()
    for x in tt:
        i = bisect.bisect_left(cand, x)
        if not any(0 <= j < len(cand) and tg.ulp_close(cand[j], x) for j in (i - 1, i, i + 1)):
            return bad(f"grid point {x} is neither a multiple of dt nor a requested time", "grid-extra")
    try:  # what both backends do first: Statistics(evaluation_times=[t / T for t in target_times])
        from pulser.backend.observable import Observable
        Observable._validate_eval_times([t / tt[-1] for t in tt])
        stat_exc = None
    except ValueError as ex:
        stat_exc = str(ex)[:160]
    if stat_exc is not None:
        rel = [t / tt[-1] for t in tt]
        k = min(range(len(tt) - 1), key=lambda i: rel[i + 1] - rel[i])
        return ctx.violation(
            f"near-duplicate target times {tt[k]!r} and {tt[k + 1]!r} were not merged: pulser rejects the run's "
            f"evaluation times, both backends raise before simulating ({stat_exc})",
            {"case": case, "pair": [tt[k], tt[k + 1]], "n_points": len(tt), "finding_key": KEY_F08,
             "backends": near_duplicate_in_backends(case) if backends else None})
    gap = min((b - a) / dur for a, b in zip(tt, tt[1:]))
    if gap < tg.TOLU * 0.999:  # the adapter merges points with t/T - prev/T < 1e-12 (float)
        k = min(range(len(tt) - 1), key=lambda i: tt[i + 1] - tt[i])
        rp = {"case": case, "pair": [tt[k], tt[k + 1]], "relative_gap": gap, "n_points": len(tt),
              "finding_key": KEY_F08}
        if backends:
            rp["backends"] = near_duplicate_in_backends(case)
        ctx.violation(
            f"two target times {tt[k]!r} and {tt[k + 1]!r} are {tt[k + 1] - tt[k]:.3g} ns apart (relative "
            f"{gap:.2g} < pulser's 1e-12): a spurious near-zero solver step, and both backends raise "
            "ValueError('Evaluation times must be unique ...') before simulating", rp)


def near_duplicate_in_backends(case):
    """Run the real backends on the witness (real pulser sequence, 2 atoms)."""
    out = {}
    if not (isinstance(case["dur"], int) and case["dur"] >= 2 and case["dur"] / case["dt"] <= 3000):
        return out
    for b in ("sv", "mps"):
        r = tg.run_backend(dict(case, backend=b))
        out[b] = {"code": r["code"], "exc": r["exc"], "n_target_times": len(r["tt"])}
    return out


# ---- real sequences: duration with/without modulation, rows of samples, steps, trajectories ----
def real_sequence_checks(ctx, rng, n):
    """PulserData on real pulser sequences: last target time == sequence duration (with the fall
    time when with_modulation), one row of drive samples per interval, and the step loops of the
    two backends take exactly the steps (t_k -> t_k+1).  Returns cases for the Coq comparison."""
    from emu_base import PulserData
    out = []
    for i in range(n):
        backend = ["sv", "mps"][i % 2]
        mod = rng.random() < 0.4
        c = tg.gen_case(rng, max_points=120 if backend == "mps" else 300, max_dur=2000, backend=backend, min_dur=16)
        c["dur"] = max(16, (c["dur"] // 4) * 4)  # AnalogDevice: multiples of 4 ns
        c["with_modulation"] = mod
        seq = tg.real_sequence(c["dur"], 2, mod)
        dur_eff = seq.get_duration(include_fall_time=mod)
        c["dur_eff"] = dur_eff
        r = tg.run_backend(c)
        c["kind"] = "real-seq"
        if r["code"] == 0 or r["tt"]:
            tt = r["tt"]
            property_check(ctx, c, 0, tt)
            if r["nsteps"] != len(tt) - 1:
                ctx.violation("number of rows of drive samples != number of grid intervals",
                              {"case": c, "nsteps": r["nsteps"], "n": len(tt), "finding_key": "rows-vs-intervals"})
        if r["code"] not in (0, 20):  # 20 = F-08, reported by the adapter-level oracle
            ctx.violation(f"run on a real sequence raised (code {r['code']}): {r['exc']}",
                          {"case": c, "exc": r["exc"], "finding_key": f"run-raises-{r['code']}"})
        if r["code"] == 0:
            want = [b - a for a, b in zip(r["tt"], r["tt"][1:])]
            got = r["steps"] if backend == "mps" else None
            if backend == "sv":  # stepper receives dt * 0.001
                want_sv = [w * 0.001 for w in want]
                ok = r["steps"] == want_sv
            else:
                ok = got == want
            if not ok:
                ctx.violation("the backend did not take exactly one solver step per grid interval",
                              {"case": c, "steps_head": r["steps"][:8], "want_head": want[:8],
                               "finding_key": "step-per-interval"})
        out.append((c, r))
    return out


NOISE_KINDS = ["empty", "lindblad", "spam", "shot-to-shot", "mixed"]
KEY_REPS = "trajectory-repetitions-dropped"


def noise_model(kind, rng):
    from pulser.noise_model import NoiseModel
    if kind == "empty":
        return NoiseModel()
    if kind == "lindblad":
        return NoiseModel(dephasing_rate=rng.choice([0.05, 0.2]), relaxation_rate=rng.choice([0.0, 0.1]))
    if kind == "spam":
        return NoiseModel(state_prep_error=rng.choice([0.05, 0.3, 0.6]), p_false_pos=0.0, p_false_neg=0.0)
    if kind == "shot-to-shot":
        return NoiseModel(amp_sigma=0.05) if rng.random() < 0.5 else NoiseModel(detuning_sigma=0.3)
    return NoiseModel(state_prep_error=0.3, p_false_pos=0.0, p_false_neg=0.0, amp_sigma=0.05, dephasing_rate=0.1)


def trajectory_checks(ctx, rng, n_extra, end_to_end=5):
    """get_sequences yields every trajectory exactly `reps` times (consecutively) and as many
    SequenceData in total as pulser requests: len == sum(reps) == n_trajectories.
    Full matrix noise model {empty, Lindblad-only, SPAM-only, shot-to-shot, mixed} x n_trajectories
    {1, 2, 5, 12} x config of both backends, plus n_extra random draws; for a cheap subset the real
    backend.run() is executed end-to-end and the number of simulations is counted."""
    import logging
    import warnings
    from emu_base import PulserData
    from emu_mps import MPSBackend, MPSConfig
    from emu_sv import SVBackend, SVConfig
    from pulser.backend import BitStrings

    combos = [(k, nt, b) for k in NOISE_KINDS for nt in (1, 2, 5, 12) for b in ("sv", "mps")]
    for _ in range(n_extra):
        combos.append((rng.choice(NOISE_KINDS), rng.choice([1, 2, 3, 5, 8, 12, 30]), rng.choice(["sv", "mps"])))
    res = []
    for kind, ntraj, backend in combos:
        case = {"kind": "trajectories", "noise": kind, "n_trajectories": ntraj, "backend": backend,
                "natoms": 2 if len(res) < 40 else rng.choice([2, 3]), "dur": rng.choice([16, 40, 100]),
                "noise_seed": rng.randint(0, 10**6)}
        res.append(trajectory_one(ctx, case, end_to_end))
    return res


def trajectory_one(ctx, case, end_to_end=5):
    import logging
    import random
    import warnings
    from emu_base import PulserData
    from emu_mps import MPSBackend, MPSConfig
    from emu_sv import SVBackend, SVConfig
    from pulser.backend import BitStrings

    kind, ntraj, backend, natoms = case["noise"], case["n_trajectories"], case["backend"], case["natoms"]
    seq = tg.real_sequence(case["dur"], natoms, False)
    with warnings.catch_warnings():
        warnings.simplefilter("ignore")
        nm = noise_model(kind, random.Random(case["noise_seed"]))
        obs = [BitStrings(evaluation_times=[1.0], num_shots=10)]
        if backend == "sv":
            cfg = SVConfig(dt=10, gpu=False, log_level=logging.ERROR, noise_model=nm, n_trajectories=ntraj,
                           observables=obs)
            B = SVBackend
        else:
            cfg = MPSConfig(dt=10, num_gpus_to_use=0, log_level=logging.ERROR, noise_model=nm,
                            n_trajectories=ntraj, observables=obs)
            B = MPSBackend
        pd = PulserData(sequence=seq, config=cfg, dt=10)
        trajs = list(pd.hamiltonian.noise_trajectories)
        datas = list(pd.get_sequences())
        reps = [int(r) for _, r in trajs]
        case["reps"] = reps
        # identify the trajectory of every yielded SequenceData by object identity of its samples
        ids, seen = [], {}
        for d in datas:
            ids.append(seen.setdefault(id(d.omega), len(seen)))
        model_ids = [i for i, r in enumerate(reps) for _ in range(r)]
        bad_ok = len(datas) != len(model_ids) or all(
            tuple(d.bad_atoms) == tuple(trajs[i][0].bad_atoms.values()) for d, i in zip(datas, model_ids))
        ok = ids == model_ids and len(datas) == sum(reps) == ntraj and bad_ok
        if not ok:
            ctx.violation(
                f"get_sequences yields {len(datas)} SequenceData for n_trajectories={ntraj} (pulser requests "
                f"reps={reps}) with noise model '{kind}' on {backend}: trajectory indices {ids}",
                {"case": case, "yielded": len(datas), "yielded_ids": ids, "finding_key": KEY_REPS})
        # end-to-end: the real backend.run() simulates once per requested repetition
        if ntraj <= end_to_end and natoms == 2:
            calls = []
            orig = B._run_from_sequence_data
            B._run_from_sequence_data = staticmethod(lambda d, c, _o=orig: (calls.append(1), _o(d, c))[1])
            try:
                B(seq, config=cfg).run()
                n_runs, exc = len(calls), None
            except Exception as ex:  # noqa: BLE001
                n_runs, exc = len(calls), repr(ex)[:200]
            finally:
                B._run_from_sequence_data = orig
            case["end_to_end_runs"], case["end_to_end_exc"] = n_runs, exc
            if exc is None and n_runs != ntraj:
                ctx.violation(
                    f"{backend} backend.run() simulated {n_runs} times for n_trajectories={ntraj} "
                    f"(noise model '{kind}')",
                    {"case": case, "runs": n_runs, "finding_key": KEY_REPS})
    return case, ids


# ---------------------------------------------------------------------------------------------
def run(ctx):
    from vlib.coqparse import parse

    rc, out = common.coq_make(["Model/TimeGrid.vo"])
    ctx.obligation("build:Model/TimeGrid.vo", rc == 0, out, kind="build")
    common.standard_proof_stage(ctx, "C21", ["Properties/C21.vo"])
    model_ok = rc == 0

    # ---- adapter cases (stub sequence object, real config classes, real _get_target_times)
    cases = [dict(c) for c in corpus_cases()]
    for c in cases:
        c.setdefault("kind", "corpus")
    nw, nbig, nm = ctx.n(260, 5000), ctx.n(25, 300), ctx.n(40, 400)
    for _ in range(nw):
        c = tg.gen_case(ctx.rng, max_points=ctx.rng.choice([60, 400, 1500]))
        c["kind"] = "well-formed"
        if ctx.rng.random() < 0.3:
            c["with_modulation"] = True
            c["dur_mod"] = c["dur"] + ctx.rng.choice([0, 4, 48, 100])
            c["dur_eff"] = c["dur_mod"]
        cases.append(c)
    for _ in range(ctx.n(200, 3000)):  # clusters: requested times 1e-15..1e-7 (relative) off another candidate
        c = tg.gen_cluster_case(ctx.rng, max_points=ctx.rng.choice([40, 300, 1500]))
        c["kind"] = "cluster"
        cases.append(c)
    for _ in range(ctx.n(60, 800)):  # long sequences, times coinciding with grid points up to round-off
        cases.append(gen_long_case(ctx.rng))
    for _ in range(nbig):  # python-only oracle + in-Coq comparison: grids up to 1e5 points
        c = tg.gen_case(ctx.rng, max_points=100000)
        c["kind"] = "well-formed-big"
        cases.append(c)
    cases += [gen_malformed(ctx.rng) for _ in range(nm)]

    kinds = ["base", "sv", "mps"]
    reals = []
    n_backend_witness = 0
    for i, c in enumerate(cases):
        cfgkind = kinds[i % 3]
        cc = dict(c)
        if "dur_eff" in c and "dur_mod" not in c:
            cc.pop("dur_eff")
        try:
            cfg = tg.make_config(c, cfgkind)
        except ValueError:
            reals.append(None)  # pulser itself rejects the configuration (times too close, ...)
            continue
        code, tt = tg.real_target_times(c, cfg)
        reals.append((code, tt))
        before = len(ctx.violations)
        property_check(ctx, c, code, tt, backends=n_backend_witness < 2)
        if len(ctx.violations) > before:
            n_backend_witness += 1

    # ---- corpus regressions (fixed findings): the witnesses must run end-to-end on both backends
    for c in cases:
        if c.get("kind") == "corpus" and isinstance(c["dur"], int) and c["dur"] >= 2:
            for b, r in near_duplicate_in_backends(c).items():
                if r["code"] != 0:
                    ctx.violation(f"corpus witness raises on {b} (code {r['code']}): {r['exc']}",
                                  {"case": c, "backend": b, "exc": r["exc"], "finding_key": KEY_F08})

    # ---- correspondence model <-> _get_target_times (bit-exact)
    corr_ok, detail = model_ok, "" if model_ok else "model did not build"
    hist = {}
    if model_ok:
        try:
            ev = common.CoqEval("C21", tg.HEADER)
            idx = []
            for c, r in zip(cases, reals):
                if r is None:
                    continue
                mc = dict(c)
                if c.get("with_modulation"):
                    mc["dur"] = c["dur_mod"]
                big = len(r[1]) > 120
                if len(r[1]) > 4000:
                    continue  # python-only oracle (insertion sort in Coq is fine, printing is not)
                ev.add(tg.model_tt_expr(mc, r[1] if big else None))
                idx.append((c, r, big))
            outs = ev.run()
            for (c, r, big), o in zip(idx, outs):
                v = parse(o)
                if big:
                    mcode, mlen, eq = v
                    same = (mcode == r[0]) and (mcode != 0 or (mlen == len(r[1]) and eq is True))
                else:
                    mcode, mtt = v
                    same = mcode == r[0] and [float(x).hex() for x in mtt] == [x.hex() for x in r[1]]
                k = (c["kind"].split(":")[0], r[0])
                hist[k] = hist.get(k, 0) + 1
                ctx.count_case({k2: c[k2] for k2 in ("kind", "dur", "dt", "obs", "dflt")} | {"n": len(r[1])},
                               len(r[1]) > 3)
                if not same and corr_ok:
                    corr_ok = False
                    detail = f"case={c} real={(r[0], r[1][:8], len(r[1]))} model={str(v)[:300]}"
                    ctx.extra["first_disagreement"] = {"case": c, "real": [r[0], r[1][:20]], "model": str(v)[:600]}
        except (common.CoqEvalError, ValueError) as ex:
            corr_ok, detail = False, str(ex)
    ctx.obligation("correspondence:Model.TimeGrid.get_target_times==_get_target_times (bit-exact)", corr_ok,
                   detail, kind="correspondence")

    # ---- real sequences, step loops, trajectories
    runs = real_sequence_checks(ctx, ctx.rng, ctx.n(40, 600))
    loop_ok, detail = model_ok, "" if model_ok else "model did not build"
    if model_ok:
        try:
            ev = common.CoqEval("C21s", tg.HEADER)
            idx = []
            for c, r in runs:
                if r["code"] != 0 or len(r["tt"]) > 320:
                    continue
                mc = dict(c, nsteps=r["nsteps"])
                # model steps (t_k, dt_k) compared inside python on the printed dt list
                ev.add(f"let s := {tg.model_run_expr(mc, r['tt'])} in (fst s, map snd (snd (snd (snd s))))")
                idx.append((c, r))
            outs = ev.run()
            for (c, r), o in zip(idx, outs):
                mcode, dts = parse(o)
                want = [float(x) * (0.001 if c["backend"] == "sv" else 1.0) for x in dts]
                ctx.count_case({"kind": "step-loop", "backend": c["backend"], "dur": c["dur"], "dt": c["dt"],
                                "mod": c.get("with_modulation", False), "n": len(r["tt"])}, len(r["tt"]) > 3)
                k = ("step-loop-" + c["backend"], 0)
                hist[k] = hist.get(k, 0) + 1
                if (mcode != 0 or [x.hex() for x in want] != [x.hex() for x in r["steps"]]) and loop_ok:
                    loop_ok = False
                    detail = f"case={c} model=({mcode},{want[:6]}) real={r['steps'][:6]}"
        except (common.CoqEvalError, ValueError) as ex:
            loop_ok, detail = False, str(ex)
    ctx.obligation("correspondence:Model.TimeGrid.run steps==solver steps of emu-sv/emu-mps (bit-exact)",
                   loop_ok, detail, kind="correspondence")

    trs = trajectory_checks(ctx, ctx.rng, ctx.n(10, 150), end_to_end=ctx.n(2, 5))
    tr_ok, detail = model_ok, ""
    if model_ok:
        try:
            ev = common.CoqEval("C21t", tg.HEADER)
            for case, ids in trs:
                samples = "[" + "; ".join(f"({i}%nat, {r}%nat)" for i, r in enumerate(case["reps"])) + "]"
                ev.add(f"get_sequences {samples}")
            for (case, ids), o in zip(trs, ev.run()):
                ctx.count_case(case, len(case["reps"]) > 1)
                hist[("trajectories", 0)] = hist.get(("trajectories", 0), 0) + 1
                if parse(o) != ids and tr_ok:
                    tr_ok, detail = False, f"case={case} model={o} real={ids}"
        except (common.CoqEvalError, ValueError) as ex:
            tr_ok, detail = False, str(ex)
    ctx.obligation("correspondence:Model.TimeGrid.get_sequences==PulserData.get_sequences (trajectory order)",
                   tr_ok, detail, kind="correspondence")

    ctx.extra["input_distribution"] = {f"{k[0]}/code{k[1]}": v for k, v in sorted(hist.items())}
    ctx.rule = ("adapter cases: durations 1..10000, dt from 0.1 to above the duration (decimal and random), 0-3 "
                "observables with own or default times (decimal fractions k*dt/T, rationals, 0, 1, random; clusters: a "
                "requested time at relative distance log-uniform in [1e-15, 1e-7] from a multiple of dt / a time of the "
                "same observable / of another observable / of the default, anchored anywhere in [0,1] incl. 0, 1 and "
                "the last multiple of dt; long sequences 4096..200000 ns with np.linspace / k/N times), default "
                "'Full', modulation on/off, malformed stream (dt 0/negative/nan, duration 0, Full+None, no observables); "
                "real pulser sequences through PulserData and both backends (step loop); noise trajectories: noise model "
                "{empty, Lindblad-only, SPAM-only, shot-to-shot, mixed} x n_trajectories {1,2,5,12} x both backends "
                "(yield count and order, end-to-end run count for n <= 5); "
                "non-trivial = grid with more than 3 points / more than one trajectory; distinct by input hash")
    ctx.trusted_base += ["hand model coq/Model/TimeGrid.v (validated by the bit-exact correspondences on every run)",
                         "Coq PrimFloat = IEEE binary64 as in CPython/numpy",
                         "pulser-core 1.9.1 as installed (durations, HamiltonianData trajectories)"]
    ctx.assumptions += [
        "theorems are in exact real arithmetic; binary64 near-duplicates are merged by the adapter since 319efe0 "
        "(F-08), the float behaviour of the merge is tied bit-exactly by the correspondence",
        "ints below 2^53 (i*dt uses float(i)); -0.0 is not generated (set semantics identifies it with 0.0)",
        "the noisy emu-mps solver inserts sub-steps at quantum jumps (C18); the step-loop model is the noiseless one",
        "sequences of 1 ns cannot be sampled by the adapter (PCHIP needs 2 points): backend runs use >= 16 ns"]


def replay(ctx, path):
    rp = json.loads(open(path).read())
    c = rp["case"]
    if c.get("kind") == "trajectories":
        case, ids = trajectory_one(ctx, {k: c[k] for k in ("kind", "noise", "n_trajectories", "backend", "natoms",
                                                         "dur", "noise_seed")})
        print("replay: noise", case["noise"], "n_trajectories", case["n_trajectories"], "reps", case["reps"],
              "yielded trajectory indices", ids, "end-to-end runs", case.get("end_to_end_runs"))
        return
    cfg = tg.make_config(c, "sv")
    code, tt = tg.real_target_times(c, cfg)
    print("replay: code", code, "points", len(tt))
    close = [(a, b) for a, b in zip(tt, tt[1:]) if (b - a) / tt[-1] < tg.TOLU]
    print("near-duplicate pairs:", close[:5])
    print("real backends:", near_duplicate_in_backends(c))
    property_check(ctx, c, code, tt)


META = {
    "category": "proof",
    "technique": "Coq proof (R instance of a hand model of _get_target_times, the step loops and the reps loop) "
                 "+ bit-exact PrimFloat correspondence with the real adapter and both backends",
    "text": ("Proved for all durations > 0, dt > 0, merge tolerance in (0,1) and observable sets: the grid is "
             "strictly increasing, starts at 0, ends at the duration, consecutive points are at least tol*duration "
             "apart, every point is a multiple of dt, a requested time or the duration, and every such candidate "
             "has a grid point closer than tol*duration; dt > duration gives {0, T} plus requested times; a "
             "completed run takes exactly the steps (t_k, t_k+1 - t_k); get_sequences repeats every trajectory "
             "reps times. The former F-08 witness is a float regression that now passes. Validated only: that "
             "the model equals the code (bit-exact comparison on generated inputs), the duration under "
             "modulation, pulser's trajectory counts."),
    "note": ("Trusted: Coq kernel+VM, stdlib real-number axioms, the hand model (tied by correspondence), "
             "PrimFloat==binary64, pulser-core 1.9.1. Theorems are in exact real arithmetic."),
}
