"""Trace harness for the emu-mps stepping machine (shared by C02, C09, C18, C14, C26).

Runs the REAL MPSBackendImpl / NoisyMPSBackendImpl / DMRGBackendImpl with every numerical kernel
rebound to a recording stub (module-level names of emu_mps.mps_backend_impl) and the values the
kernels feed back into the control flow (state norms, random.uniform, DMRG energies, interaction
matrix changes) scripted.  Produces exactly the data `trace_run` of coq/Model/MpsMachine.v prints:
(outcome, snapshots after every progress(), events).
"""
from __future__ import annotations

import contextlib
import logging

import torch


class OracleExhausted(Exception):
    pass


class Tok:
    """Stand-in for a tensor: knows which site it belongs to."""

    device = torch.device("cpu")
    is_cuda = False

    def __init__(self, site=None):
        self.site = site

    def to(self, *a, **k):
        return self

    def detach(self):
        return self

    def clone(self):
        return self


class FakeNorm:
    def __init__(self, v):
        self.v = v

    def item(self):
        return self.v

    def __rtruediv__(self, other):
        return other / self.v


class Recorder:
    def __init__(self, case):
        self.events = []
        self.norms = list(case["onorm"])
        self.unifs = list(case["ounif"])
        self.energies = list(case["oenergy"])
        self.changes = [not b for b in case["osame"]]  # True = matrix changes at that query
        self.in_fill = False
        self.in_jump = False
        self.physical = case.get("physical")
        self.norm_log = []
        self.last_jump_time = 0.0
        import random as _r
        self.rng_jump = _r.Random(case.get("jump_seed", 0))
        self.matrix_version = 0
        self.stale_makeH = []
        self.rescaled = []      # in-place rescalings of the evolving state outside do_random_quantum_jump
        self.queries = 0

    def ev(self, code, ints=(), floats=()):
        self.events.append((code, [int(i) for i in ints], [float(x) for x in floats]))


class FakeState:
    def __init__(self, rec: Recorder, n: int, eigenstates=("r", "g")):
        self.rec = rec
        self.factors = [Tok(i) for i in range(n)]
        self.orthogonality_center = 0
        self.num_sites = n
        self.eigenstates = list(eigenstates)
        self.config = None

    # arithmetic used by fill_results / do_random_quantum_jump
    def __rmul__(self, other):
        return self

    def __imul__(self, other):
        # `self.state *= c` on the evolving state: legitimate only inside do_random_quantum_jump (renormalisation after
        # the jump).  Anywhere else it resets the norm the quantum-jump clock is read from.
        rec = self.rec
        if not rec.in_jump and getattr(rec, "impl", None) is not None:
            rec.rescaled.append((float(rec.impl.current_time), bool(rec.in_fill)))
        return self

    def norm(self):
        rec = self.rec
        if rec.in_fill:
            return FakeNorm(1.0)
        if rec.physical is not None:
            # on-demand oracle: norm decays exponentially since the last jump (dyadic values so that
            # n*n is exact); inside do_random_quantum_jump the state has just been renormalised
            if rec.in_jump:
                v = 1.0 if rec.rng_jump.random() > rec.physical.get("bad_jump_norm", 0.0) else 2.0
            else:
                t = float(rec.impl.current_time) - rec.last_jump_time
                if rec.physical.get("smooth"):
                    # un-quantised decay (falsifier only: the Coq model is not run on these values)
                    v = 2.0 ** (-rec.physical["rate"] * max(t, 0.0))
                else:
                    v = max(1, round(4096 * 2.0 ** (-rec.physical["rate"] * max(t, 0.0)))) / 4096.0
            rec.norm_log.append(v)
            return FakeNorm(v)
        if not rec.norms:
            raise OracleExhausted("norm")
        v = rec.norms.pop(0)
        rec.norm_log.append(v)
        return FakeNorm(v)

    def orthogonalize(self, i=0):
        self.rec.ev(15, [i])
        self.orthogonality_center = i
        return i

    def apply(self, qubit, op):
        self.rec.ev(14, [], [self.rec.impl.current_time])

    def get_max_bond_dim(self):
        return 1

    def get_memory_footprint(self):
        return 0.0

    def expect_batch(self, ops):
        return torch.ones(self.num_sites, ops.shape[0], dtype=torch.complex128)


class FakeH:
    def __init__(self, n):
        self.factors = [Tok(i) for i in range(n)]


class FakeRandom:
    def __init__(self, rec):
        self.rec = rec

    def uniform(self, a, b):
        if not self.rec.unifs:
            raise OracleExhausted("uniform")
        return self.rec.unifs.pop(0)

    def choices(self, population, weights=None):
        return [population[0]]


KIND_CODE = {"TDVP": "TDVP", "Noisy": "Noisy", "DMRG": "DMRG"}


@contextlib.contextmanager
def patched(rec: Recorder):
    import emu_mps.mps_backend_impl as M

    saved = {k: getattr(M, k) for k in (
        "evolve_pair", "evolve_single", "new_left_bath", "new_right_bath", "right_baths", "make_H",
        "update_H", "minimize_energy_pair", "MPS", "random", "deallocate_tensor")}

    def evolve_pair(*, state_factors, baths, ham_factors, dt, config, orth_center_right,
                    is_hermitian, dim=2):
        l, r = state_factors[0].site, state_factors[1].site
        rec.ev(1, [l, r, int(orth_center_right)], [dt])
        return Tok(l), Tok(r)

    def evolve_single(*, state_factor, ham_factor, baths, dt, config, is_hermitian):
        rec.ev(2, [state_factor.site], [dt])
        return Tok(state_factor.site)

    def new_left_bath(bath, state_factor, ham_factor):
        rec.ev(3, [state_factor.site])
        return Tok()

    def new_right_bath(bath, state_factor, ham_factor):
        rec.ev(5, [state_factor.site])
        return Tok()

    def right_baths(state, op, final_qubit):
        rec.ev(7)
        # same length as the real function: 1 + len(range(len(factors)-1, final_qubit-1, -1))
        return [Tok() for _ in range(1 + len(range(len(state.factors) - 1, final_qubit - 1, -1)))]

    def make_H(*, interaction_matrix, hamiltonian_type, num_gpus_to_use=None, dim=2):
        rec.ev(9)
        # property-level oracle: the Hamiltonian must be (re)built from the matrix returned by the LATEST
        # interaction_matrix(t) query (the recorder encodes the version of the matrix in its values)
        n = interaction_matrix.shape[0]
        if n >= 2:
            used = int(round(float(interaction_matrix.max()))) - 1   # max entry: invariant under qubit permutations
            if used != rec.matrix_version:
                rec.stale_makeH.append((used, rec.matrix_version, len(rec.events)))
        return FakeH(interaction_matrix.shape[0])

    def update_H(*, hamiltonian, omega, delta, phi, noise):
        row = int(round(omega[0].real.item()))
        rec.ev(10, [row, int(noise is rec.impl.lindblad_noise)])

    def minimize_energy_pair(*, state_factors, ham_factors, baths, orth_center_right, config,
                             residual_tolerance):
        l = state_factors[0].site
        rec.ev(16, [l, int(orth_center_right)])
        if not rec.energies:
            raise OracleExhausted("energy")
        return Tok(l), Tok(l + 1), rec.energies.pop(0)

    class FakeMPS(FakeState):
        @classmethod
        def make(cls, num_sites, **kw):
            if num_sites <= 1:
                raise ValueError("For 1 qubit states, do state vector")
            return cls(rec, num_sites)

    M.evolve_pair, M.evolve_single = evolve_pair, evolve_single
    M.new_left_bath, M.new_right_bath, M.right_baths = new_left_bath, new_right_bath, right_baths
    M.make_H, M.update_H, M.minimize_energy_pair = make_H, update_H, minimize_energy_pair
    M.MPS = FakeMPS
    M.random = FakeRandom(rec)
    M.deallocate_tensor = lambda t: None
    try:
        yield M
    finally:
        for k, v in saved.items():
            setattr(M, k, v)


class PopTracker(list):
    """left_baths / right_baths replacement is not possible (the code rebuilds the lists), so pops
    and pushes are recovered from the events of new_*_bath and from length differences."""


def build_case_objects(case, rec: Recorder, observables=None):
    """Hand-built SequenceData + MPSConfig for the scripted run."""
    import emu_mps
    from emu_base.pulser_adapter import HamiltonianType, SequenceData
    from emu_mps.solver import Solver

    n, steps, times = case["N"], case["steps"], case["times"]
    omega = torch.zeros(steps, n, dtype=torch.complex128)
    for k in range(steps):
        omega[k, :] = k  # row id encoded in the values
    base = torch.zeros(n, n, dtype=torch.float64)
    for i in range(n - 1):
        base[i, i + 1] = base[i + 1, i] = 1.0

    def interaction_matrix(t):
        # query 0 is made by __init__ when reordering is on (it is off here); the first real query is
        # init_noiseless_hamiltonian, every later one is timestep_complete, whose answer is scripted
        if case.get("perm") is not None and not getattr(rec, "init_query_seen", False):
            rec.init_query_seen = True      # MPSBackendImpl.__init__ asks for the matrix once to choose the qubit order
            return base.clone()
        q = rec.queries
        rec.queries += 1
        if q >= 1 and q - 1 < len(rec.changes) and rec.changes[q - 1]:
            rec.matrix_version += 1
        elif q >= 1 and q - 1 >= len(rec.changes):
            raise OracleExhausted("same")
        rec.ev(8, [], [t])
        return base * (1.0 + rec.matrix_version)

    lind = []
    if case["kind"] == "Noisy":
        lind = [torch.tensor([[0, 0], [1, 0]], dtype=torch.complex128)]
    data = SequenceData(
        omega, torch.zeros_like(omega), torch.zeros_like(omega), interaction_matrix,
        tuple(f"q{i}" for i in range(n)), tuple(False for _ in range(n)), lind, 0.0,
        list(times), ["r", "g"], HamiltonianType.Rydberg)
    import warnings
    with warnings.catch_warnings():
        warnings.simplefilter("ignore")
        config = emu_mps.MPSConfig(
            observables=observables or [], optimize_qubit_ordering=case.get("perm") is not None, autosave_dt=10 ** 9,
            log_level=logging.CRITICAL,
            solver=Solver.DMRG if case["kind"] == "DMRG" else Solver.TDVP)
    return data, config


def snapshot(impl):
    st = impl.state
    return ([impl._sweep_index, int(impl._swipe_direction.name == "LEFT_TO_RIGHT"), impl._timestep_index,
             len(impl.left_baths), len(impl.right_baths), st.orthogonality_center,
             int(getattr(impl, "root_finder", None) is not None), getattr(impl, "sweep_count", 0)],
            [float(impl.current_time), float(impl.target_time)])


ERR_CLASS = {AssertionError: "assert", IndexError: "index", RuntimeError: "runtime",
             ZeroDivisionError: "zerodiv", OracleExhausted: "oracle", ValueError: "value"}


def run_impl(case, observables=None):
    """returns dict(outcome, snapshots, events, results).  In `physical` mode the norm oracle is produced
    on demand; the values actually consumed are written back into case["onorm"] for the model."""
    r = _run_impl(case, observables)
    if case.get("physical") is not None:
        case["onorm"] = list(r.pop("norm_log"))
    return r


def _run_impl(case, observables=None):
    rec = Recorder(case)
    snaps = []
    with patched(rec) as M:
        try:
            data, config = build_case_objects(case, rec, observables)
            kw = {}
            if case.get("perm") is not None:
                import emu_mps.optimatrix as _optimat
                _saved_mb = _optimat.minimize_bandwidth
                _optimat.minimize_bandwidth = lambda *a, **k: torch.tensor(case["perm"])
                try:
                    impl = M.create_impl(data, config)
                finally:
                    _optimat.minimize_bandwidth = _saved_mb
            else:
                impl = M.create_impl(data, config)
            if case["kind"] == "DMRG":
                impl.energy_tolerance = case["etol"]
                impl.max_sweeps = case["maxsw"]
            rec.impl = impl
            impl.save_simulation = lambda: rec.ev(13)
            orig_fill = impl.fill_results

            def fill():
                rec.ev(11, [impl._timestep_index], [impl.current_time])
                rec.in_fill = True
                try:
                    orig_fill()
                finally:
                    rec.in_fill = False

            impl.fill_results = fill
            orig_stats = impl.statistics

            class StatsRec:
                def __call__(self, *a, **k):
                    rec.ev(12, [], [impl.current_time])
                    return orig_stats(*a, **k)

                def __getattr__(self, name):
                    return getattr(orig_stats, name)

            impl.statistics = StatsRec()
            if hasattr(impl, "do_random_quantum_jump"):
                orig_jump = impl.do_random_quantum_jump

                def jump():
                    rec.in_jump = True
                    try:
                        orig_jump()
                        rec.last_jump_time = float(impl.current_time)
                    finally:
                        rec.in_jump = False

                impl.do_random_quantum_jump = jump
            mark = 0
            impl.init()
            mark = len(rec.events)
            snaps.append(snapshot(impl))
            n = 0
            while not impl.is_finished():
                if n >= case["nprog"]:
                    return dict(outcome="budget", snapshots=snaps, events=rec.events, impl=impl,
                                norm_log=rec.norm_log)
                impl.progress()
                mark = len(rec.events)
                n += 1
                snaps.append(snapshot(impl))
                held = getattr(impl, "current_interaction_matrix", None)
                if held is not None and held.numel() > 1 and float(held.max()) > 0:
                    hv = int(round(float(held.max()))) - 1
                    if hv != rec.matrix_version and len(rec.stale_makeH) < 5:
                        # the matrix the Hamiltonian is built from is not the one returned by the latest query
                        rec.stale_makeH.append((hv, rec.matrix_version, len(rec.events)))
            return dict(outcome="finished", snapshots=snaps, events=rec.events, impl=impl,
                        norm_log=rec.norm_log, stale_makeH=rec.stale_makeH, rescaled=rec.rescaled)
        except tuple(ERR_CLASS) as ex:
            # the model reports the trace up to the last completed progress() on an error
            return dict(outcome=ERR_CLASS[type(ex)], snapshots=snaps, events=rec.events[:mark],
                        impl=None, error=repr(ex), norm_log=rec.norm_log)


# ---- model side ---------------------------------------------------------------------------
HEADER = """From Coq Require Import ZArith List PrimFloat.
Import ListNotations.
From EV Require Import Base.Arith Gen.Brent Model.MpsMachine.
Open Scope Z_scope."""


def model_expr(case):
    from vlib.common import float_lit

    def fl(x):
        return "(" + float_lit(x) + ")%float"

    def fls(xs):
        return "[" + "; ".join(fl(float(x)) for x in xs) + "]"

    same = "[" + "; ".join("true" if b else "false" for b in case["osame"]) + "]"
    return (f"trace_run float_arith (@{case['kind']}) {case['N']} {case['steps']} {fls(case['times'])} "
            f"{fl(float(case['etol']))} {case['maxsw']} {fls(case['onorm'])} {fls(case['ounif'])} "
            f"{fls(case['oenergy'])} {same} {case['nprog']}%nat")


def model_outcome(code):
    if code == 0:
        return "finished"
    if code == -1:
        return "budget"
    if code == 900:
        return "index"
    if code == 836:
        return "runtime"
    if code == 999:
        return "oracle"
    if code >= 11000:
        return "zerodiv"
    return "assert"


def canon_events(evs, drop_pop=True):
    """bit-exact canonical form; EvPopL/EvPopR (4, 6) are not observable in the implementation
    (list.pop on a plain list) — they are checked through the bath-length snapshots instead."""
    from vlib.coqparse import bits

    out = []
    for code, ints, floats in evs:
        if drop_pop and code in (4, 6):
            continue
        out.append((int(code), [int(i) for i in ints], [bits(float(x)) for x in floats]))
    return out


def canon_snaps(snaps):
    from vlib.coqparse import bits

    return [([int(i) for i in a], [bits(float(x)) for x in b]) for a, b in snaps]


# ---- generators --------------------------------------------------------------------------
def gen_times(rng, steps):
    mode = rng.choice(["int", "frac", "irregular"])
    t, out = 0.0, [0.0]
    for _ in range(steps):
        if mode == "int":
            t += float(rng.randint(1, 20))
        elif mode == "frac":
            t += rng.choice([0.25, 0.5, 1.0, 2.5, 10.0])
        else:
            t += 10 ** rng.uniform(-2, 2)
        out.append(t)
    return out


def gen_case(rng, kind, malformed=False):
    n = rng.choice([2, 2, 3, 3, 4, 5, 6, 7, 9])
    steps = rng.randint(1, 5)
    times = gen_times(rng, steps)
    case = dict(kind=kind, N=n, steps=steps, times=times, etol=1e-5, maxsw=2000, onorm=[], ounif=[],
                oenergy=[], osame=[rng.random() < 0.8 for _ in range(steps)], nprog=2000)
    if kind == "Noisy":
        m = rng.randint(0, 80)
        mode = rng.choice(["decay", "random", "nojump", "boundary", "physical", "physical", "physical"])
        thr = [rng.randint(1, 63) / 64.0 for _ in range(40)]
        if mode == "physical":
            total = case["times"][-1]
            case["physical"] = {"rate": rng.choice([0.3, 1.0, 3.0, 8.0]) / total,
                                "bad_jump_norm": rng.choice([0.0, 0.0, 0.0, 0.2])}
            case["jump_seed"] = rng.randint(0, 10 ** 6)
        norms, cur = [], 64
        for i in range(m + 40):
            if mode == "decay":
                cur = max(1, cur - rng.randint(0, 6))
                norms.append(cur / 64.0)
                if rng.random() < 0.1:
                    cur = 64
            elif mode == "random":
                norms.append(rng.randint(1, 64) / 64.0)
            elif mode == "nojump":
                norms.append(1.0)
            else:
                norms.append(rng.choice([thr[0] ** 0.5, 1.0, 0.5, 0.75]))
        case["onorm"] = norms
        case["ounif"] = thr
        case["jump_norm_one"] = True
    if kind == "DMRG":
        case["maxsw"] = rng.choice([1, 2, 3, 5, 2000])
        case["etol"] = rng.choice([1e-5, 0.5, 2.0])
        mode = rng.choice(["converge", "random", "flat"])
        e, es = 10.0, []
        for i in range(600):
            if mode == "converge":
                e -= 8.0 / (1 + i) ** 2
            elif mode == "random":
                e = rng.choice([-1.0, -2.0, -2.25, -3.0, 0.5])
            es.append(e)
        case["oenergy"] = es
    if malformed:
        how = rng.choice(["short_times", "more_steps", "short_same"])
        if how == "short_times" and len(case["times"]) > 2:
            case["times"] = case["times"][:-1]
        elif how == "more_steps":
            case["steps"] += 1
            case["osame"].append(True)
        else:
            case["osame"] = case["osame"][:-1]
        case["malformed"] = how
    if n >= 2 and rng.random() < 0.4:
        # run with qubit reordering on and a forced non-identity internal order: the stepping logic must not depend on it
        perm = list(range(n))
        for _ in range(50):
            rng.shuffle(perm)
            if perm != list(range(n)):
                break
        if perm != list(range(n)):
            case["perm"] = perm
    return case


def fix_jump_norms(case):
    """do_random_quantum_jump asserts the norm after renormalising is 1: the real code reads the
    norm oracle there too, so scripted streams must carry 1.0 at those positions.  We obtain the
    positions by running the implementation once with a permissive stream."""
    return case


def compare(case, impl_res, model_val):
    """returns (ok, detail)"""
    code, msnaps, mevents = model_val
    i_out = impl_res["outcome"]
    m_out = model_outcome(code)
    if i_out != m_out:
        return False, f"outcome impl={i_out} ({impl_res.get('error')}) model={m_out} (code {code})"
    if i_out == "oracle":
        return True, ""  # both ran out of scripted values at some point: prefix not compared
    a, b = canon_snaps(impl_res["snapshots"]), canon_snaps(msnaps)
    if a != b:
        k = next((i for i, (x, y) in enumerate(zip(a, b)) if x != y), min(len(a), len(b)))
        return False, f"snapshot {k}: impl={a[k] if k < len(a) else None} model={b[k] if k < len(b) else None}"
    a, b = canon_events(impl_res["events"]), canon_events(mevents)
    if a != b:
        k = next((i for i, (x, y) in enumerate(zip(a, b)) if x != y), min(len(a), len(b)))
        return False, f"event {k}: impl={a[k] if k < len(a) else None} model={b[k] if k < len(b) else None}"
    return True, ""
