"""C02 — emu-mps TDVP runs reproduce the Pulser Hamiltonian dynamics (DESIGN.md §4 C02)."""
import json
import logging
import warnings

import numpy as np

from props import _dense_ref as D
from props import _mps_trace as T
from vlib import common
from vlib.coqparse import parse

OCC_TOL = 1e-3   # occupations, correlations: correct code gives <= 6.8e-5 over 8100 thorough cases (6 seeds)
EN_TOL = 2e-3    # times max(1, n); correct code gives <= 5e-4 absolute over 8100 thorough cases
M2_TOL = 1e-2   # relative to max(1, ||H||^2); correct code gives <= 9.4e-4 over 8100 thorough cases
FID_TOL = 5e-3   # phase sensitive (superposition targets): correct code gives <= 4.5e-4; a frame mix-up gives >= 9e-3


def run_loop_shape(ctx):
    """Fail-closed source shape: MPSBackend._run is `while not impl.is_finished(): impl.progress()` followed only by the
    autosave clean-up and `return impl.results` -- the loop the Gallina [run] models (the trace harness drives the
    same two methods itself, so the loop's own shape is pinned here)."""
    import ast
    src = (common.REPO / "emu_mps" / "mps_backend.py").read_text()
    ok, why = False, "MPSBackend._run not found"
    for cls in [n for n in ast.parse(src).body if isinstance(n, ast.ClassDef) and n.name == "MPSBackend"]:
        for fn in [n for n in cls.body if isinstance(n, ast.FunctionDef) and n.name == "_run"]:
            body = [b for b in fn.body if not (isinstance(b, ast.Expr) and isinstance(b.value, ast.Constant))]
            arg = fn.args.args[0].arg if fn.args.args else None
            w = body[0] if body else None
            want_test = f"not {arg}.is_finished()"
            want_body = [f"{arg}.progress()"]
            if not isinstance(w, ast.While) or w.orelse:
                why = "first statement is not a plain while loop"
            elif ast.unparse(w.test) != want_test or [ast.unparse(b) for b in w.body] != want_body:
                why = f"loop is `while {ast.unparse(w.test)}: {[ast.unparse(b) for b in w.body]}`"
            elif any(isinstance(x, (ast.While, ast.For)) or "progress" in ast.unparse(x) for b in body[1:] for x in ast.walk(b)):
                why = "further stepping after the loop"
            elif not (isinstance(body[-1], ast.Return) and ast.unparse(body[-1].value) == f"{arg}.results"):
                why = "does not return impl.results"
            else:
                ok, why = True, ""
    ctx.obligation("source-shape:MPSBackend._run == `while not finished: progress()` (Model.MpsMachine.run)", ok, why,
                   kind="translator")


def trace_stage(ctx, kind, n_cases, tag):
    """model <-> implementation trace correspondence (exact / bit-exact on times)"""
    run_loop_shape(ctx)
    cases = [T.gen_case(ctx.rng, kind, malformed=(i % 9 == 8)) for i in range(n_cases)]
    impl = [T.run_impl(c) for c in cases]
    ok, detail, hist = True, "", {}
    try:
        ev = common.CoqEval(tag, T.HEADER)
        for c in cases:
            ev.add(T.model_expr(c))
        outs = ev.run()
        for c, r, o in zip(cases, impl, outs):
            good, d = T.compare(c, r, parse(o))
            if r.get("stale_makeH"):
                ctx.violation(
                    "the MPO Hamiltonian was rebuilt from a stale interaction matrix (not the one returned by the "
                    f"latest interaction_matrix(t) query): (used version, latest version, event#) = {r['stale_makeH'][:3]}",
                    {"case": {k: v for k, v in c.items()}, "stale": r["stale_makeH"], "finding_key": "stale-interaction-matrix"})
            nev = len(r["events"])
            ctx.count_case({"kind": kind, "N": c["N"], "steps": c["steps"], "times": c["times"][:4],
                            "outcome": r["outcome"], "events": nev, "malformed": c.get("malformed")},
                           nontrivial=nev >= 10)
            key = f"{kind}/{r['outcome']}"
            hist[key] = hist.get(key, 0) + 1
            if not good and ok:
                ok, detail = False, f"case={ {k: c[k] for k in ('kind','N','steps','times')} } {d}"
                ctx.extra["first_trace_disagreement"] = {"case": {k: v for k, v in c.items()}, "detail": d}
    except (common.CoqEvalError, ValueError) as ex:
        ok, detail = False, str(ex)
    ctx.extra.setdefault("trace_distribution", {}).update(hist)
    ctx.obligation(f"correspondence:Model.MpsMachine({kind})==mps_backend_impl (events+snapshots, exact)",
                   ok, detail, kind="correspondence")
    return ok


def e2e_case(rng, n=None, xy=False, reorder=False, local=True, slm=False):
    n = n or rng.choice([2, 3, 3, 4, 5])
    steps = rng.choice([6, 10, 14])
    case = dict(prob=D.random_problem(rng, n, steps, dt=rng.choice([5.0, 10.0]), xy=xy, local=local),
                reorder=reorder)
    if reorder and rng.random() < 0.7:
        perm = list(range(n))
        # not the identity and, whenever the register allows it (n >= 3), not its own inverse either: a gather/scatter
        # mix-up (perm vs inverse perm) is invisible on involutions
        for _ in range(200):
            rng.shuffle(perm)
            inv = [perm.index(i) for i in range(n)]
            if perm != list(range(n)) and (n < 3 or inv != perm):
                break
        case["perm"] = list(perm)
    if slm:
        # SLM-like schedule: interactions of some atoms switched off until t_switch (a grid time or not)
        times = case["prob"]["times"]
        masked = sorted(rng.sample(range(n), rng.randint(1, max(1, n - 1))))
        k = rng.randint(1, steps - 1)
        case["slm"] = {"masked": masked, "t_switch": times[k] + rng.choice([0.0, 0.3 * (times[k + 1] - times[k])])}
    return case


def U_of_t_factory(case):
    prob = case["prob"]
    if "slm" not in case:
        return lambda t: prob["U"]
    Um = np.array(prob["U"], dtype=float).copy()
    for a in case["slm"]["masked"]:
        Um[a, :] = 0.0
        Um[:, a] = 0.0
    ts = case["slm"]["t_switch"]
    return lambda t: Um if t < ts else prob["U"]


def run_e2e(case):
    import emu_mps
    from pulser.backend import CorrelationMatrix, Energy, EnergySecondMoment, EnergyVariance, Fidelity, Occupation

    prob = case["prob"]
    n = prob["n"]
    if "slm" in case:
        # a Hamiltonian rebuilt wrongly for a single step shows at that step only: look at every step
        et = [k / prob["steps"] for k in range(1, prob["steps"] + 1)]
    else:
        et = [0.5, 1.0] if prob["steps"] % 2 == 0 else [1.0]
    with warnings.catch_warnings():
        warnings.simplefilter("ignore")
        obs = [Occupation(evaluation_times=et), Energy(evaluation_times=et)]
        if case.get("more_obs"):
            obs += [CorrelationMatrix(evaluation_times=et), EnergyVariance(evaluation_times=et),
                    EnergySecondMoment(evaluation_times=et)]
        target = None
        if case.get("fidelity") and not prob["xy"]:
            # a target given in REGISTER order that is not symmetric under atom permutations
            b1, b2 = case["fidelity"]
            amps = {b1: 0.6, b2: 0.8j} if b1 != b2 else {b1: 1.0}
            obs.append(Fidelity(emu_mps.MPS.from_state_amplitudes(eigenstates=("r", "g"), amplitudes=amps),
                                evaluation_times=et))
            target = np.zeros(2 ** n, dtype=complex)
            for b, a in amps.items():
                target[int("".join("1" if c == "r" else "0" for c in b), 2)] = a
        if case.get("shuffle") is not None:
            # all observables due at one time share one state object: the order they are listed in must not matter
            import random as _random
            _random.Random(case["shuffle"]).shuffle(obs)
        cfg = emu_mps.MPSConfig(observables=obs,
                                log_level=logging.CRITICAL, optimize_qubit_ordering=case["reorder"], **case.get("cfg", {}))
        Uf = U_of_t_factory(case)
        import emu_mps.optimatrix as optimat
        import torch
        saved = optimat.minimize_bandwidth
        if case.get("perm") is not None:
            # force a non-identity internal qubit order (the optimiser often returns the identity on small registers)
            optimat.minimize_bandwidth = lambda *a, **k: torch.tensor(case["perm"])
        try:
            res = emu_mps.MPSBackend._run_from_sequence_data(D.to_sequence_data(prob, U_of_t=Uf), cfg)
        finally:
            optimat.minimize_bandwidth = saved
    # emu-mps queries the matrix at the midpoint of step 0 and at the start of every later step
    times = prob["times"]
    first_mid = 0.5 * (times[0] + times[1])
    ref, Hs = D.evolve(prob["omega"], prob["delta"], prob["phi"],
                       lambda t: Uf(first_mid) if t == times[0] else Uf(t), prob["times"], xy=prob["xy"])
    out = []
    for t in et:
        k = round(t * prob["steps"])
        occ = np.array([float(x) for x in res.get_result("occupation", t)])
        en = float(res.get_result("energy", t))
        e = dict(t=t, occ_err=float(np.abs(occ - D.occupation(ref[k], prob["n"])).max()),
                 en_err=abs(en - D.energy(ref[k], Hs[k - 1])))
        if case.get("more_obs"):
            H = Hs[k - 1]
            e1 = D.energy(ref[k], H)
            e2 = float(np.real(np.vdot(ref[k], H @ (H @ ref[k]))))
            corr = np.array([[complex(x).real for x in row] for row in res.get_result("correlation_matrix", t)])
            e["corr_err"] = float(np.abs(corr - D.correlation(ref[k], n)).max())
            # <H^2> weights the high-energy tail, which is what TDVP truncation at the default precision loses first (2% of
            # <H^2> observed at 1e-5, 7e-4 at 1e-8): the error is measured against ||H||^2, not against <H^2>
            h2 = max(1.0, float(np.linalg.norm(H, 2)) ** 2)
            e["m2_err"] = abs(float(res.get_result("energy_second_moment", t)) - e2) / h2
            e["var_err"] = abs(float(res.get_result("energy_variance", t)) - (e2 - e1 * e1)) / h2
        if target is not None:
            tag = [x for x in res.get_result_tags() if x.startswith("fidelity")][0]
            e["fid_err"] = abs(float(res.get_result(tag, t)) - abs(np.vdot(target, ref[k])) ** 2)
        out.append(e)
    return out, tuple(res.atom_order)


def e2e_stage(ctx, n_cases):
    worst = 0.0
    for i in range(n_cases):
        case = e2e_case(ctx.rng, xy=(i % 4 == 3), reorder=(i % 2 == 1), local=(i % 3 != 2), slm=(i % 5 in (1, 3, 4)))
        prob = case["prob"]
        # "each observable it reports": beyond occupation/energy also correlations, energy moments and (for targets
        # given in register order, with and without a requested reordering) the fidelity
        case["more_obs"] = i % 2 == 0 or i % 3 == 0
        case["shuffle"] = ctx.rng.randrange(10 ** 6)
        if i % 4 in (1, 2) and not prob["xy"]:
            bits = ["".join(ctx.rng.choice("rg") for _ in range(prob["n"])) for _ in range(2)]
            if len(set(bits[0])) == 1:  # not permutation symmetric
                bits[0] = "r" + "g" * (prob["n"] - 1)
            case["fidelity"] = bits
        try:
            errs, order = run_e2e(case)
        except Exception as ex:  # a run that raises on an accepted sequence
            ctx.violation(f"emu-mps raised on a valid noiseless sequence: {ex!r}",
                          {"case": _ser(case), "finding_key": "e2e-raises"})
            continue
        m = max(e["occ_err"] for e in errs)
        worst = max(worst, m)
        ctx.extra["e2e_worst_energy_error"] = max(ctx.extra.get("e2e_worst_energy_error", 0.0), max(e["en_err"] for e in errs))
        extra_bad = [(k2, e[k2]) for e in errs for k2, tol in (("corr_err", OCC_TOL), ("m2_err", M2_TOL), ("var_err", M2_TOL),
                                                              ("fid_err", FID_TOL)) if e.get(k2, 0.0) > tol]
        for k2 in ("corr_err", "m2_err", "var_err", "fid_err"):
            ctx.extra["e2e_worst_" + k2] = max(ctx.extra.get("e2e_worst_" + k2, 0.0), max(e.get(k2, 0.0) for e in errs))
        if extra_bad:
            ctx.violation(f"emu-mps observable {extra_bad[0][0][:-4]} differs from its value on the exactly evolved state by "
                          f"{extra_bad[0][1]:.3g} (reordering {'on' if case['reorder'] else 'off'})",
                          {"case": _ser(case), "errors": errs, "atom_order": order,
                           "finding_key": "observable-" + extra_bad[0][0][:-4]})
        ctx.count_case({"kind": "e2e", "n": prob["n"], "steps": prob["steps"], "xy": prob["xy"],
                        "reorder": case["reorder"], "occ_err": m}, nontrivial=True)
        if m > OCC_TOL or max(e["en_err"] for e in errs) > EN_TOL * max(1.0, prob["n"]):
            key = "slm-schedule" if "slm" in case else ("reorder-local-drives" if case["reorder"] else "tdvp-dynamics")
            ctx.violation(
                f"emu-mps observables differ from exact evolution of the per-step Hamiltonian (occ err {m:.3g})",
                {"case": _ser(case), "errors": errs, "atom_order": order, "finding_key": key})
    ctx.extra["e2e_worst_occupation_error"] = worst


# ---- the local exponentials go through the REFUSING Krylov entry point -------------------------------------------
# TDVP's local steps are emu_mps.solver_utils.evolve_pair / evolve_single -> krylov_exp(op, x, ...), the wrapper that raises
# RecursionError when the Lanczos/Arnoldi exponential did not converge within max_krylov_dim.  (a) source shape, fail
# closed; (b) runs with a small Krylov budget: every run is either refused or as accurate as any other run.
def krylov_entry_problems():
    import ast

    try:
        tree = ast.parse((common.REPO / "emu_mps/solver_utils.py").read_text())
    except SyntaxError as ex:
        return [f"syntax error: {ex}"]
    out = []
    want_kw = {"exp_tolerance": "config.precision * config.extra_krylov_tolerance",
               "norm_tolerance": "config.precision * config.extra_krylov_tolerance",
               "max_krylov_dim": "config.max_krylov_dim", "is_hermitian": "is_hermitian"}
    for name in ("evolve_pair", "evolve_single"):
        fn = next((n for n in tree.body if isinstance(n, ast.FunctionDef) and n.name == name), None)
        if fn is None:
            out.append(f"{name} not found")
            continue
        def _callee(c):
            f = c.func
            return f.id if isinstance(f, ast.Name) else (f.attr if isinstance(f, ast.Attribute) else "")
        kry = [c for c in ast.walk(fn) if isinstance(c, ast.Call) and "krylov" in _callee(c).lower()]
        if [ast.unparse(c.func) for c in kry] != ["krylov_exp"]:
            out.append(f"{name} must call krylov_exp exactly once and no other Krylov entry point: "
                       f"{[ast.unparse(c.func) for c in kry]}")
            continue
        kw = {k.arg: ast.unparse(k.value) for k in kry[0].keywords}
        if kw != want_kw:
            out.append(f"{name}: unexpected krylov_exp keywords {kw}")
    names = sorted(a.name for n in ast.walk(tree) if isinstance(n, (ast.ImportFrom, ast.Import)) for a in n.names
                   if "krylov_exp" in a.name)
    if names != ["krylov_exp"]:
        out.append(f"solver_utils imports {names} as Krylov exponential entry points (expected only krylov_exp)")
    try:
        import importlib
        import emu_mps.solver_utils as SU
        KE = importlib.import_module("emu_base.math.krylov_exp")
        if SU.krylov_exp is not KE.krylov_exp:
            out.append("emu_mps.solver_utils.krylov_exp is not emu_base.math.krylov_exp.krylov_exp (the entry point C07 is about)")
    except Exception as ex:  # pragma: no cover
        out.append(f"cannot import the Krylov entry point: {ex!r}")
    local = [n.name for n in ast.walk(tree) if isinstance(n, (ast.FunctionDef, ast.ClassDef)) and n.name == "krylov_exp"]
    if local:
        out.append("solver_utils defines its own krylov_exp")
    return out


def krylov_budget_stage(ctx, n_cases):
    stats = ctx.extra.setdefault("krylov_budget_runs", {"refused": 0, "accepted": 0, "worst_accepted_occ_err": 0.0})
    for i in range(n_cases):
        if i % 2 == 0:
            # stiff two-atom runs (|H| dt of order 1-10): two-site TDVP is exact on two atoms, so an answered run must be
            # accurate; a Krylov space of dimension 2-3 cannot hold the exponential of the 4-dimensional local problem
            steps = ctx.rng.choice([4, 6])
            case = dict(prob=D.random_problem(ctx.rng, 2, steps, dt=ctx.rng.choice([100.0, 200.0]), local=True,
                                              scale=ctx.rng.choice([1.0, 2.0])), reorder=False)
            case["cfg"] = {"max_krylov_dim": ctx.rng.choice([2, 3])}
        else:
            case = e2e_case(ctx.rng, n=ctx.rng.choice([3, 4, 5]), reorder=(i % 4 == 1), local=(i % 3 != 2))
            case["cfg"] = {"max_krylov_dim": ctx.rng.choice([2, 3, 4, 6])}
        prob = case["prob"]
        try:
            errs, order = run_e2e(case)
        except RecursionError:
            stats["refused"] += 1
            ctx.count_case({"kind": "krylov-budget", "n": prob["n"], "steps": prob["steps"],
                            "max_krylov_dim": case["cfg"]["max_krylov_dim"], "refused": True}, nontrivial=True)
            continue
        except Exception as ex:
            ctx.violation(f"emu-mps raised {type(ex).__name__} (not the documented refusal) with a small Krylov budget: {ex!r}",
                          {"case": _ser(case), "finding_key": "krylov-budget-raises"})
            continue
        m = max(e["occ_err"] for e in errs)
        en = max(e["en_err"] for e in errs)
        stats["accepted"] += 1
        stats["worst_accepted_occ_err"] = max(stats["worst_accepted_occ_err"], m)
        ctx.count_case({"kind": "krylov-budget", "n": prob["n"], "steps": prob["steps"],
                        "max_krylov_dim": case["cfg"]["max_krylov_dim"], "refused": False, "occ_err": m}, nontrivial=True)
        if m > OCC_TOL or en > EN_TOL * max(1.0, prob["n"]):
            ctx.violation(f"emu-mps answered a run whose local Krylov exponentials cannot converge within max_krylov_dim="
                          f"{case['cfg']['max_krylov_dim']} instead of refusing it (occ err {m:.3g}, energy err {en:.3g})",
                          {"case": _ser(case), "errors": errs, "atom_order": order, "finding_key": "krylov-budget-answered"})


# ---- environment ("bath") kernels: exact tie of Model/Bath.v + implementation-level oracle ------------------------
BATH_HEADER = """From Coq Require Import ZArith List Bool.
Import ListNotations.
From EV Require Import Model.TransferMat Model.MPSAlg Model.Bath.
Open Scope Z_scope."""


def _gi_tensor(rng, shape, lo=-3, hi=3, density=1.0):
    import torch

    t = torch.zeros(shape, dtype=torch.complex128)
    flat = t.view(-1)
    for k in range(flat.numel()):
        if rng.random() < density:
            flat[k] = complex(rng.randint(lo, hi), rng.randint(lo, hi))
    return t


def _gi(z):
    z = complex(z)
    return f"({int(round(z.real))},{int(round(z.imag))})"


def _raw3(t):
    if t.ndim == 4:
        t = t.reshape(t.shape[0], t.shape[1] * t.shape[2], t.shape[3])
    l, p_, r = t.shape
    data = "[" + ";".join("[" + ";".join("[" + ";".join(_gi(x) for x in row) + "]" for row in mat) + "]"
                          for mat in t.tolist()) + "]"
    return f"(of_raw (({l}%nat,{p_}%nat,{r}%nat),{data}))", data


def _einsum_right(R, A, W):
    import torch
    return torch.einsum("aix,bijy,cjz,xyz->abc", A.conj(), W, A, R)


def _einsum_left(L, A, W):
    import torch
    return torch.einsum("abc,aix,bijy,cjz->xyz", L, A.conj(), W, A)


def bath_stage(ctx, n_cases):
    """(1) new_left_bath / new_right_bath / right_baths on Gaussian-integer tensors (complex, NON-symmetric operator
    factors) == vm_compute of Model/Bath.v, entry by entry (float64 is exact on this data); (2) implementation-level
    oracle on the same inputs: the kernels equal the einsum definition, the environment contraction is the same at
    every cut and equals <psi|H|psi> of the dense contraction, EffectiveHamiltonian applies the projected operator."""
    import torch
    from vlib.coqparse import parse
    import emu_mps.utils as U
    import emu_mps.solver_utils as SU
    from emu_mps import MPS, MPO

    rng = ctx.rng
    ev = common.CoqEval("C02bath", BATH_HEADER)
    items = []
    for ci in range(n_cases):
        d = rng.choice([2, 2, 3])
        n = rng.randint(2, 4)
        sb = [1] + [rng.randint(1, 3) for _ in range(n - 1)] + [1]
        ob = [1] + [rng.randint(1, 3) for _ in range(n - 1)] + [1]
        As = [_gi_tensor(rng, (sb[k], d, sb[k + 1]), -2, 2) for k in range(n)]
        Ws = [_gi_tensor(rng, (ob[k], d, d, ob[k + 1]), -2, 2, density=rng.choice([1.0, 0.6])) for k in range(n)]
        k = rng.randrange(n)
        A, W = As[k], Ws[k]
        L = _gi_tensor(rng, (sb[k], ob[k], sb[k]), -2, 2)
        R = _gi_tensor(rng, (sb[k + 1], ob[k + 1], sb[k + 1]), -2, 2)
        case = {"kind": "bath", "d": d, "n": n, "site": k, "state_bonds": sb, "op_bonds": ob,
                "A": [[[[x.real, x.imag] for x in r] for r in m] for m in A.tolist()],
                "W": [[[[[x.real, x.imag] for x in r] for r in m] for m in o] for o in W.tolist()],
                "L": [[[[x.real, x.imag] for x in r] for r in m] for m in L.tolist()],
                "R": [[[[x.real, x.imag] for x in r] for r in m] for m in R.tolist()]}
        a_expr, _ = _raw3(A)
        w_expr, _ = _raw3(W)
        _, l_data = _raw3(L)
        _, r_data = _raw3(R)
        # real code
        got_r = SU.new_right_bath(R.clone(), A.clone(), W.clone())
        got_l = U.new_left_bath(L.clone(), A.clone(), W.clone())
        ev.add(f"bath_list (dl {a_expr}, dl {w_expr}, dl {a_expr}) "
               f"(right_step gi_ops {d}%nat {a_expr} {w_expr} (bath_of_list gi_ops {r_data}))")
        ev.add(f"bath_list (dr {a_expr}, dr {w_expr}, dr {a_expr}) "
               f"(left_step gi_ops {d}%nat {a_expr} {w_expr} (bath_of_list gi_ops {l_data}))")
        # whole chain through right_baths + left sweep, contraction at every cut
        state = MPS([a.clone() for a in As], eigenstates=("r", "g") if d == 2 else ("r", "g", "x"),
                    orthogonality_center=0)
        op = MPO([w.clone() for w in Ws])
        rb = SU.right_baths(state, op, final_qubit=0)  # rb[j] = bath of the last j sites
        lb = [torch.ones(1, 1, 1, dtype=torch.complex128)]
        for q in range(n):
            lb.append(U.new_left_bath(lb[-1], As[q], Ws[q]))
        cuts = [complex(torch.tensordot(lb[q], rb[n - q], 3)) for q in range(n + 1)]
        chain_a = "[" + ";".join(_raw3(a)[0] for a in As) + "]"
        chain_w = "[" + ";".join(_raw3(w)[0] for w in Ws) + "]"
        ev.add(f"pair3 gi_ops (1,1,1)%nat (ones3 gi_ops) (rbath_m gi_ops {d}%nat {chain_a} {chain_w} (ones3 gi_ops))")
        items.append((case, got_r, got_l, cuts, (R, A, W, L), (As, Ws, d)))
    ok, detail = True, ""
    try:
        outs = ev.run(shard=30, jobs=8)
    except common.CoqEvalError as ex:
        outs, ok, detail = None, False, str(ex)

    def tolist(t):
        return [[[(int(round(x.real)), int(round(x.imag))) for x in r] for r in m] for m in t.tolist()]

    for idx, (case, got_r, got_l, cuts, (R, A, W, L), (As, Ws, d)) in enumerate(items):
        ctx.count_case({k: case[k] for k in ("kind", "d", "n", "site", "state_bonds", "op_bonds")}, nontrivial=True)
        if outs is not None:
            mr, ml, me = parse(outs[3 * idx]), parse(outs[3 * idx + 1]), parse(outs[3 * idx + 2])
            norm = lambda v: json.loads(json.dumps(v))  # noqa: E731
            if ok and (norm(mr) != norm(tolist(got_r)) or norm(ml) != norm(tolist(got_l))
                       or norm(me) != norm((int(round(cuts[0].real)), int(round(cuts[0].imag))))):
                ok = False
                detail = (f"case={ {k: case[k] for k in ('d', 'n', 'site', 'state_bonds', 'op_bonds')} } "
                          f"model_right={str(mr)[:200]} real_right={str(tolist(got_r))[:200]} "
                          f"model_left={str(ml)[:200]} real_left={str(tolist(got_l))[:200]} model_E={me} real_E={cuts[0]}")
        # implementation-level oracle (independent of the Coq model)
        bad = None
        if not torch.equal(got_r, _einsum_right(R, A, W)):
            bad = "new_right_bath differs from sum conj(A) W A R (operator factor used transposed / wrong legs?)"
        elif not torch.equal(got_l, _einsum_left(L, A, W)):
            bad = "new_left_bath differs from sum L conj(A) W A"
        elif any(c != cuts[0] for c in cuts):
            bad = f"contraction of left and right environments depends on the cut: {cuts}"
        else:
            # dense <psi|H|psi>
            psi = As[0]
            for a in As[1:]:
                psi = torch.tensordot(psi, a, 1)
            psi = psi.reshape(-1)
            Hd = Ws[0]
            for w in Ws[1:]:
                Hd = torch.tensordot(Hd, w, 1)
            n = len(As)
            perm = [0] + [1 + 2 * q for q in range(n)] + [2 + 2 * q for q in range(n)] + [2 * n + 1]
            Hd = Hd.permute(perm).reshape(d ** n, d ** n)
            e = complex(psi.conj() @ (Hd @ psi))
            if e != cuts[0]:
                bad = f"environment contraction {cuts[0]} differs from dense <psi|H|psi> = {e}"
        if bad is None and len(As) >= 2:
            # EffectiveHamiltonian on the pair (0,1) with the real right bath: equals the projected dense operator
            n = len(As)
            rbath = SU.right_baths(MPS([a.clone() for a in As], eigenstates=("r", "g") if d == 2 else ("r", "g", "x"),
                                       orthogonality_center=0), MPO([w.clone() for w in Ws]), final_qubit=2)[-1]
            lbath = torch.ones(1, 1, 1, dtype=torch.complex128)
            st, _dev, opf = SU.make_op(1.0, [As[0].clone(), As[1].clone()], (lbath, rbath), [Ws[0], Ws[1]], dim=d)
            got = opf(st)
            W2 = torch.tensordot(Ws[0], Ws[1], 1)  # (l,o1,i1,o2,i2,r)
            x = torch.tensordot(As[0], As[1], 1)   # (l,s1,s2,r)
            want = torch.einsum("abc,bpiqjy,cijz,xyz->apqx", lbath, W2, x, rbath).reshape(got.shape)
            if not torch.equal(got, want):
                bad = "EffectiveHamiltonian(make_op) differs from L W W x R contracted by definition"
        if bad:
            ctx.violation("emu-mps environment kernels: " + bad, {"case": case, "finding_key": "bath-kernel-wrong"})
    ctx.obligation("correspondence:Model.Bath(Z[i])==new_left_bath/new_right_bath/right_baths (exact, entrywise)",
                   ok, detail, kind="correspondence")


def _ser(case):
    p = case["prob"]
    out = {"reorder": case["reorder"], "prob": {k: (v.tolist() if hasattr(v, "tolist") else v) for k, v in p.items()}}
    if "slm" in case:
        out["slm"] = case["slm"]
    if case.get("perm") is not None:
        out["perm"] = case["perm"]
    for k in ("more_obs", "fidelity", "shuffle", "cfg"):
        if case.get(k) is not None and case.get(k) is not False:
            out[k] = case[k]
    return out


def _deser(c):
    p = dict(c["prob"])
    for k in ("omega", "delta", "phi", "U"):
        p[k] = np.array(p[k])
    out = {"reorder": c["reorder"], "prob": p}
    if "slm" in c:
        out["slm"] = c["slm"]
    if c.get("perm") is not None:
        out["perm"] = c["perm"]
    for k in ("more_obs", "fidelity", "shuffle", "cfg"):
        if c.get(k) is not None:
            out[k] = c[k]
    return out


def run(ctx):
    common.coq_make(["Model/MpsMachine.vo"])
    common.standard_proof_stage(ctx, "C02", ["Properties/C02.vo"])
    trace_stage(ctx, "TDVP", ctx.n(60, 1200), "C02trace")
    bath_stage(ctx, ctx.n(40, 400))
    e2e_stage(ctx, ctx.n(10, 150))
    probs = krylov_entry_problems()
    ctx.obligation("correspondence:evolve_pair/evolve_single call the refusing Krylov entry point krylov_exp (source shape)",
                   not probs, "; ".join(probs), kind="correspondence")
    krylov_budget_stage(ctx, ctx.n(8, 80))
    ctx.rule = ("(a) scripted stepping cases N in 2..9, 1-5 steps, int/fractional/irregular times, malformed "
                "(short target_times, extra rows): real MPSBackendImpl with stubbed kernels vs vm_compute of the "
                "Gallina machine, every event and the attribute tuple after every progress(); non-trivial = >= 10 "
                "events. (b) end-to-end runs (Rydberg/XY, local/global drives, reordering on/off) vs an independent "
                "dense expm reference of the per-step Hamiltonian. (c) environment kernels: random Gaussian-integer state/operator "
                "factors (complex, non-symmetric operator factors, d = 2/3, bonds 1-3, chains of 2-4 sites): new_left_bath, "
                "new_right_bath, right_baths vs vm_compute of Model/Bath.v entry by entry, plus the definitional einsum, "
                "cut-independence, dense <psi|H|psi> and EffectiveHamiltonian oracles on the real code. (d) Krylov budget: end-to-end runs with "
                "max_krylov_dim in {2,3,4,6}: a run is either refused (RecursionError of krylov_exp) or meets the same tolerances as (b); "
                "evolve_pair / evolve_single are pinned (ast) to the refusing entry point krylov_exp with the configured tolerances.")
    ctx.trusted_base += ["hand-written Model/MpsMachine.v, tied by the trace correspondence",
                         "dense reference tools/props/_dense_ref.py (scipy expm)"]
    ctx.assumptions += ["numerical kernels (evolve_pair/evolve_single Krylov + truncation) are NOT proved accurate: "
                        f"validated end-to-end with occupation tolerance {OCC_TOL}",
                        "agreement with Pulser's own emulator cannot be checked (pulser-simulation not installed)"]
    ctx.extra["not_proved"] = ["accuracy of TDVP projection/truncation and of the Krylov exponential",
                               "N = 2 corner case is covered by the correspondence only (theorems are for N >= 3)"]


def replay(ctx, path):
    rp = json.load(open(path))
    if rp.get("case", {}).get("kind") == "bath":
        import torch
        import emu_mps.utils as U
        import emu_mps.solver_utils as SU
        c = rp["case"]
        mk = lambda v: torch.view_as_complex(torch.tensor(v, dtype=torch.float64).contiguous())  # noqa: E731
        A, W, L, R = mk(c["A"]), mk(c["W"]), mk(c["L"]), mk(c["R"])
        gr, gl = SU.new_right_bath(R.clone(), A.clone(), W.clone()), U.new_left_bath(L.clone(), A.clone(), W.clone())
        okr, okl = torch.equal(gr, _einsum_right(R, A, W)), torch.equal(gl, _einsum_left(L, A, W))
        print("replay: new_right_bath == definition:", okr, " new_left_bath == definition:", okl)
        if not (okr and okl):
            ctx.violation("replayed: environment kernel differs from its definition",
                          {"case": c, "finding_key": rp.get("finding_key")})
        return
    if "case" in rp and "prob" in rp["case"]:
        case = _deser(rp["case"])
        errs, order = run_e2e(case)
        print("replay errors:", errs, "atom_order:", order)
        if max(e["occ_err"] for e in errs) > OCC_TOL:
            ctx.violation("replayed: observables differ from the dense reference",
                          {"case": rp["case"], "errors": errs, "finding_key": rp.get("finding_key")})


META = {
    "category": "proof",
    "technique": "Coq proof of the TDVP kernel schedule (all N>=2, all step lists) over a state-machine model + exact trace correspondence; dense-reference falsifier",
    "text": ("Proved for every N>=3, every target-time list and every oracle stream: a TDVP run performs exactly "
             "#intervals*(2N-3) progress() calls (N=2 corner case: one pair evolution per interval, proved separately; "
             "N<2 is refused by the constructor) without any assertion/bath-stack failure; its complete trace of kernel "
             "calls and side effects equals a closed form; results are filled once per step, in order, at the step's "
             "end time; row k+1 of the drives is installed for step k+1; the kernel sequence of a step is a palindrome "
             "(symmetric second-order splitting) and, over any monoid of propagators whose local kernels satisfy K(-t)K(t)=1 "
             "(a premise: exact for exponentials, an idealisation for projected/truncated kernels), the step taken "
             "backwards in time undoes the step (self-adjoint one-step method); the fuelled loop `while not finished: "
             "progress()` of MPSBackend._run (source shape pinned) terminates with that trace. Environment tensors: over every "
             "commutative ring with involution the left and right bath updates are adjoint under the contraction over a cut, hence the "
             "contraction of left and right environments is the same at every cut of every chain (all lengths, bond and physical "
             "dimensions) - the bath model is tied exactly (Gaussian-integer tensors) to new_left_bath/new_right_bath/right_baths; every right "
             "environment is the dense operator seen through the state, sum_ij conj(amp_a i) O_b(i,j) amp_c j (C02_right_environment_is_dense). "
             "evolve_pair / evolve_single are pinned to the refusing Krylov entry point krylov_exp (ast + identity of the function object), "
             "and runs with a small Krylov budget (max_krylov_dim 2-6, incl. stiff two-atom runs where two-site TDVP is exact) are either "
             "refused or as accurate as any other run. "
             "The machine model is tied to mps_backend_impl.py by an exact "
             "event-and-attribute trace correspondence with all kernels stubbed. Accuracy of the numerical kernels is "
             "NOT proved; it is validated end to end against an independent dense expm reference."),
    "note": ("Trusted: Coq kernel+VM; the hand-written machine model (validated by the trace correspondence on every "
             "run); the stubs' faithfulness to kernel signatures; scipy expm for the falsifier. Theorems closed under "
             "the global context (no axioms), except C02_step_time_symmetric which is stated over R (stdlib real axioms)."),
}
