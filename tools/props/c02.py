"""C02 — emu-mps TDVP runs reproduce the Pulser Hamiltonian dynamics (DESIGN.md §4 C02)."""
import logging
import warnings

import numpy as np

from props import _dense_ref as D
from props import _mps_trace as T
from vlib import common
from vlib.coqparse import parse

OCC_TOL = 1e-3   # occupations, correlations: correct code gives <= 6.8e-5 over 8100 thorough cases (6 seeds)
EN_TOL = 2e-3    # times max(1, n); correct code gives <= 5e-4 absolute over 8100 thorough cases
M2_TOL = 1e-2   # relative to max(1, ||H||^2); correct code gives <= 9.4e-4 over 8100 thorough cases
FID_TOL = 5e-3   # phase sensitive (superposition targets): correct code gives <= 4.5e-4; a frame mix-up gives >= 9e-3


def run_loop_shape(ctx):
    """Fail-closed source shape: MPSBackend._run is `while not impl.is_finished(): impl.progress()` followed only by the
    autosave clean-up and `return impl.results` -- the loop the Gallina [run] models (the trace harness drives the
    same two methods itself, so the loop's own shape is pinned here)."""
    import ast
    src = (common.REPO / "emu_mps" / "mps_backend.py").read_text()
    ok, why = False, "MPSBackend._run not found"
    for cls in [n for n in ast.parse(src).body if isinstance(n, ast.ClassDef) and n.name == "MPSBackend"]:
        for fn in [n for n in cls.body if isinstance(n, ast.FunctionDef) and n.name == "_run"]:
            body = [b for b in fn.body if not (isinstance(b, ast.Expr) and isinstance(b.value, ast.Constant))]
            arg = fn.args.args[0].arg if fn.args.args else None
            w = body[0] if body else None
            want_test = f"not {arg}.is_finished()"
            want_body = [f"{arg}.progress()"]
            if not isinstance(w, ast.While) or w.orelse:
                why = "first statement is not a plain while loop"
            elif ast.unparse(w.test) != want_test or [ast.unparse(b) for b in w.body] != want_body:
                why = f"loop is `while {ast.unparse(w.test)}: {[ast.unparse(b) for b in w.body]}`"
            elif any(isinstance(x, (ast.While, ast.For)) or "progress" in ast.unparse(x) for b in body[1:] for x in ast.walk(b)):
                why = "further stepping after the loop"
            elif not (isinstance(body[-1], ast.Return) and ast.unparse(body[-1].value) == f"{arg}.results"):
                why = "does not return impl.results"
            else:
                ok, why = True, ""
    ctx.obligation("source-shape:MPSBackend._run == `while not finished: progress()` (Model.MpsMachine.run)", ok, why,
                   kind="translator")


def trace_stage(ctx, kind, n_cases, tag):
    """model <-> implementation trace correspondence (exact / bit-exact on times)"""
    run_loop_shape(ctx)
    cases = [T.gen_case(ctx.rng, kind, malformed=(i % 9 == 8)) for i in range(n_cases)]
    impl = [T.run_impl(c) for c in cases]
    ok, detail, hist = True, "", {}
    try:
        ev = common.CoqEval(tag, T.HEADER)
        for c in cases:
            ev.add(T.model_expr(c))
        outs = ev.run()
        for c, r, o in zip(cases, impl, outs):
            good, d = T.compare(c, r, parse(o))
            if r.get("stale_makeH"):
                ctx.violation(
                    "the MPO Hamiltonian was rebuilt from a stale interaction matrix (not the one returned by the "
                    f"latest interaction_matrix(t) query): (used version, latest version, event#) = {r['stale_makeH'][:3]}",
                    {"case": {k: v for k, v in c.items()}, "stale": r["stale_makeH"], "finding_key": "stale-interaction-matrix"})
            nev = len(r["events"])
            ctx.count_case({"kind": kind, "N": c["N"], "steps": c["steps"], "times": c["times"][:4],
                            "outcome": r["outcome"], "events": nev, "malformed": c.get("malformed")},
                           nontrivial=nev >= 10)
            key = f"{kind}/{r['outcome']}"
            hist[key] = hist.get(key, 0) + 1
            if not good and ok:
                ok, detail = False, f"case={ {k: c[k] for k in ('kind','N','steps','times')} } {d}"
                ctx.extra["first_trace_disagreement"] = {"case": {k: v for k, v in c.items()}, "detail": d}
    except (common.CoqEvalError, ValueError) as ex:
        ok, detail = False, str(ex)
    ctx.extra.setdefault("trace_distribution", {}).update(hist)
    ctx.obligation(f"correspondence:Model.MpsMachine({kind})==mps_backend_impl (events+snapshots, exact)",
                   ok, detail, kind="correspondence")
    return ok


def e2e_case(rng, n=None, xy=False, reorder=False, local=True, slm=False):
    n = n or rng.choice([2, 3, 3, 4, 5])
    steps = rng.choice([6, 10, 14])
    case = dict(prob=D.random_problem(rng, n, steps, dt=rng.choice([5.0, 10.0]), xy=xy, local=local),
                reorder=reorder)
    if reorder and rng.random() < 0.7:
        perm = list(range(n))
        # not the identity and, whenever the register allows it (n >= 3), not its own inverse either: a gather/scatter
        # mix-up (perm vs inverse perm) is invisible on involutions
        for _ in range(200):
            rng.shuffle(perm)
            inv = [perm.index(i) for i in range(n)]
            if perm != list(range(n)) and (n < 3 or inv != perm):
                break
        case["perm"] = list(perm)
    if slm:
        # SLM-like schedule: interactions of some atoms switched off until t_switch (a grid time or not)
        times = case["prob"]["times"]
        masked = sorted(rng.sample(range(n), rng.randint(1, max(1, n - 1))))
        k = rng.randint(1, steps - 1)
        case["slm"] = {"masked": masked, "t_switch": times[k] + rng.choice([0.0, 0.3 * (times[k + 1] - times[k])])}
    return case


def U_of_t_factory(case):
    prob = case["prob"]
    if "slm" not in case:
        return lambda t: prob["U"]
    Um = np.array(prob["U"], dtype=float).copy()
    for a in case["slm"]["masked"]:
        Um[a, :] = 0.0
        Um[:, a] = 0.0
    ts = case["slm"]["t_switch"]
    return lambda t: Um if t < ts else prob["U"]


def run_e2e(case):
    import emu_mps
    from pulser.backend import CorrelationMatrix, Energy, EnergySecondMoment, EnergyVariance, Fidelity, Occupation

    prob = case["prob"]
    n = prob["n"]
    if "slm" in case:
        # a Hamiltonian rebuilt wrongly for a single step shows at that step only: look at every step
        et = [k / prob["steps"] for k in range(1, prob["steps"] + 1)]
    else:
        et = [0.5, 1.0] if prob["steps"] % 2 == 0 else [1.0]
    with warnings.catch_warnings():
        warnings.simplefilter("ignore")
        obs = [Occupation(evaluation_times=et), Energy(evaluation_times=et)]
        if case.get("more_obs"):
            obs += [CorrelationMatrix(evaluation_times=et), EnergyVariance(evaluation_times=et),
                    EnergySecondMoment(evaluation_times=et)]
        target = None
        if case.get("fidelity") and not prob["xy"]:
            # a target given in REGISTER order that is not symmetric under atom permutations
            b1, b2 = case["fidelity"]
            amps = {b1: 0.6, b2: 0.8j} if b1 != b2 else {b1: 1.0}
            obs.append(Fidelity(emu_mps.MPS.from_state_amplitudes(eigenstates=("r", "g"), amplitudes=amps),
                                evaluation_times=et))
            target = np.zeros(2 ** n, dtype=complex)
            for b, a in amps.items():
                target[int("".join("1" if c == "r" else "0" for c in b), 2)] = a
        if case.get("shuffle") is not None:
            # all observables due at one time share one state object: the order they are listed in must not matter
            import random as _random
            _random.Random(case["shuffle"]).shuffle(obs)
        cfg = emu_mps.MPSConfig(observables=obs,
                                log_level=logging.CRITICAL, optimize_qubit_ordering=case["reorder"])
        Uf = U_of_t_factory(case)
        import emu_mps.optimatrix as optimat
        import torch
        saved = optimat.minimize_bandwidth
        if case.get("perm") is not None:
            # force a non-identity internal qubit order (the optimiser often returns the identity on small registers)
            optimat.minimize_bandwidth = lambda *a, **k: torch.tensor(case["perm"])
        try:
            res = emu_mps.MPSBackend._run_from_sequence_data(D.to_sequence_data(prob, U_of_t=Uf), cfg)
        finally:
            optimat.minimize_bandwidth = saved
    # emu-mps queries the matrix at the midpoint of step 0 and at the start of every later step
    times = prob["times"]
    first_mid = 0.5 * (times[0] + times[1])
    ref, Hs = D.evolve(prob["omega"], prob["delta"], prob["phi"],
                       lambda t: Uf(first_mid) if t == times[0] else Uf(t), prob["times"], xy=prob["xy"])
    out = []
    for t in et:
        k = round(t * prob["steps"])
        occ = np.array([float(x) for x in res.get_result("occupation", t)])
        en = float(res.get_result("energy", t))
        e = dict(t=t, occ_err=float(np.abs(occ - D.occupation(ref[k], prob["n"])).max()),
                 en_err=abs(en - D.energy(ref[k], Hs[k - 1])))
        if case.get("more_obs"):
            H = Hs[k - 1]
            e1 = D.energy(ref[k], H)
            e2 = float(np.real(np.vdot(ref[k], H @ (H @ ref[k]))))
            corr = np.array([[complex(x).real for x in row] for row in res.get_result("correlation_matrix", t)])
            e["corr_err"] = float(np.abs(corr - D.correlation(ref[k], n)).max())
            # <H^2> weights the high-energy tail, which is what TDVP truncation at the default precision loses first (2% of
            # <H^2> observed at 1e-5, 7e-4 at 1e-8): the error is measured against ||H||^2, not against <H^2>
            h2 = max(1.0, float(np.linalg.norm(H, 2)) ** 2)
            e["m2_err"] = abs(float(res.get_result("energy_second_moment", t)) - e2) / h2
            e["var_err"] = abs(float(res.get_result("energy_variance", t)) - (e2 - e1 * e1)) / h2
        if target is not None:
            tag = [x for x in res.get_result_tags() if x.startswith("fidelity")][0]
            e["fid_err"] = abs(float(res.get_result(tag, t)) - abs(np.vdot(target, ref[k])) ** 2)
        out.append(e)
    return out, tuple(res.atom_order)


def e2e_stage(ctx, n_cases):
    worst = 0.0
    for i in range(n_cases):
        case = e2e_case(ctx.rng, xy=(i % 4 == 3), reorder=(i % 2 == 1), local=(i % 3 != 2), slm=(i % 5 in (1, 3, 4)))
        prob = case["prob"]
        # "each observable it reports": beyond occupation/energy also correlations, energy moments and (for targets
        # given in register order, with and without a requested reordering) the fidelity
        case["more_obs"] = i % 2 == 0 or i % 3 == 0
        case["shuffle"] = ctx.rng.randrange(10 ** 6)
        if i % 4 in (1, 2) and not prob["xy"]:
            bits = ["".join(ctx.rng.choice("rg") for _ in range(prob["n"])) for _ in range(2)]
            if len(set(bits[0])) == 1:  # not permutation symmetric
                bits[0] = "r" + "g" * (prob["n"] - 1)
            case["fidelity"] = bits
        try:
            errs, order = run_e2e(case)
        except Exception as ex:  # a run that raises on an accepted sequence
            ctx.violation(f"emu-mps raised on a valid noiseless sequence: {ex!r}",
                          {"case": _ser(case), "finding_key": "e2e-raises"})
            continue
        m = max(e["occ_err"] for e in errs)
        worst = max(worst, m)
        ctx.extra["e2e_worst_energy_error"] = max(ctx.extra.get("e2e_worst_energy_error", 0.0), max(e["en_err"] for e in errs))
        extra_bad = [(k2, e[k2]) for e in errs for k2, tol in (("corr_err", OCC_TOL), ("m2_err", M2_TOL), ("var_err", M2_TOL),
                                                              ("fid_err", FID_TOL)) if e.get(k2, 0.0) > tol]
        for k2 in ("corr_err", "m2_err", "var_err", "fid_err"):
            ctx.extra["e2e_worst_" + k2] = max(ctx.extra.get("e2e_worst_" + k2, 0.0), max(e.get(k2, 0.0) for e in errs))
        if extra_bad:
            ctx.violation(f"emu-mps observable {extra_bad[0][0][:-4]} differs from its value on the exactly evolved state by "
                          f"{extra_bad[0][1]:.3g} (reordering {'on' if case['reorder'] else 'off'})",
                          {"case": _ser(case), "errors": errs, "atom_order": order,
                           "finding_key": "observable-" + extra_bad[0][0][:-4]})
        ctx.count_case({"kind": "e2e", "n": prob["n"], "steps": prob["steps"], "xy": prob["xy"],
                        "reorder": case["reorder"], "occ_err": m}, nontrivial=True)
        if m > OCC_TOL or max(e["en_err"] for e in errs) > EN_TOL * max(1.0, prob["n"]):
            key = "slm-schedule" if "slm" in case else ("reorder-local-drives" if case["reorder"] else "tdvp-dynamics")
            ctx.violation(
                f"emu-mps observables differ from exact evolution of the per-step Hamiltonian (occ err {m:.3g})",
                {"case": _ser(case), "errors": errs, "atom_order": order, "finding_key": key})
    ctx.extra["e2e_worst_occupation_error"] = worst


def _ser(case):
    p = case["prob"]
    out = {"reorder": case["reorder"], "prob": {k: (v.tolist() if hasattr(v, "tolist") else v) for k, v in p.items()}}
    if "slm" in case:
        out["slm"] = case["slm"]
    if case.get("perm") is not None:
        out["perm"] = case["perm"]
    for k in ("more_obs", "fidelity", "shuffle"):
        if case.get(k) is not None and case.get(k) is not False:
            out[k] = case[k]
    return out


def _deser(c):
    p = dict(c["prob"])
    for k in ("omega", "delta", "phi", "U"):
        p[k] = np.array(p[k])
    out = {"reorder": c["reorder"], "prob": p}
    if "slm" in c:
        out["slm"] = c["slm"]
    if c.get("perm") is not None:
        out["perm"] = c["perm"]
    for k in ("more_obs", "fidelity", "shuffle"):
        if c.get(k) is not None:
            out[k] = c[k]
    return out


def run(ctx):
    common.coq_make(["Model/MpsMachine.vo"])
    common.standard_proof_stage(ctx, "C02", ["Properties/C02.vo"])
    trace_stage(ctx, "TDVP", ctx.n(60, 1200), "C02trace")
    e2e_stage(ctx, ctx.n(10, 150))
    ctx.rule = ("(a) scripted stepping cases N in 2..9, 1-5 steps, int/fractional/irregular times, malformed "
                "(short target_times, extra rows): real MPSBackendImpl with stubbed kernels vs vm_compute of the "
                "Gallina machine, every event and the attribute tuple after every progress(); non-trivial = >= 10 "
                "events. (b) end-to-end runs (Rydberg/XY, local/global drives, reordering on/off) vs an independent "
                "dense expm reference of the per-step Hamiltonian.")
    ctx.trusted_base += ["hand-written Model/MpsMachine.v, tied by the trace correspondence",
                         "dense reference tools/props/_dense_ref.py (scipy expm)"]
    ctx.assumptions += ["numerical kernels (evolve_pair/evolve_single Krylov + truncation) are NOT proved accurate: "
                        f"validated end-to-end with occupation tolerance {OCC_TOL}",
                        "agreement with Pulser's own emulator cannot be checked (pulser-simulation not installed)"]
    ctx.extra["not_proved"] = ["accuracy of TDVP projection/truncation and of the Krylov exponential",
                               "N = 2 corner case is covered by the correspondence only (theorems are for N >= 3)"]


def replay(ctx, path):
    import json
    rp = json.load(open(path))
    if "case" in rp and "prob" in rp["case"]:
        case = _deser(rp["case"])
        errs, order = run_e2e(case)
        print("replay errors:", errs, "atom_order:", order)
        if max(e["occ_err"] for e in errs) > OCC_TOL:
            ctx.violation("replayed: observables differ from the dense reference",
                          {"case": rp["case"], "errors": errs, "finding_key": rp.get("finding_key")})


META = {
    "category": "proof",
    "technique": "Coq proof of the TDVP kernel schedule (all N>=2, all step lists) over a state-machine model + exact trace correspondence; dense-reference falsifier",
    "text": ("Proved for every N>=3, every target-time list and every oracle stream: a TDVP run performs exactly "
             "#intervals*(2N-3) progress() calls (N=2 corner case: one pair evolution per interval, proved separately; "
             "N<2 is refused by the constructor) without any assertion/bath-stack failure; its complete trace of kernel "
             "calls and side effects equals a closed form; results are filled once per step, in order, at the step's "
             "end time; row k+1 of the drives is installed for step k+1; the kernel sequence of a step is a palindrome "
             "(symmetric second-order splitting) and, over any monoid of propagators whose local kernels satisfy K(-t)K(t)=1 "
             "(a premise: exact for exponentials, an idealisation for projected/truncated kernels), the step taken "
             "backwards in time undoes the step (self-adjoint one-step method); the fuelled loop `while not finished: "
             "progress()` of MPSBackend._run (source shape pinned) terminates with that trace. The machine model is tied to mps_backend_impl.py by an exact "
             "event-and-attribute trace correspondence with all kernels stubbed. Accuracy of the numerical kernels is "
             "NOT proved; it is validated end to end against an independent dense expm reference."),
    "note": ("Trusted: Coq kernel+VM; the hand-written machine model (validated by the trace correspondence on every "
             "run); the stubs' faithfulness to kernel signatures; scipy expm for the falsifier. Theorems closed under "
             "the global context (no axioms), except C02_step_time_symmetric which is stated over R (stdlib real axioms)."),
}
