"""C29 — physically equivalent inputs give equivalent results (DESIGN.md §4 C29).

Coq (Properties/C29.v, over the dense Hamiltonian that C06_H_apply_dense proves emu-sv applies, any ring with involution):
phase_offset_covariance  H(Omega, phi + c) = D_u H(Omega, phi) D_u^-1 entrywise (D_u = diag(u^popcount k), u conj u = 1),
D_u preserves every basis weight, phase_negation_conjugate  H(Omega, -phi) = conj H(Omega, phi), and time_reversal
H(Omega, -phi, -delta, -U) = - conj H(Omega, phi + pi, delta, U).
Tie of the premises to the code, checked every run:
 (a) the emulators receive only a SequenceData (field list checked), and on real pulser sequences the SequenceData of a
     transformed sequence is related to the original one exactly as the theorems assume (rigid motion: same drives, U equal
     to rounding; phase offset: only phi moves, by c mod 2 pi; negation: phi -> -phi (time reversal: also delta -> -delta,
     U -> -U); serialisation round trip: identical);
 (b) operator level, both backends: RydbergHamiltonian * v and the contracted MPO of make_H/update_H satisfy the two
     identities numerically on random drives (N = 2..5).
Falsifier (metamorphic, end to end through Backend.run on real pulser sequences, both backends): rigid motions /
reflections, constant phase offsets, time reversal (phases, detunings and interactions negated: same weights, energy
negated), Sequence.from_abstract_repr(seq.to_abstract_repr()); phases negated ALONE is not an equivalence (both emulators
and the independent dense reference change alike; recorded, and the emulators are compared with the reference); compares
occupations, correlation matrices, energies, basis-state probabilities (from the final state) and sampled bitstrings
(z-test of the transformed run's counts against the original run's exact probabilities).
"""
import dataclasses
import json
import logging
import math
import warnings

import numpy as np

from vlib import common

TWO_PI = 2 * math.pi
# calibrated on the unchanged tree (see ctx.extra["worst_difference"]): emu-sv <= ~1e-9, emu-mps (precision 1e-8) <= ~1e-6
TOL = {"sv": 1e-6, "mps": 2e-4, "dmrg": 2e-3}
EN_TOL = {"sv": 1e-5, "mps": 2e-3, "dmrg": 2e-2}
OP_TOL = 1e-10      # operator identities in float64 (entries O(10)): rounding level 1e-15 * 1e5
SD_TOL_U = 1e-9     # relative agreement of U under a rigid motion (positions O(10) um, r^-6)
Z_SCORE = 7.0       # per-outcome two-sided tail < 3e-12; < 1e-6 family-wise over all outcomes of a thorough run


# ---- sequences ---------------------------------------------------------------------------------------------------------
def gen_spec(rng, n=None):
    n = n or rng.choice([2, 3, 3, 4, 5])
    pts = []
    while len(pts) < n:
        p = (rng.uniform(-12, 12), rng.uniform(-12, 12))
        if all(math.dist(p, q) >= 7.5 for q in pts):
            pts.append(p)
    pulses = []
    for _ in range(rng.randint(2, 4)):
        local = rng.random() < 0.4
        pulses.append({"channel": "loc" if local else "glob",
                       "target": rng.randrange(n) if local else None,
                       "duration": rng.choice([52, 80, 100, 152]),
                       "shape": rng.choice(["const", "blackman", "ramp"]),
                       "amp": rng.uniform(1.0, 8.0), "det0": rng.uniform(-6, 6), "det1": rng.uniform(-6, 6),
                       "phase": rng.choice([0.0, rng.uniform(0, TWO_PI), rng.uniform(0, TWO_PI)])})
    if all(p["phase"] == 0.0 for p in pulses):
        pulses[-1]["phase"] = rng.uniform(0.3, 6.0)
    return {"n": n, "positions": [list(p) for p in pts], "pulses": pulses}


SPECIAL_PHASES = [0.0, math.pi, -math.pi, math.pi / 2, TWO_PI]
ECHO_PATTERNS = [[0.0, math.pi], [0.0, math.pi, 0.0], [math.pi, 0.0, -math.pi], [0.0, math.pi / 2, math.pi],
                 [TWO_PI, math.pi], [math.pi / 2, -math.pi, 0.0, math.pi]]


def gen_echo_spec(rng, n=None):
    """echo / Ramsey patterns: every pulse phase is an exact multiple of pi/2 (as floats: 0, pi, -pi, pi/2, 2 pi), at least
    two different ones per sequence and at least one pi - the phases for which a 'real kernel' shortcut could apply"""
    n = n or rng.choice([2, 3, 4])
    spec = gen_spec(rng, n)
    if rng.random() < 0.6:
        phases = list(rng.choice(ECHO_PATTERNS))
    else:
        phases = [rng.choice(SPECIAL_PHASES) for _ in range(rng.randint(2, 4))]
        phases[0], phases[1] = rng.choice([0.0, TWO_PI]), rng.choice([math.pi, -math.pi])
    pulses = []
    for ph in phases:
        local = rng.random() < 0.2
        pulses.append({"channel": "loc" if local else "glob", "target": rng.randrange(n) if local else None,
                       "duration": rng.choice([52, 80, 100]), "shape": rng.choice(["const", "const", "blackman"]),
                       "amp": rng.uniform(4.0, 9.0), "det0": rng.uniform(-4, 4), "det1": rng.uniform(-4, 4), "phase": ph})
    spec["pulses"] = pulses
    spec["family"] = "echo"
    return spec


ID_FAMILIES = ["q", "int", "mixed", "unsorted-str", "unsorted-int", "digit-str"]


def qubit_ids(spec):
    """register labels of the atoms, in register order; spec["ids"] = list of ints / strings (JSON keeps the type),
    default "q0", "q1", ...  (0 and "0" are DIFFERENT pulser ids)"""
    return list(spec["ids"]) if spec.get("ids") is not None else [f"q{i}" for i in range(spec["n"])]


def make_ids(family, n, rng):
    if family == "int":          # pulser's default for Register.from_coordinates / square / rectangle without prefix
        return list(range(n))
    if family == "mixed":        # 0 and "0" side by side, ints and strings mixed
        pool = [0, "0", 1, "1", "a", 7, "7"]
        return pool[:n]
    if family == "unsorted-str":
        ids = ["d", "b", "e", "a", "c"][:n]
        return ids
    if family == "unsorted-int":
        ids = [3, 0, 4, 1, 2][:n]
        return ids
    if family == "digit-str":    # strings that look like (other atoms') integer positions
        return [str((i + 1) % n) for i in range(n)]
    return None


def with_ids(spec, family, rng):
    out = json.loads(json.dumps(spec))
    out["ids"] = make_ids(family, spec["n"], rng)
    out["id_family"] = family
    return out


def build(spec):
    import pulser
    from pulser.waveforms import BlackmanWaveform, ConstantWaveform, RampWaveform

    ids = qubit_ids(spec)
    reg = pulser.Register({ids[i]: tuple(p) for i, p in enumerate(spec["positions"])})
    seq = pulser.Sequence(reg, pulser.MockDevice)
    seq.declare_channel("glob", "rydberg_global")
    if any(p["channel"] == "loc" for p in spec["pulses"]):
        seq.declare_channel("loc", "rydberg_local", initial_target=ids[0])
    for p in spec["pulses"]:
        d = p["duration"]
        if p["shape"] == "const":
            amp = ConstantWaveform(d, p["amp"])
        elif p["shape"] == "blackman":
            amp = BlackmanWaveform(d, p["amp"] * d / 1000 * 0.42)
        else:
            amp = RampWaveform(d, 0.0, p["amp"])
        det = RampWaveform(d, p["det0"], p["det1"])
        if p["channel"] == "loc":
            seq.target(ids[p["target"]], "loc")
        seq.add(pulser.Pulse(amp, det, p["phase"] % TWO_PI), p["channel"])
    return seq


def t_rigid(spec, rng):
    th, tx, ty, refl = rng.uniform(0, TWO_PI), rng.uniform(-20, 20), rng.uniform(-20, 20), rng.random() < 0.5
    out = json.loads(json.dumps(spec))
    pts = []
    for x, y in spec["positions"]:
        if refl:
            x = -x
        pts.append([math.cos(th) * x - math.sin(th) * y + tx, math.sin(th) * x + math.cos(th) * y + ty])
    out["positions"] = pts
    return out, {"kind": "rigid", "theta": th, "shift": [tx, ty], "reflect": refl}


def t_offset(spec, rng):
    c = rng.choice([rng.uniform(0.1, 6.1), math.pi, math.pi / 2])
    out = json.loads(json.dumps(spec))
    for p in out["pulses"]:
        p["phase"] = p["phase"] + c
    return out, {"kind": "offset", "c": c}


def t_negate(spec, rng):
    """phases negated only: NOT an equivalence (see run()); used to compare the emulators with the dense reference"""
    out = json.loads(json.dumps(spec))
    for p in out["pulses"]:
        p["phase"] = -p["phase"]
    return out, {"kind": "negate"}


def t_timerev(spec, rng):
    """phases and detunings negated; the run also negates the interaction matrix (config.interaction_matrix = -U):
    H' = -conj H(phi + pi), so psi'(t) = conj psi(t) up to the phase-offset symmetry: same weights, energy negated"""
    out = json.loads(json.dumps(spec))
    for p in out["pulses"]:
        p["phase"] = -p["phase"]
        p["det0"], p["det1"] = -p["det0"], -p["det1"]
    return out, {"kind": "timerev"}


def t_ids(spec, rng):
    """same layout and pulses, labels replaced by the plain "q<i>" strings: results must not depend on the label type"""
    out = json.loads(json.dumps(spec))
    out["ids"] = None
    return out, {"kind": "ids", "from": spec.get("id_family", "q"), "ids": [repr(x) for x in qubit_ids(spec)]}


TRANSFORMS = {"ids": t_ids, "rigid": t_rigid, "offset": t_offset, "negate": t_negate, "timerev": t_timerev}


def transformed_sequence(spec, kind, rng):
    import pulser

    if kind == "roundtrip":
        seq = build(spec)
        return pulser.Sequence.from_abstract_repr(seq.to_abstract_repr()), {"kind": "roundtrip"}, spec
    spec2, info = TRANSFORMS[kind](spec, rng)
    return build(spec2), info, spec2


# ---- running -------------------------------------------------------------------------------------------------------------
NOISE_CHANNELS = ["relaxation", "dephasing", "depolarizing", "eff_pump", "eff_generic"]
# channels whose dissipator is invariant under rotations about z, i.e. under a constant phase offset (eff_generic is not)
COVARIANT_CHANNELS = ["relaxation", "dephasing", "depolarizing", "eff_pump"]


def base_backend(backend):
    return backend.split("+")[0]


def tol_key(backend):
    return "dmrg" if backend == "mps+dmrg" else base_backend(backend)


def key_name(kind, backend):
    """finding key: e.g. phase-offset-noisy-sv, rigid-noisy-sv, offset-mps-dmrg, offset-sv"""
    if kind == "ids":
        return "qubit-id-type-changes-result"
    k = "phase-offset" if (kind == "offset" and "+" in backend) else kind
    if backend.startswith("sv+"):
        return f"{k}-noisy-sv"
    if backend == "mps+dmrg":
        return f"{k}-mps-dmrg"
    return f"{k}-{backend}"


def noise_model(backend):
    import pulser

    ch = backend.split("+")[1]
    if ch == "relaxation":
        return pulser.NoiseModel(relaxation_rate=0.8)
    if ch == "dephasing":
        return pulser.NoiseModel(dephasing_rate=1.1)
    if ch == "depolarizing":
        return pulser.NoiseModel(depolarizing_rate=0.6)
    if ch == "eff_pump":      # incoherent pumping g -> r and a diagonal operator: covariant under D_u
        return pulser.NoiseModel(eff_noise_opers=[np.array([[0, 1.0], [0, 0]]), np.array([[1.0, 0], [0, 0.3]])],
                                 eff_noise_rates=[0.7, 0.4])
    return pulser.NoiseModel(eff_noise_opers=[np.array([[0.3, 0.7], [0.1, -0.2]])], eff_noise_rates=[0.9])


LEAN = [False]   # set while re-running a case whose full observable list made the backend raise


def make_config(backend, n=None, with_state=True, interaction_matrix=None):
    import emu_mps
    import emu_sv
    from emu_mps.solver import Solver
    from pulser.backend import (BitStrings, CorrelationMatrix, Energy, EnergySecondMoment, EnergyVariance, Fidelity,
                                Occupation, StateResult)

    et = [0.5, 1.0]
    obs = [Occupation(evaluation_times=et), CorrelationMatrix(evaluation_times=et), Energy(evaluation_times=et),
           EnergyVariance(evaluation_times=et), EnergySecondMoment(evaluation_times=et),
           BitStrings(evaluation_times=[1.0], num_shots=1000)]
    if LEAN[0]:
        obs = [o for o in obs if not isinstance(o, (EnergyVariance, EnergySecondMoment))]
        n = None
    if with_state:
        obs.append(StateResult(evaluation_times=[1.0]))
    with warnings.catch_warnings():
        warnings.simplefilter("ignore")
        kw = {} if interaction_matrix is None else {"interaction_matrix": interaction_matrix}
        if base_backend(backend) == "sv":
            if "+" in backend:
                kw["noise_model"] = noise_model(backend)
            if n is not None:   # fidelity with |g...g> (invariant under every relation tested here)
                ref = emu_sv.DensityMatrix.make(n, gpu=False) if "+" in backend else emu_sv.StateVector.make(n, gpu=False)
                obs.append(Fidelity(evaluation_times=et, state=ref))
            return emu_sv.SVConfig(observables=obs, dt=10, gpu=False, log_level=logging.CRITICAL, **kw)
        if backend == "mps+dmrg":
            kw["solver"] = Solver.DMRG
        if n is not None and n >= 2:
            obs.append(Fidelity(evaluation_times=et, state=emu_mps.MPS.make(n, eigenstates=("r", "g"))))
        return emu_mps.MPSConfig(observables=obs, dt=10, precision=1e-8, log_level=logging.CRITICAL, **kw)


def dense_state(backend, st):
    """basis-state weights of the final state"""
    import torch

    if base_backend(backend) == "sv":
        d = st.data.detach().cpu()
        if d.ndim == 2:                                  # density matrix
            return np.real(torch.diagonal(d).numpy())
        return np.abs(d.numpy().reshape(-1)) ** 2
    v = torch.ones(1, 1, dtype=torch.complex128)
    for f in st.factors:
        v = torch.tensordot(v, f.to("cpu"), dims=([v.ndim - 1], [0]))
        v = v.reshape(-1, f.shape[2])
    return np.abs(v.reshape(-1).numpy()) ** 2


def run_backend(backend, seq, with_state=True, interaction_matrix=None):
    import emu_mps
    import emu_sv
    import torch

    torch.manual_seed(20290)
    n = len(seq.register.qubit_ids)
    cfg = make_config(backend, n, with_state, interaction_matrix)
    with warnings.catch_warnings():
        warnings.simplefilter("ignore")
        cls = emu_sv.SVBackend if base_backend(backend) == "sv" else emu_mps.MPSBackend
        res = cls(seq, config=cfg).run()
    out = {"atom_order": list(res.atom_order)}
    for t in (0.5, 1.0):
        out[f"occ@{t}"] = np.array([float(x) for x in res.get_result("occupation", t)])
        out[f"corr@{t}"] = np.array([[float(np.real(complex(x))) for x in row] for row in res.get_result("correlation_matrix", t)])
        out[f"energy@{t}"] = float(res.get_result("energy", t))
        if "energy_variance" in res.get_result_tags():
            out[f"evar@{t}"] = float(res.get_result("energy_variance", t))
            out[f"e2@{t}"] = float(res.get_result("energy_second_moment", t))
        if "fidelity" in res.get_result_tags():
            out[f"fid@{t}"] = np.array([float(np.real(complex(res.get_result("fidelity", t))))])
    out["bits"] = dict(res.get_result("bitstrings", 1.0))
    if with_state:
        w = dense_state(backend, res.get_result("state", 1.0))
        out["prob"] = w / float(np.sum(w))
    return out


def compare_runs(backend, a, b2, n, energy_sign=1.0, same_ids=True):
    """-> (worst difference on occupations/correlations/probabilities, worst on energies, text or None)"""
    worst, worst_e, bad = 0.0, 0.0, []
    if same_ids and a["atom_order"] != b2["atom_order"]:
        bad.append(f"atom_order {a['atom_order']} vs {b2['atom_order']}")
    for k in a:
        if k.startswith(("occ@", "corr@", "fid@")) or k == "prob":
            if k not in b2:
                continue
            d = float(np.abs(a[k] - b2[k]).max())
            worst = max(worst, d)
            if d > TOL[tol_key(backend)]:
                bad.append(f"{k} differs by {d:.3g}")
        elif k.startswith(("energy@", "evar@", "e2@")):
            sign = energy_sign if k.startswith("energy@") else 1.0
            scale = n if k.startswith("energy@") else n * (1.0 + abs(a[k]))
            d = abs(a[k] - sign * b2[k])
            worst_e = max(worst_e, d / (scale / n))
            if d > EN_TOL[tol_key(backend)] * scale:
                bad.append(f"{k} differs by {d:.3g} ({a[k]:.6g} vs {b2[k]:.6g})")
    if "prob" in a:
        shots = sum(b2["bits"].values())
        for idx in range(2 ** n):
            s = format(idx, f"0{n}b")
            p = float(a["prob"][idx])
            c = b2["bits"].get(s, 0)
            if abs(c / shots - p) > Z_SCORE * math.sqrt(max(p * (1 - p), 0.0) / shots) + 8.0 / shots:
                bad.append(f"bitstring {s}: {c}/{shots} sampled after the transformation, probability {p:.4g} before")
    return worst, worst_e, ("; ".join(bad) if bad else None)


# ---- (a) SequenceData relation --------------------------------------------------------------------------------------------
def sequence_data(seq, backend="sv", interaction_matrix=None):
    from emu_base import PulserData

    cfg = make_config(backend, None, with_state=False, interaction_matrix=interaction_matrix)
    with warnings.catch_warnings():
        warnings.simplefilter("ignore")
        return list(PulserData(sequence=seq, config=cfg, dt=cfg.dt).get_sequences())[0]


def sd_relation(kind, info, d0, d1):
    import torch

    tt = d0.target_times
    U0, U1 = d0.interaction_matrix(tt[0]), d1.interaction_matrix(tt[0])
    if d0.target_times != d1.target_times or len(d0.qubit_ids) != len(d1.qubit_ids):
        return "target times or number of qubits differ"
    if kind == "roundtrip":
        if [str(q) for q in d0.qubit_ids] != [str(q) for q in d1.qubit_ids]:
            return "qubit ids differ (beyond int -> str) after the round trip"
    elif kind != "ids" and d0.qubit_ids != d1.qubit_ids:
        return "qubit ids differ"
    if kind == "ids":
        ok = torch.equal(d0.omega, d1.omega) and torch.equal(d0.delta, d1.delta) and torch.equal(d0.phi, d1.phi) \
            and torch.equal(U0, U1)
        return None if ok else "drives or U depend on the type of the qubit ids"
    if not (torch.equal(d0.omega, d1.omega) and torch.equal(d0.delta, -d1.delta if kind == "timerev" else d1.delta)):
        return "omega/delta differ"
    if kind == "rigid":
        if not torch.equal(d0.phi, d1.phi):
            return "phi changed under a rigid motion"
        rel = float((torch.abs(U0 - U1) / torch.clamp(torch.abs(U0), min=1e-300)).max()) if U0.numel() else 0.0
        return None if rel <= SD_TOL_U else f"U changed by relative {rel:.3g} under a rigid motion"
    if not torch.equal(U0, -U1 if kind == "timerev" else U1):
        return "U changed"
    on = torch.abs(d0.omega) > 0
    if kind == "roundtrip":
        return None if torch.equal(d0.phi, d1.phi) else "phi changed by the serialisation round trip"
    if kind == "offset":
        diff = (d1.phi - d0.phi).real[on] - info["c"]
    else:
        diff = (d1.phi + d0.phi).real[on]
    dev = float(torch.abs(torch.remainder(diff + math.pi, TWO_PI) - math.pi).max()) if diff.numel() else 0.0
    return None if dev <= 1e-9 else f"phi of driven samples deviates by {dev:.3g} from the expected relation"


# ---- (b) operator identities on the real Hamiltonians ---------------------------------------------------------------------
def popcounts(n):
    return np.array([bin(k).count("1") for k in range(2 ** n)])


def sv_dense(omega, delta, phi, U):
    import torch
    from emu_sv.hamiltonian import RydbergHamiltonian

    n = len(omega)
    H = RydbergHamiltonian(omegas=torch.tensor(omega, dtype=torch.complex128), deltas=torch.tensor(delta, dtype=torch.complex128),
                           phis=torch.tensor(phi, dtype=torch.complex128),
                           interaction_matrix=torch.tensor(U, dtype=torch.float64), device=torch.device("cpu"))
    cols = []
    for k in range(2 ** n):
        e = torch.zeros(2 ** n, dtype=torch.complex128)
        e[k] = 1.0
        cols.append((H * e).numpy())
    return np.array(cols).T


def mps_dense(omega, delta, phi, U):
    import torch
    from emu_base.pulser_adapter import HamiltonianType
    from emu_mps.hamiltonian import make_H, update_H

    n = len(omega)
    H = make_H(interaction_matrix=torch.tensor(U, dtype=torch.float64), hamiltonian_type=HamiltonianType.Rydberg,
               dim=2, num_gpus_to_use=0)
    c = lambda x: torch.tensor(x, dtype=torch.complex128)  # noqa: E731
    update_H(hamiltonian=H, omega=c(omega), delta=c(delta), phi=c(phi), noise=torch.zeros(2, 2, dtype=torch.complex128))
    m = torch.ones(1, 1, 1, dtype=torch.complex128)  # (rows, cols, bond)
    for f in H.factors:
        m = torch.einsum("abl,lior->aibor", m, f.to("cpu")).reshape(m.shape[0] * 2, m.shape[1] * 2, f.shape[3])
    return m.reshape(2 ** n, 2 ** n).numpy()


def operator_case(rng):
    n = rng.randint(2, 5)
    U = np.zeros((n, n))
    for i in range(n):
        for j in range(i):
            U[i, j] = U[j, i] = rng.uniform(0, 9) if rng.random() < 0.8 else 0.0
    if rng.random() < 0.4:   # exact multiples of pi (phase pi must not be treated as phase 0), at least one pi
        phi = [rng.choice([0.0, math.pi, -math.pi, TWO_PI, 3 * math.pi]) for _ in range(n)]
        phi[rng.randrange(n)] = rng.choice([math.pi, -math.pi])
    else:
        phi = [rng.uniform(-3, 3) for _ in range(n)]
    return {"n": n, "omega": [rng.uniform(0.5, 9) for _ in range(n)], "delta": [rng.uniform(-9, 9) for _ in range(n)],
            "phi": phi, "U": U.tolist(), "c": rng.uniform(0.1, 6.0)}


def operator_check(c, dense):
    n = c["n"]
    H0 = dense(c["omega"], c["delta"], c["phi"], c["U"])
    Hc = dense(c["omega"], c["delta"], [p + c["c"] for p in c["phi"]], c["U"])
    Hn = dense(c["omega"], c["delta"], [-p for p in c["phi"]], c["U"])
    D = np.exp(1j * c["c"] * popcounts(n))
    e1 = float(np.abs(Hc - (D[:, None] * H0 * np.conj(D)[None, :])).max())
    e2 = float(np.abs(Hn - np.conj(H0)).max())
    e3 = float(np.abs(H0 - H0.conj().T).max())
    return e1, e2, e3


# ---- driver -----------------------------------------------------------------------------------------------------------------
def reference_occupation(d):
    """occupations at the end of the sequence from the independent dense reference, driven by the SequenceData"""
    from props import _dense_ref as D

    om, de, ph = (x.real.numpy() for x in (d.omega, d.delta, d.phi))
    states, _ = D.evolve(om, de, ph, lambda t: d.interaction_matrix(t).numpy(), d.target_times, u_query="mid")
    return D.occupation(states[-1], om.shape[1])


REF_TOL = {"sv": 1e-5, "mps": 2e-3}


def metamorphic_case(ctx, spec, kind, backend, seed):
    import random

    rng = random.Random(seed)
    seq0 = build(spec)
    seq1, info, spec1 = transformed_sequence(spec, kind, rng)
    d0 = sequence_data(seq0, backend)
    a = run_backend(backend, seq0)
    if kind == "negate":
        # phases negated alone is NOT a symmetry (it is time reversal only together with delta -> -delta, U -> -U):
        # the emulator must follow the independent reference on both sequences; how much the physics moves is recorded
        d1 = sequence_data(seq1, backend)
        b2 = run_backend(backend, seq1)
        r0, r1 = reference_occupation(d0), reference_occupation(d1)
        e0, e1 = float(np.abs(a["occ@1.0"] - r0).max()), float(np.abs(b2["occ@1.0"] - r1).max())
        text = None if max(e0, e1) <= REF_TOL[tol_key(backend)] else f"occupation differs from the dense reference by {max(e0, e1):.3g}"
        return {"relation": sd_relation(kind, info, d0, d1), "worst": 0.0, "worst_energy": 0.0, "text": text, "info": info,
                "occ": a["occ@1.0"].tolist(), "ref_error": max(e0, e1), "negation_effect": float(np.abs(r0 - r1).max()),
                "negation_effect_emulator": float(np.abs(a["occ@1.0"] - b2["occ@1.0"]).max())}
    M = None
    if kind == "timerev":
        M = (-d0.interaction_matrix(d0.target_times[0])).tolist()
    rel = sd_relation(kind, info, d0, sequence_data(seq1, backend, interaction_matrix=M))
    b2 = run_backend(backend, seq1, interaction_matrix=M)
    worst, worst_e, text = compare_runs(backend, a, b2, spec["n"], energy_sign=-1.0 if kind == "timerev" else 1.0,
                                        same_ids=kind not in ("ids", "roundtrip"))
    extra = []
    if a["atom_order"] != qubit_ids(spec):
        extra.append(f"atom_order {a['atom_order']!r} is not the register's {qubit_ids(spec)!r}")
    if kind == "roundtrip" and [str(x) for x in a["atom_order"]] != [str(x) for x in b2["atom_order"]]:
        extra.append(f"atom_order {a['atom_order']!r} vs {b2['atom_order']!r} after the round trip")
    if extra:
        text = "; ".join(extra + ([text] if text else []))
    return {"relation": rel, "worst": worst, "worst_energy": worst_e, "text": text, "info": info,
            "occ": a["occ@1.0"].tolist()}


def judge(ctx, spec, kind, backend, seed, r, lean=False):
    ctx.count_case({"kind": kind, "backend": backend, "n": spec["n"], "pulses": len(spec["pulses"]), "seed": seed,
                    "family": spec.get("family", "random"), "ids": [repr(x) for x in qubit_ids(spec)], "phases": [p["phase"] for p in spec["pulses"]],
                    "info": r["info"]}, nontrivial=max(r["occ"]) > 1e-2)
    if r["text"]:
        what = (f"emu-{backend}: {r['text']} (phases negated)" if kind == "negate" else
                f"emu-{backend}: results change under '{kind}' ({r['info']}): {r['text']}")
        ctx.violation(what, {"spec": spec, "transform": kind, "backend": backend, "seed": seed,
                             "lean": lean, "finding_key": key_name(kind, backend)})


def run(ctx):
    import torch
    from emu_base import SequenceData

    torch.set_num_threads(1)
    common.coq_make(["Model/PhaseSym.vo"])
    common.standard_proof_stage(ctx, "C29", ["Properties/C29.vo"])

    # structural tie: the emulators see the sequence only through SequenceData, which carries no positions
    fields = sorted(f.name for f in dataclasses.fields(SequenceData))
    expect = sorted(["omega", "delta", "phi", "interaction_matrix", "qubit_ids", "bad_atoms", "lindblad_ops",
                     "state_prep_error", "target_times", "eigenstates", "hamiltonian_type"])
    ctx.obligation("structure:SequenceData carries drives, U and bookkeeping only (no positions)", fields == expect,
                   f"fields={fields}", kind="correspondence")

    # (b) operator identities
    ok, detail, worst_op = True, "", 0.0
    for i in range(ctx.n(40, 400)):
        c = operator_case(ctx.rng)
        for name, dense in (("sv", sv_dense), ("mps", mps_dense)):
            e1, e2, e3 = operator_check(c, dense)
            worst_op = max(worst_op, e1, e2, e3)
            ctx.count_case({"kind": "operator", "backend": name, "n": c["n"], "c": c["c"]}, nontrivial=True)
            if max(e1, e2, e3) > OP_TOL and ok:
                ok, detail = False, f"{name}: offset {e1:.3g} negation {e2:.3g} hermiticity {e3:.3g} on {c}"
                ctx.violation(f"emu-{name} Hamiltonian violates phase covariance / conjugation: {detail}",
                              {"operator_case": c, "backend": name, "finding_key": f"operator-{name}"})
    ctx.obligation("correspondence:H(phi+c)=D H(phi) D^-1 and H(-phi)=conj H(phi) on RydbergHamiltonian and on the "
                   "contracted MPO (float64, N=2..5)", ok, detail, kind="correspondence")
    ctx.extra["worst_operator_residual"] = worst_op

    # (a) + falsifier
    rel_ok, rel_detail = True, ""
    worst = {"sv": 0.0, "mps": 0.0, "dmrg": 0.0, "sv-noisy": 0.0}
    worst_e = {"sv": 0.0, "mps": 0.0, "dmrg": 0.0, "sv-noisy": 0.0}
    neg = {"cases": 0, "max_reference_error": 0.0, "max_change_of_occupation_in_reference": 0.0,
           "max_change_of_occupation_in_emulator": 0.0}
    todo = []
    for spec, kind, backend, seed in corpus_cases():
        todo.append((spec, kind, backend, seed))
    bases = [gen_spec(ctx.rng) for _ in range(ctx.n(4, 36))] + [gen_echo_spec(ctx.rng) for _ in range(ctx.n(3, 16))]
    fams = ["int", "mixed", "q", "unsorted-int", "digit-str", "unsorted-str", "int"]
    id_hist, noisy_hist = {}, {}
    for i, spec in enumerate(bases):
        fam = fams[i % len(fams)]
        spec = with_ids(spec, fam, ctx.rng)            # the base sequence itself carries the labels of its family
        id_hist[fam] = id_hist.get(fam, 0) + 1
        kinds = ["rigid", "offset", "timerev", "negate", "roundtrip"]
        if fam == "mixed":
            kinds.remove("roundtrip")                  # pulser refuses to serialise ids that collide as strings (0 and "0")
        if fam != "q":
            kinds.insert(0, "ids")                     # against the run with plain "q<i>" labels on the same layout
        for kind in kinds:
            for backend in ("sv", "mps"):
                if kind in ("timerev", "negate") and i % 2 == 1 and not ctx.thorough():
                    continue                           # quick tier: keep the wall time
                todo.append((spec, kind, backend, ctx.rng.randrange(10 ** 6)))
        # emu-sv WITH a Lindblad channel (deterministic density-matrix path) and emu-mps DMRG: the relations that remain
        # symmetries there (dissipation is not time-reversal symmetric; a generic eff_noise operator is not z-rotation
        # covariant, so it is excluded from the phase-offset relation)
        ch = NOISE_CHANNELS[i % len(NOISE_CHANNELS)]
        for kind in [k for k in kinds if k in ("ids", "rigid", "offset", "roundtrip")]:
            if spec["n"] <= 4:
                c2 = ch if (kind != "offset" or ch in COVARIANT_CHANNELS) else COVARIANT_CHANNELS[i % len(COVARIANT_CHANNELS)]
                todo.append((spec, kind, "sv+" + c2, ctx.rng.randrange(10 ** 6)))
                noisy_hist[c2] = noisy_hist.get(c2, 0) + 1
            if spec["n"] >= 2 and (ctx.thorough() or kind in ("offset", "roundtrip")):
                todo.append((spec, kind, "mps+dmrg", ctx.rng.randrange(10 ** 6)))
    ctx.extra["qubit_id_families"] = id_hist
    ctx.extra["noisy_sv_channels"] = noisy_hist
    for spec, kind, backend, seed in todo:
        try:
            r = metamorphic_case(ctx, spec, kind, backend, seed)
        except Exception as ex:  # noqa: BLE001
            ctx.violation(f"emu-{backend} raised on '{kind}': {type(ex).__name__}: {str(ex)[:200]}",
                          {"spec": spec, "transform": kind, "backend": backend, "seed": seed,
                           "finding_key": key_name(kind, backend) + "-raises"})
            # the remaining observables are still compared (Energy, Occupation, CorrelationMatrix, bitstrings, state)
            LEAN[0] = True
            try:
                r = metamorphic_case(ctx, spec, kind, backend, seed)
            except Exception:  # noqa: BLE001
                continue
            finally:
                LEAN[0] = False
            judge(ctx, spec, kind, backend, seed, r, lean=True)
            continue
        if r["relation"] and rel_ok:
            rel_ok, rel_detail = False, f"{kind}: {r['relation']} on {spec}"
        wk = "sv-noisy" if backend.startswith("sv+") else tol_key(backend)
        worst[wk] = max(worst[wk], r["worst"])
        worst_e[wk] = max(worst_e[wk], r["worst_energy"])
        if kind == "negate":
            neg["cases"] += 1
            neg["max_reference_error"] = max(neg["max_reference_error"], r["ref_error"])
            neg["max_change_of_occupation_in_reference"] = max(neg["max_change_of_occupation_in_reference"], r["negation_effect"])
            neg["max_change_of_occupation_in_emulator"] = max(neg["max_change_of_occupation_in_emulator"],
                                                              r["negation_effect_emulator"])
        judge(ctx, spec, kind, backend, seed, r)
    ctx.obligation("correspondence:SequenceData of a transformed pulser sequence relates to the original as the theorems assume "
                   "(same drives; U to rounding; phi + c / -phi / identical)", rel_ok, rel_detail, kind="correspondence")
    ctx.extra["phases_negated_alone"] = neg
    ctx.notes.append("SPEC ISSUE: 'negating all phases' alone is not a physical equivalence (H(-phi) = conj H(phi) is time "
                     "reversal): the independent dense reference changes its occupations by up to "
                     f"{neg['max_change_of_occupation_in_reference']:.3g} on these sequences and both emulators follow it "
                     f"(max deviation {neg['max_reference_error']:.3g}). The check therefore tests the correct relation "
                     "(phi, delta, U) -> (-phi, -delta, -U): same weights, energy negated.")
    ctx.extra["worst_difference"] = worst
    ctx.extra["worst_energy_difference"] = worst_e
    ctx.rule = ("random pulser sequences on MockDevice (2-5 atoms at random planar positions >= 7.5 um apart, 2-4 pulses on a "
                "global and optionally a local Rydberg channel, constant/Blackman/ramp amplitudes, ramped detunings, random "
                "phases; plus echo/Ramsey base sequences whose pulse phases are exact multiples of pi/2 from {0, pi, -pi, pi/2, "
                "2 pi}, at least two different and at least one pi per sequence); register labels by family (pulser's default ints, "
                "mixed int/str incl. 0 next to '0', unsorted strings / ints, digit strings, plain q<i>) x {same layout with q<i> "
                "labels, rigid motion with optional reflection, constant phase offset, negated phases, abstract-repr round "
                "trip} x {emu-sv, emu-mps}; plus random operator-level cases (40% with phase vectors made of exact multiples of pi); non-trivial = some occupation > 1e-2.")
    ctx.trusted_base += ["C06_H_apply_dense (emu-sv applies the dense Hamiltonian the theorems speak about); C05 for the MPO",
                         "pulser-core 1.9.1 for building, sampling and (de)serialising sequences"]
    ctx.assumptions += ["theorems are entrywise identities on the dense Hamiltonian; that the time stepper commutes with the "
                        "conjugation by D_u / with complex conjugation (true for any polynomial in H applied to D_u-covariant "
                        "data) is not proved, it is validated end to end",
                        "invariance of U under rigid motions and the serialisation round trip are Pulser's; validated only",
                        f"tolerances: occupations/correlations/probabilities {TOL}, energies {EN_TOL} per atom; bitstrings by "
                        f"a per-outcome z-test (z = {Z_SCORE}) against exact probabilities",
                        "the MPO statement is not proved in Coq (C05's dense_elem lives over a ring without involution); "
                        "it is checked numerically on the contracted MPO"]


def corpus_cases():
    p = common.VERIF / "corpus" / "C29.json"
    if not p.exists():
        return []
    return [(c["spec"], c["transform"], c["backend"], c["seed"]) for c in json.loads(p.read_text())]


def replay(ctx, path):
    rp = json.load(open(path))
    if "spec" in rp:
        LEAN[0] = bool(rp.get("lean"))
        try:
            r = metamorphic_case(ctx, rp["spec"], rp["transform"], rp["backend"], rp["seed"])
        except Exception as ex:  # noqa: BLE001
            print("replay raises:", type(ex).__name__, ex)
            ctx.violation(f"replayed: emu-{rp['backend']} raised on '{rp['transform']}': {type(ex).__name__}",
                          {k: rp[k] for k in ("spec", "transform", "backend", "seed")} | {"finding_key": rp.get("finding_key")})
            return
        finally:
            LEAN[0] = False
        print("replay:", {k: r[k] for k in ("relation", "worst", "worst_energy", "text")})
        judge(ctx, rp["spec"], rp["transform"], rp["backend"], rp["seed"], r, lean=bool(rp.get("lean")))
    elif "operator_case" in rp:
        dense = sv_dense if rp["backend"] == "sv" else mps_dense
        e = operator_check(rp["operator_case"], dense)
        print("replay residuals (offset, negation, hermiticity):", e)
        if max(e) > OP_TOL:
            ctx.violation("replayed: operator identity violated", {"operator_case": rp["operator_case"],
                                                                   "backend": rp["backend"], "finding_key": rp.get("finding_key")})
    else:
        print("replay: no concrete input in this file (broken obligation):", rp.get("broken"))


META = {
    "category": "proof",
    "technique": "Coq proof of phase-offset covariance and phase-negation conjugation of the dense Hamiltonian of C06 (all N, "
                 "any ring with involution) + checked SequenceData relations + metamorphic end-to-end falsifier",
    "text": ("Proved for every N, all drives and interactions, any commutative ring with involution and any unit u: "
             "H(Omega, phi+c)[k,k'] = u^pop(k) H(Omega, phi)[k,k'] conj(u)^pop(k'); D_u has unit diagonal entries so every "
             "basis-state weight (occupations, correlations, bitstring probabilities) is unchanged; H(Omega,-phi) = conj "
             "H(Omega,phi) entrywise for real Omega, delta, U, and H(Omega,-phi,-delta,-U) = -conj H(Omega,phi+pi,delta,U) "
             "(time reversal: the correct form of the 'negated phases' clause, which alone is NOT an equivalence - both "
             "emulators and the independent dense reference change alike). Checked on every run: the transformed pulser sequence yields "
             "SequenceData related as the theorems assume; both real Hamiltonians (sv operator, contracted MPO) satisfy the "
             "identities numerically. Validated only: invariance of the evolved observables end to end (rigid motions, "
             "reflections, phase offsets, time reversal, abstract-repr round trip) on both backends."),
    "note": ("Trusted: Coq kernel; C06's tie of the model to emu_sv/hamiltonian.py; pulser-core for sequence handling. The MPO "
             "identities are numerical checks, not theorems."),
}
