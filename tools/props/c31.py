"""C31 — every pulser-core version the package accepts can run the emulators (DESIGN.md §4 C31).

PARTIAL by nature: what is proved is (a) the declared specifier admits the installed release (PEP 440
release-tuple comparison) and (b) call-site conformance: every call the emulators make into pulser
callables binds against the signatures of the installed release (a Gallina model of Python argument
binding, proved sound for the declarative check).  Runtime behaviour of the third-party release is
only covered by the smoke run (both backends end to end + every exported observable constructed).

Tie: two extractors (ast over /repo, inspect over the installed pulser) regenerate coq/Gen/Api.v on
every run; the binding model is compared with inspect.Signature.bind on generated call shapes.
"""
from __future__ import annotations

import ast
import importlib
import importlib.metadata
import inspect
import json
import logging
import tomllib

from vlib import common
from props import c33
from props.c33 import Unsupported, _fail

GEN = common.COQ / "Gen" / "Api.v"
PACKAGES = ["emu_base", "emu_mps", "emu_sv"]
DIST = "pulser-core"


def _s(x: str) -> str:
    return '"' + x.replace('"', "'") + '"'


def _strlist(xs):
    return "[" + "; ".join(_s(x) for x in xs) + "]"


# ------------------------------------------------------------------------------------------
# extractor 1: signatures of the installed pulser (inspect)
# ------------------------------------------------------------------------------------------
def sig_of(obj, drop_first=False):
    sig = inspect.signature(obj)
    params = list(sig.parameters.values())
    if drop_first:
        params = params[1:]
    pos, kwonly, varargs, varkw, posonly = [], [], False, False, []
    for p in params:
        has_default = p.default is not inspect.Parameter.empty
        if p.kind == p.POSITIONAL_ONLY:
            posonly.append(p.name)
            pos.append((p.name, has_default))
        elif p.kind == p.POSITIONAL_OR_KEYWORD:
            pos.append((p.name, has_default))
        elif p.kind == p.KEYWORD_ONLY:
            kwonly.append((p.name, has_default))
        elif p.kind == p.VAR_POSITIONAL:
            varargs = True
        else:
            varkw = True
    return {"pos": pos, "kwonly": kwonly, "varargs": varargs, "varkw": varkw, "posonly": posonly}


def sig_coq(s):
    ps = lambda l: "[" + "; ".join(f"({_s(n)}, {'true' if d else 'false'})" for n, d in l) + "]"  # noqa: E731
    return (f"(MkSig {ps(s['pos'])} {ps(s['kwonly'])} {'true' if s['varargs'] else 'false'} "
            f"{'true' if s['varkw'] else 'false'})")


# ------------------------------------------------------------------------------------------
# extractor 2: call sites in /repo (ast), resolved against the imported modules
# ------------------------------------------------------------------------------------------
def _is_pulser(obj) -> bool:
    return (getattr(obj, "__module__", "") or "").split(".")[0] == "pulser"


def _resolve(mod, node):
    """Evaluate a Name / dotted Attribute chain in the module namespace; None if not static."""
    if isinstance(node, ast.Name):
        return getattr(mod, node.id, None)
    if isinstance(node, ast.Attribute):
        base = _resolve(mod, node.value)
        if base is None or inspect.ismodule(base) and not hasattr(base, node.attr):
            return None
        return getattr(base, node.attr, None)
    return None


class CallFinder(ast.NodeVisitor):
    def __init__(self, mod, relpath):
        self.mod, self.relpath = mod, relpath
        self.cls_stack, self.fn_stack = [], []
        self.calls = []

    def visit_ClassDef(self, node):
        self.cls_stack.append(node)
        self.generic_visit(node)
        self.cls_stack.pop()

    def visit_FunctionDef(self, node):
        self.fn_stack.append(node)
        self.generic_visit(node)
        self.fn_stack.pop()

    visit_AsyncFunctionDef = visit_FunctionDef

    def _target(self, node):
        f = node.func
        if (isinstance(f, ast.Attribute) and isinstance(f.value, ast.Call)
                and isinstance(f.value.func, ast.Name) and f.value.func.id == "super" and not f.value.args):
            if not self.cls_stack:
                return None
            cls = getattr(self.mod, self.cls_stack[0].name, None)
            for c in self.cls_stack[1:]:
                cls = getattr(cls, c.name, None) if cls is not None else None
            if not inspect.isclass(cls):
                return None
            for parent in cls.__mro__[1:]:
                if f.attr in parent.__dict__:
                    fn = parent.__dict__[f.attr]
                    if not _is_pulser(parent):
                        return None
                    if isinstance(fn, (staticmethod, classmethod)):
                        return None
                    return f"{parent.__module__}.{parent.__qualname__}.{f.attr}", fn, True
            return None
        obj = _resolve(self.mod, f)
        if obj is None or not _is_pulser(obj):
            return None
        if inspect.isclass(obj):
            if issubclass(obj, (BaseException,)) or _is_enum(obj):
                return None
            return f"{obj.__module__}.{obj.__qualname__}", obj, False
        if inspect.isfunction(obj) or inspect.ismethod(obj):
            return f"{obj.__module__}.{obj.__qualname__}", obj, False
        return None

    def visit_Call(self, node):
        self.generic_visit(node)
        t = self._target(node)
        if t is None:
            return
        name, obj, drop = t
        where = f"{self.relpath}:{node.lineno} -> {name}"
        if any(isinstance(a, ast.Starred) for a in node.args):
            _fail(node, f"(*args in a call into pulser at {where})")
        kws, open_kwargs = [], False
        for kw in node.keywords:
            if kw.arg is not None:
                kws.append(kw.arg)
                continue
            v = kw.value
            encl = self.fn_stack[-1] if self.fn_stack else None
            if isinstance(v, ast.Name) and encl is not None and encl.args.kwarg is not None \
                    and encl.args.kwarg.arg == v.id:
                open_kwargs = True  # forwards the caller's **kwargs: no key of its own
                continue
            if isinstance(v, ast.Call) and not v.keywords and all(isinstance(a, ast.Constant) for a in v.args):
                helper = _resolve(self.mod, v.func)
                if inspect.isfunction(helper) and (helper.__module__ or "").split(".")[0] in PACKAGES:
                    # which keys does the helper return under the installed pulser?
                    keys = helper(*[a.value for a in v.args])
                    if not isinstance(keys, dict) or not all(isinstance(k, str) for k in keys):
                        _fail(node, f"(**{ast.unparse(v)} is not a str-keyed dict)")
                    kws += list(keys)
                    continue
            _fail(node, f"(cannot determine the keys of **{ast.unparse(v)} at {where})")
        try:
            s = sig_of(obj, drop_first=drop)
        except (TypeError, ValueError) as ex:
            _fail(node, f"(no signature for {name}: {ex})")
        if set(kws) & set(s["posonly"]):
            _fail(node, f"(positional-only parameter passed by keyword at {where})")
        self.calls.append({"where": where, "callee": name, "sig": s, "npos": len(node.args), "kws": kws,
                           "open_kwargs": open_kwargs})


def _is_enum(obj):
    import enum
    return inspect.isclass(obj) and issubclass(obj, enum.Enum)


def extract_calls():
    calls, abstract = [], []
    for pkg in PACKAGES:
        for path in sorted((common.REPO / pkg).rglob("*.py")):
            rel = str(path.relative_to(common.REPO))
            modname = rel[:-3].replace("/", ".")
            if modname.endswith(".__init__"):
                modname = modname[: -len(".__init__")]
            mod = importlib.import_module(modname)
            if not str(getattr(mod, "__file__", "")).startswith(str(common.REPO)):
                raise Unsupported(f"{modname} was imported from {mod.__file__}, not from {common.REPO}")
            tree = ast.parse(path.read_text())
            cf = CallFinder(mod, rel)
            cf.visit(tree)
            calls += cf.calls
            for n in tree.body:
                if isinstance(n, ast.ClassDef):
                    cls = getattr(mod, n.name, None)
                    if inspect.isclass(cls) and any(_is_pulser(b) for b in cls.__mro__[1:]):
                        left = sorted(getattr(cls, "__abstractmethods__", ()))
                        if left:
                            abstract.append(f"{modname}.{n.name}: " + ", ".join(left))
    return calls, abstract


# ------------------------------------------------------------------------------------------
# specifier / version
# ------------------------------------------------------------------------------------------
OPS = {">=": "GE", ">": "GT", "<=": "LE", "<": "LT", "==": "EQ", "!=": "NE"}


def release_tuple(vs: str):
    from packaging.version import Version
    v = Version(vs)
    if v.is_prerelease or v.is_postrelease or v.is_devrelease or v.local or v.epoch:
        raise Unsupported(f"version {vs}: only plain release versions are modelled")
    return list(v.release)


def declared_specs():
    from packaging.requirements import Requirement
    out = []
    files = [common.REPO / "pyproject.toml"] + sorted((common.REPO / "ci").glob("*/pyproject.toml"))
    for f in files:
        data = tomllib.loads(f.read_text())
        deps = data.get("project", {}).get("dependencies", [])
        for d in deps:
            r = Requirement(d)
            if r.name.lower().replace("_", "-") != DIST:
                continue
            clauses = []
            for sp in r.specifier:
                if sp.operator not in OPS or "*" in sp.version:
                    raise Unsupported(f"{f}: specifier `{sp}` is outside the model")
                clauses.append((OPS[sp.operator], release_tuple(sp.version)))
            out.append((str(f.relative_to(common.REPO)), str(r.specifier), clauses))
    if not out:
        raise Unsupported("no pulser-core requirement found")
    return out


def ver_coq(v):
    return "[" + "; ".join(str(x) for x in v) + "]"


def gen():
    calls, abstract = extract_calls()
    specs = declared_specs()
    inst = importlib.metadata.version(DIST)
    lines = ["(* GENERATED by tools/props/c31.py (ast over /repo + inspect over the installed pulser-core "
             f"{inst}); do not edit. *)",
             "From Coq Require Import List String.", "From EV Require Import Model.PyBind.",
             "Import ListNotations.", "Open Scope string_scope.", "",
             f"Definition installed_version : version := {ver_coq(release_tuple(inst))}.",
             "Definition declared_specs : list (string * list clause) := ["]
    lines.append(";\n".join(
        f"  ({_s(f + ' ' + txt)}, [" + "; ".join(f"({op}, {ver_coq(v)})" for op, v in cl) + "])"
        for f, txt, cl in specs))
    lines += ["].", "", "Definition api_calls : list (psig * pcall) := ["]
    lines.append(";\n".join(
        f"  ({sig_coq(c['sig'])},\n   MkCall {_s(c['where'])} {c['npos']} {_strlist(c['kws'])})" for c in calls))
    lines += ["].", "", f"Definition unimplemented_abstract : list string := {_strlist(abstract)}.", ""]
    return [(GEN, "\n".join(lines))]


# ------------------------------------------------------------------------------------------
# real-code side
# ------------------------------------------------------------------------------------------
HEADER = """From Coq Require Import List String Bool.
Import ListNotations.
From EV Require Import Model.PyBind Gen.Api.
Open Scope string_scope."""


def real_bind_ok(sig_d, npos, kws) -> bool:
    """Bind with CPython's own machinery against a signature rebuilt from the extracted facts."""
    P = inspect.Parameter
    params = [P(n, P.POSITIONAL_OR_KEYWORD, default=(None if d else P.empty)) for n, d in sig_d["pos"]]
    if sig_d["varargs"]:
        params.append(P("args_", P.VAR_POSITIONAL))
    params += [P(n, P.KEYWORD_ONLY, default=(None if d else P.empty)) for n, d in sig_d["kwonly"]]
    if sig_d["varkw"]:
        params.append(P("kwargs_", P.VAR_KEYWORD))
    try:
        sig = inspect.Signature(params)
    except ValueError:
        return None  # not a legal Python signature (e.g. default before non-default)
    try:
        sig.bind(*([0] * npos), **{k: 0 for k in kws})
        return True
    except TypeError:
        return False


def random_sig(rng):
    names = ["a", "b", "c", "d", "e", "f"]
    rng.shuffle(names)
    npos = rng.randint(0, 3)
    nd = rng.randint(0, npos)
    pos = [(names[i], i >= npos - nd) for i in range(npos)]  # defaults last (Python requires it)
    nk = rng.randint(0, 3)
    kwonly = [(names[npos + i], rng.random() < 0.5) for i in range(min(nk, len(names) - npos))]
    return {"pos": pos, "kwonly": kwonly, "varargs": rng.random() < 0.25, "varkw": rng.random() < 0.25, "posonly": []}


def random_call(rng, s):
    pool = [n for n, _ in s["pos"] + s["kwonly"]] + ["zz_unknown", "yy_unknown"]
    npos = rng.randint(0, len(s["pos"]) + 1)
    mode = rng.random()
    if mode < 0.5:  # mostly valid: fill what is required
        kws = [n for n, d in (s["pos"][npos:] + s["kwonly"]) if not d or rng.random() < 0.4]
        if rng.random() < 0.2 and kws:
            kws.pop(rng.randrange(len(kws)))
        if rng.random() < 0.15:
            kws.append(rng.choice(pool))
        kws = list(dict.fromkeys(kws))
    else:
        kws = rng.sample(pool, rng.randint(0, len(pool)))
    rng.shuffle(kws)
    return npos, kws


def smoke(ctx):
    """Both backends end to end on a tiny sequence + construct every observable the packages export."""
    import warnings
    from pulser.backend import Results
    from pulser.backend.observable import Observable

    results = []
    with warnings.catch_warnings():
        warnings.simplefilter("ignore")
        import emu_mps
        import emu_sv
        from emu_mps.mps_backend_impl import Statistics as MpsStatistics
        from emu_sv.sv_backend_impl import Statistics as SvStatistics

        seq = c33.small_sequence("rydberg_global", 2)

        def ctor_args(pkg, cls):
            name = cls.__name__
            if name == "Expectation":
                Op = pkg.MPO if pkg is emu_mps else pkg.DenseOperator
                return (Op.from_operator_repr(eigenstates=("r", "g"), n_qudits=2,
                                              operations=[(1.0, [({"rr": 1.0}, [0])])]),), {}
            if name == "Fidelity":
                St = pkg.MPS if pkg is emu_mps else pkg.StateVector
                return (St.from_state_amplitudes(eigenstates=("r", "g"), amplitudes={"rr": 1.0}),), {}
            if name == "EntanglementEntropy":
                return (0,), {}
            return (), {}

        for pkg in (emu_mps, emu_sv):
            obs = []
            for n in sorted(getattr(pkg, "__all__", dir(pkg))):
                cls = getattr(pkg, n, None)
                if inspect.isclass(cls) and issubclass(cls, Observable) and cls is not Observable:
                    what = f"construct {pkg.__name__}.{n}"
                    try:
                        a, kw = ctor_args(pkg, cls)
                        obs.append(cls(*a, evaluation_times=[1.0], **kw))
                        results.append((what, True, ""))
                    except Exception as ex:
                        results.append((what, False, f"{type(ex).__name__}: {ex}"))
            for S in ((MpsStatistics,) if pkg is emu_mps else (SvStatistics,)):
                what = f"construct {S.__module__}.Statistics"
                try:
                    S(evaluation_times=[1.0], data=[], timestep_count=1)
                    results.append((what, True, ""))
                except Exception as ex:
                    results.append((what, False, f"{type(ex).__name__}: {ex}"))
            what = f"run {pkg.__name__} backend end to end with {len(obs)} observables"
            try:
                if pkg is emu_mps:
                    cfg = pkg.MPSConfig(observables=obs, log_level=logging.CRITICAL, optimize_qubit_ordering=False)
                    r = pkg.MPSBackend(seq, config=cfg).run()
                else:
                    cfg = pkg.SVConfig(observables=obs, log_level=logging.CRITICAL)
                    r = pkg.SVBackend(seq, config=cfg).run()
                ok = isinstance(r, Results) and all(o.tag in r.get_result_tags() for o in obs)
                results.append((what, ok, "" if ok else f"missing tags: {set(o.tag for o in obs) - set(r.get_result_tags())}"))
            except Exception as ex:
                results.append((what, False, f"{type(ex).__name__}: {ex}"))
    c33._restore_logging()
    return results


# ------------------------------------------------------------------------------------------
# version-compat helpers: must be pure functions of their argument (no module-level state)
# ------------------------------------------------------------------------------------------
# functional drivers: helper -> how to enumerate its argument domain / expected value (in the subprocess)
COMPAT_DRIVERS = {"emu_base.utils.observable_aggregation_kwargs"}


def _is_compat_helper(fn: ast.FunctionDef) -> bool:
    """A module-level function that probes the installed pulser: `try: import pulser... except ImportError`,
    or reads a version (`__version__`, importlib.metadata.version, packaging Version)."""
    for n in ast.walk(fn):
        if isinstance(n, ast.Try):
            imports = [x for b in n.body for x in ast.walk(b) if isinstance(x, (ast.Import, ast.ImportFrom))]
            catches = [ast.unparse(h.type) if h.type is not None else "" for h in n.handlers]
            if imports and any("ImportError" in c or "ModuleNotFoundError" in c or "AttributeError" in c for c in catches):
                return True
        if isinstance(n, ast.Attribute) and n.attr == "__version__":
            return True
        if isinstance(n, ast.Call) and ast.unparse(n.func).endswith(("metadata.version", "Version")):
            return True
        if isinstance(n, ast.Call) and isinstance(n.func, ast.Name) and n.func.id == "hasattr":
            return True
    return False


def compat_helpers():
    """[(qualified name, relpath, stateful reasons)] for every version-compat helper found by ast."""
    out = []
    for pkg in PACKAGES:
        for path in sorted((common.REPO / pkg).rglob("*.py")):
            tree = ast.parse(path.read_text())
            rel = str(path.relative_to(common.REPO))
            modname = rel[:-3].replace("/", ".")
            module_vars = set()
            for n in tree.body:
                targets = []
                if isinstance(n, ast.Assign):
                    targets = n.targets
                elif isinstance(n, (ast.AnnAssign, ast.AugAssign)):
                    targets = [n.target]
                for t in targets:
                    for x in ast.walk(t):
                        if isinstance(x, ast.Name):
                            module_vars.add(x.id)
            for n in tree.body:
                if not isinstance(n, ast.FunctionDef) or not _is_compat_helper(n):
                    continue
                why = []
                params = {a.arg for a in n.args.args + n.args.kwonlyargs + n.args.posonlyargs}
                local_stores = {x.id for x in ast.walk(n) if isinstance(x, ast.Name) and isinstance(x.ctx, ast.Store)}
                for x in ast.walk(n):
                    if isinstance(x, (ast.Global, ast.Nonlocal)):
                        why.append(f"line {x.lineno}: `{ast.unparse(x)}`")
                    if isinstance(x, ast.Name) and x.id in module_vars and x.id not in params \
                            and not (x.id.isupper() and x.id not in local_stores):
                        if x.id not in local_stores or any(isinstance(g, ast.Global) and x.id in g.names
                                                           for g in ast.walk(n)):
                            why.append(f"line {x.lineno}: uses module-level variable `{x.id}`")
                    if isinstance(x, ast.Attribute) and isinstance(x.value, ast.Name) and x.value.id == n.name:
                        why.append(f"line {x.lineno}: function attribute `{ast.unparse(x)}` used as a cache")
                for d in n.decorator_list:
                    why.append(f"decorator `{ast.unparse(d)}` (memoisation?)")
                for d in n.args.defaults + [k for k in n.args.kw_defaults if k is not None]:
                    if isinstance(d, (ast.List, ast.Dict, ast.Set, ast.Call)):
                        why.append(f"mutable default argument `{ast.unparse(d)}`")
                out.append((f"{modname}.{n.name}", rel, sorted(set(why))))
    return out


PURITY_SCRIPT = r"""
import importlib, itertools, json, sys, warnings
warnings.simplefilter("ignore")
import emu_base.utils as U
try:
    from pulser.backend.observable import AggregationMethod
    members = [m.name for m in AggregationMethod]
except ImportError:
    AggregationMethod, members = None, ["SKIP", "MEAN"]

def want(m):
    return {} if AggregationMethod is None else {"default_aggregation_method": getattr(AggregationMethod, m)}

def show(d):
    return {k: getattr(v, "name", repr(v)) for k, v in d.items()}

orders = [list(p) for p in itertools.permutations(members, 2)]
orders += [[a, a, b, a] for a, b in itertools.permutations(members, 2)]
orders += [list(p) for p in itertools.permutations(members)][:24]
orders += [["MEAN", "SKIP"], ["SKIP", "MEAN"]] if AggregationMethod is not None and {"MEAN", "SKIP"} <= set(members) else []
bad = []
for order in orders:
    importlib.reload(U)          # fresh module state: what a fresh process would see
    got = []
    for m in order:
        r = U.observable_aggregation_kwargs(m)
        got.append(show(r))
        if r != want(m) and not bad:
            bad.append({"order": order, "call": m, "returned": show(r), "expected": show(want(m))})
        r["poisoned"] = 1        # a caller mutating its kwargs must not affect later callers
    if bad:
        break
print("@@PURITY " + json.dumps({"members": members, "orders": len(orders), "bad": bad}))
"""

SCENARIO_SCRIPT = r"""
import json, logging, math, sys, traceback, warnings
warnings.simplefilter("ignore")
import torch, pulser
from pulser.backend import Occupation
import emu_mps, emu_sv
scenario = sys.argv[1]
out = {"scenario": scenario, "pulser": pulser.__version__, "steps": []}

def seq():
    reg = pulser.Register({"q0": [0.0, 0.0], "q1": [7.0, 0.0]})
    s = pulser.Sequence(reg, pulser.MockDevice)
    s.declare_channel("ryd", "rydberg_global")
    s.add(pulser.Pulse.ConstantPulse(60, 4.0, 0.0, 0.0), "ryd")
    return s

NOISES = {"amp_sigma": dict(amp_sigma=0.05), "state_prep_error": dict(state_prep_error=1e-9)}

def step(name, fn):
    try:
        info = fn()
        out["steps"].append({"step": name, "ok": True, "info": info})
    except Exception as ex:
        out["steps"].append({"step": name, "ok": False, "kind": "raises",
                             "error": f"{type(ex).__name__}: {ex}", "tb": traceback.format_exc()[-900:]})

def finite(x):
    t = torch.as_tensor(x, dtype=torch.float64)
    return bool(torch.isfinite(t).all())

def run(pkg, obs, noise, ntraj):
    kw = dict(observables=obs, log_level=logging.CRITICAL, n_trajectories=ntraj,
              noise_model=pulser.NoiseModel(**NOISES[noise]))
    if pkg is emu_mps:
        r = emu_mps.MPSBackend(seq(), config=emu_mps.MPSConfig(optimize_qubit_ordering=False, **kw)).run()
    else:
        r = emu_sv.SVBackend(seq(), config=emu_sv.SVConfig(**kw)).run()
    tags = sorted(r.get_result_tags())
    missing = [o.tag for o in obs if o.tag not in tags]
    if missing:
        raise LookupError(f"observable-dropped: {missing} missing from aggregated results {tags}")
    for o in obs:
        v = r.get_result(o, 1.0)
        if not finite(v):
            raise ArithmeticError(f"non-finite aggregated value for {o.tag}")
    return {"tags": tags}

def entropies():
    emu_mps.EntanglementEntropy(mps_site=0)
    emu_mps.EntanglementEntropy(mps_site=0, tag_suffix="b")
    return emu_mps.EntanglementEntropy(mps_site=0, evaluation_times=[1.0])

occ = lambda: Occupation(evaluation_times=[1.0])
if scenario == "construct-then-run":
    holder = {}
    step("construct EntanglementEntropy (3 call shapes)", lambda: holder.setdefault("e", entropies()) and None)
    for noise in NOISES:
        step(f"emu-mps 3 trajectories {noise} Occupation+EntanglementEntropy",
             lambda: run(emu_mps, [occ(), holder["e"]], noise, 3))
        step(f"emu-sv 3 trajectories {noise} Occupation", lambda: run(emu_sv, [occ()], noise, 3))
else:  # run-then-construct
    step("emu-sv single trajectory Occupation", lambda: run(emu_sv, [occ()], "amp_sigma", 1))
    step("emu-mps single trajectory Occupation", lambda: run(emu_mps, [occ()], "amp_sigma", 1))
    holder = {}
    step("construct EntanglementEntropy afterwards", lambda: holder.setdefault("e", entropies()) and None)
    for noise in NOISES:
        step(f"emu-mps 3 trajectories {noise} Occupation+EntanglementEntropy",
             lambda: run(emu_mps, [occ(), holder["e"]], noise, 3))
        step(f"emu-sv 3 trajectories {noise} Occupation", lambda: run(emu_sv, [occ()], noise, 3))
print("@@SCENARIO " + json.dumps(out))
"""
SCENARIOS = ["construct-then-run", "run-then-construct"]


def _subprocess(script, args=(), timeout=600):
    import subprocess
    try:
        p = subprocess.run([common.PY, "-c", script, *args], env=common.env_for_impl(), capture_output=True,
                           text=True, timeout=timeout, cwd="/var/tmp")
        return p.returncode, p.stdout, p.stderr
    except subprocess.TimeoutExpired:
        return 124, "", "timeout"


def _marker(out, tag):
    for line in out.splitlines():
        if line.startswith(tag + " "):
            return json.loads(line[len(tag) + 1:])
    return None


def run_scenario(name):
    rc, out, err = _subprocess(SCENARIO_SCRIPT, [name])
    res = _marker(out, "@@SCENARIO")
    if res is None:
        return {"scenario": name, "steps": [{"step": "subprocess", "ok": False, "kind": "raises",
                                             "error": f"rc={rc}", "tb": (err or out)[-900:]}]}
    return res


def report_scenario(ctx, res):
    for st in res["steps"]:
        ctx.count_case({"scenario": res["scenario"], "step": st["step"]}, True)
        if st["ok"]:
            continue
        dropped = st["error"].startswith("LookupError: observable-dropped")
        key = "observable-dropped-from-aggregate" if dropped else (
            "multi-trajectory-run-fails" if "trajector" in st["step"] else "pulser-api-mismatch")
        ctx.violation(f"fresh process, scenario {res['scenario']}, under pulser-core {res.get('pulser')}: "
                      f"{st['step']} -> {st['error']}",
                      {"case": {"scenario": res["scenario"], "step": st["step"]}, "error": st["error"],
                       "traceback": st.get("tb", ""), "finding_key": key})


def compat_stage(ctx):
    """(1) ast: compat helpers keep no module-level state; (2) functional: result depends only on the argument."""
    helpers = compat_helpers()
    ctx.extra["compat_helpers"] = [h[0] for h in helpers]
    stateful = [(h, why) for h, _, why in helpers if why]
    unknown = [h for h, _, _ in helpers if h not in COMPAT_DRIVERS]
    missing = [h for h in COMPAT_DRIVERS if h not in [x[0] for x in helpers]]
    ctx.obligation("compat-helpers:stateless (no global/nonlocal, module-level variable, cache decorator, mutable "
                   "default) in every version-compat helper found by ast",
                   not stateful and not unknown and not missing,
                   "; ".join(f"{h}: {', '.join(why)}" for h, why in stateful)
                   + ("; no functional driver for " + ", ".join(unknown) if unknown else "")
                   + ("; expected helper not found: " + ", ".join(missing) if missing else ""), kind="translator")
    rc, out, err = _subprocess(PURITY_SCRIPT)
    res = _marker(out, "@@PURITY")
    ok = res is not None and not res["bad"]
    ctx.obligation("correspondence:observable_aggregation_kwargs(m) == {default_aggregation_method: m} (or {} without "
                   "AggregationMethod) for every member, in every call order, from fresh module state", ok,
                   json.dumps(res["bad"]) if res else f"rc={rc} {(err or out)[-600:]}", kind="correspondence")
    if res:
        ctx.extra["compat_purity"] = {"members": res["members"], "orders": res["orders"]}
        for _ in range(res["orders"]):
            ctx.count_case({"purity_order": _}, True)
    if res and res["bad"]:
        b = res["bad"][0]
        ctx.violation(f"observable_aggregation_kwargs({b['call']!r}) returned {b['returned']} instead of {b['expected']} "
                      f"after the calls {b['order']} from fresh module state: the result depends on call history"
                      + (f" ({'; '.join(w for _, why in stateful for w in why)})" if stateful else ""),
                      {"case": {"purity_order": b["order"]}, "detail": b, "finding_key": "compat-helper-stateful"})


# ------------------------------------------------------------------------------------------
# version contract on the objects the backends construct internally (long sequences)
# ------------------------------------------------------------------------------------------
def eval_times(kind: str):
    import numpy as np
    name, n = kind.split(":")
    n = int(n)
    if name == "linspace":
        return [float(x) for x in np.linspace(0, 1, n)]
    if name == "ratio":       # i/(n-1) computed in python
        return [i / (n - 1) for i in range(n)]
    if name == "arange":      # accumulating step, clipped to 1
        return sorted({min(1.0, float(x)) for x in np.arange(0, 1 + 0.5 / (n - 1), 1 / (n - 1))})
    if name == "times":       # i*step with a decimal step
        return sorted({min(1.0, i * round(1 / (n - 1), 6)) for i in range(n)})
    raise ValueError(kind)


def long_sequence(T: int, n_atoms=2):
    from pulser import Sequence, Register, Pulse
    from pulser.devices import MockDevice

    reg = Register.from_coordinates([(8.0 * i, 0.0) for i in range(n_atoms)], prefix="q")
    seq = Sequence(reg, MockDevice)
    seq.declare_channel("ch", "rydberg_global")
    seq.add(Pulse.ConstantPulse(T, 1.0, 0.0, 0.0), "ch")
    return seq


def contract_case(case):
    """Build the target-time grid the adapter produces for the case and construct the internal
    observables of both backends on it exactly as the backends do; also call pulser's own validator."""
    import warnings
    from pulser.backend import Occupation
    from pulser.backend.observable import Observable
    from emu_base import PulserData
    import emu_mps
    import emu_sv
    from emu_mps.mps_backend_impl import Statistics as MpsStatistics
    from emu_sv.sv_backend_impl import Statistics as SvStatistics

    out = []
    with warnings.catch_warnings():
        warnings.simplefilter("ignore")
        seq = long_sequence(case["T"])
        ev = eval_times(case["evals"])
        for name, Cfg, Stat in (("emu_mps", emu_mps.MPSConfig, MpsStatistics), ("emu_sv", emu_sv.SVConfig, SvStatistics)):
            cfg = Cfg(observables=[Occupation(evaluation_times=ev)], dt=case["dt"], log_level=logging.CRITICAL)
            try:
                tt = PulserData(sequence=seq, config=cfg, dt=cfg.dt).target_times
            except Exception as ex:
                out.append((name, "PulserData", f"{type(ex).__name__}: {str(ex)[:200]}"))
                continue
            rel = [t / tt[-1] for t in tt]
            try:  # emu_*/..._backend_impl.py: Statistics(evaluation_times=[t / T ...], data=[], timestep_count=...)
                Stat(evaluation_times=rel, data=[], timestep_count=len(tt) - 1)
            except Exception as ex:
                gaps = sorted((b - a, a) for a, b in zip(tt, tt[1:]))[:2]
                out.append((name, "Statistics", f"{type(ex).__name__}: {str(ex)[:120]} ... closest target times "
                                                f"(gap ns, at ns): {gaps}"))
            validate = getattr(Observable, "_validate_eval_times", None)
            if validate is not None:
                try:
                    validate(rel)
                except Exception as ex:
                    out.append((name, "Observable._validate_eval_times", f"{type(ex).__name__}: {str(ex)[:120]}"))
    c33._restore_logging()
    return out


def contract_cases(ctx):
    cases = [c for c in corpus_cases() if "contract" in c.get("kind", "")]
    Ts = [3000, 4100, 6000, 10000, 16000, 20000, 50000] if ctx.thorough() else [3000, 10000, 20000, 50000]
    kinds = ["linspace:11", "linspace:101", "linspace:51", "ratio:101", "arange:101", "times:101", "linspace:1001"]
    for T in Ts:
        for dt in (10, 100):
            for k in (kinds if ctx.thorough() else kinds[:4]):
                cases.append({"kind": "contract", "T": T, "dt": dt, "evals": k})
    return cases


def contract_stage(ctx):
    hist = {"ok": 0, "rejected": 0}
    for case in contract_cases(ctx):
        bad = contract_case(case)
        ctx.count_case(case, True)
        hist["rejected" if bad else "ok"] += 1
        for pkg, what, why in bad:
            ctx.violation(f"under pulser-core {importlib.metadata.version(DIST)}: sequence of {case['T']} ns, dt={case['dt']}, "
                          f"evaluation_times={case['evals']}: the internal {what} of {pkg} on the adapter's target-time "
                          f"grid is rejected by pulser: {why}",
                          {"case": case, "package": pkg, "what": what, "error": why,
                           "finding_key": "internal-observable-rejected-by-pulser"})
    ctx.extra["internal_observable_contract"] = hist


def long_smoke_case(case):
    """Both backends end to end on a long sequence with every exported observable on linspace-type times."""
    import warnings
    from pulser.backend import Results
    from pulser.backend.observable import Observable
    import emu_mps
    import emu_sv

    out = []
    with warnings.catch_warnings():
        warnings.simplefilter("ignore")
        seq = long_sequence(case["T"])
        ev = eval_times(case["evals"])
        for pkg in (emu_mps, emu_sv):
            what = f"run {pkg.__name__} on {case['T']} ns, dt={case['dt']}, evaluation_times={case['evals']}"
            try:
                obs = []
                for n in sorted(getattr(pkg, "__all__", dir(pkg))):
                    cls = getattr(pkg, n, None)
                    if inspect.isclass(cls) and issubclass(cls, Observable) and cls is not Observable:
                        if n == "Expectation":
                            Op = pkg.MPO if pkg is emu_mps else pkg.DenseOperator
                            a = (Op.from_operator_repr(eigenstates=("r", "g"), n_qudits=2,
                                                       operations=[(1.0, [({"rr": 1.0}, [0])])]),)
                        elif n == "Fidelity":
                            St = pkg.MPS if pkg is emu_mps else pkg.StateVector
                            a = (St.from_state_amplitudes(eigenstates=("r", "g"), amplitudes={"rr": 1.0}),)
                        elif n == "EntanglementEntropy":
                            a = (0,)
                        else:
                            a = ()
                        obs.append(cls(*a, evaluation_times=ev))
                kw = dict(observables=obs, dt=case["dt"], log_level=logging.CRITICAL)
                if pkg is emu_mps:
                    r = pkg.MPSBackend(seq, config=pkg.MPSConfig(optimize_qubit_ordering=False, **kw)).run()
                else:
                    r = pkg.SVBackend(seq, config=pkg.SVConfig(**kw)).run()
                missing = [o.tag for o in obs if o.tag not in r.get_result_tags()]
                short = [o.tag for o in obs if o.tag not in missing and len(r.get_result_times(o)) != len(ev)]
                if not isinstance(r, Results) or missing or short:
                    out.append((what, f"missing tags {missing}; wrong number of recorded times for {short}"))
            except Exception as ex:
                out.append((what, f"{type(ex).__name__}: {str(ex)[:200]}"))
    c33._restore_logging()
    return out


def slm_smoke_case(case):
    """pulser >= 1.9 packs the trajectory interaction matrix as (1, N, N); the SLM masking must still index
    atoms: both backends run a 3-atom sequence with an SLM mask end to end."""
    import warnings
    from pulser import Sequence, Register, Pulse
    from pulser.devices import MockDevice
    from pulser.backend import Occupation, Results
    import emu_mps
    import emu_sv

    out = []
    with warnings.catch_warnings():
        warnings.simplefilter("ignore")
        reg = Register.from_coordinates([(0.0, 0.0), (7.0, 0.0), (14.0, 0.0)], prefix="q")
        seq = Sequence(reg, MockDevice)
        seq.declare_channel("ch", "rydberg_global")
        seq.config_slm_mask(case["mask"])
        seq.add(Pulse.ConstantPulse(100, 6.0, 0.0, 0.0), "ch")
        seq.add(Pulse.ConstantPulse(100, 3.0, 1.0, 0.0), "ch")
        for pkg in (emu_mps, emu_sv):
            what = f"run {pkg.__name__} with SLM mask {case['mask']}"
            try:
                kw = dict(observables=[Occupation(evaluation_times=[0.5, 1.0])], dt=10, log_level=logging.CRITICAL)
                if pkg is emu_mps:
                    r = pkg.MPSBackend(seq, config=pkg.MPSConfig(optimize_qubit_ordering=False, **kw)).run()
                else:
                    r = pkg.SVBackend(seq, config=pkg.SVConfig(**kw)).run()
                if not isinstance(r, Results) or len(r.occupation[-1]) != 3:
                    out.append((what, "no 3-atom occupation in the results"))
            except Exception as ex:
                out.append((what, f"{type(ex).__name__}: {str(ex)[:200]}"))
    c33._restore_logging()
    return out


def long_smoke_stage(ctx):
    for case in ({"kind": "slm-smoke", "mask": ["q2"]}, {"kind": "slm-smoke", "mask": ["q0", "q1"]}):
        ctx.count_case(case, True)
        for what, why in slm_smoke_case(case):
            ctx.violation(f"under pulser-core {importlib.metadata.version(DIST)}: {what} failed: {why}",
                          {"case": case, "error": why, "finding_key": "slm-mask-run-fails"})
    cases = [{"kind": "long-smoke", "T": 3000, "dt": 10, "evals": "linspace:101"},
             {"kind": "long-smoke", "T": 10000, "dt": 100, "evals": "linspace:101"}]
    if ctx.thorough():
        cases += [{"kind": "long-smoke", "T": 10000, "dt": 10, "evals": "linspace:101"},
                  {"kind": "long-smoke", "T": 50000, "dt": 100, "evals": "linspace:51"},
                  {"kind": "long-smoke", "T": 20000, "dt": 100, "evals": "linspace:11"}]
    for case in cases:
        ctx.count_case(case, True)
        for what, why in long_smoke_case(case):
            ctx.violation(f"under pulser-core {importlib.metadata.version(DIST)}: {what} failed: {why}",
                          {"case": case, "error": why, "finding_key": "long-sequence-run-fails"})


# ------------------------------------------------------------------------------------------
# shape/type contract of the values handed to pulser + multi-trajectory runs with dark atoms
# ------------------------------------------------------------------------------------------
def value_sig(v):
    """type / dtype / shape signature of a stored observable value."""
    import numpy as np
    import torch
    from collections import Counter

    if isinstance(v, torch.Tensor):
        return f"torch.Tensor[{v.dtype}]{tuple(v.shape)}"
    if isinstance(v, np.ndarray):
        return f"np.ndarray[{v.dtype}]{tuple(v.shape)}"
    if isinstance(v, Counter):
        return "Counter"
    if isinstance(v, dict):
        return "dict{" + ",".join(sorted(map(str, v))) + "}"
    if isinstance(v, (list, tuple)):
        return f"{type(v).__name__}[{len(v)}]"
    return type(v).__name__


class AggregateHook:
    """Record the per-trajectory Results handed to pulser's Results.aggregate (rebinding of the classmethod in
    the running interpreter, restored on exit)."""

    def __enter__(self):
        import pulser.backend.results as PR

        self.PR = PR
        self.orig = PR.Results.__dict__["aggregate"]
        self.batches = []
        orig_fn = self.orig.__func__
        hook = self

        def wrapped(cls, results_to_aggregate, **kw):
            hook.batches.append(list(results_to_aggregate))
            return orig_fn(cls, results_to_aggregate, **kw)

        PR.Results.aggregate = classmethod(wrapped)
        return self

    def __exit__(self, *a):
        self.PR.Results.aggregate = self.orig

    def shape_violations(self, base_of=None):
        """One signature per observable kind: all trajectories, all times, with or without tag_suffix
        (`base_of`: tag -> base tag of the requested observables; entropies of different cuts share a base)."""
        out = []
        base_of = base_of or {}
        for batch in self.batches:
            sigs = {}
            for k, res in enumerate(batch):
                for tag in res.get_result_tags():
                    for t in res.get_result_times(tag):
                        sigs.setdefault(base_of.get(tag, tag), {}).setdefault(
                            value_sig(res.get_result(tag, t)), (tag, k, t))
            for base, d in sigs.items():
                if len(d) > 1:
                    out.append(f"`{base}`: " + "; ".join(f"{sg} (`{tag}`, trajectory {k}, t={t})"
                                                         for sg, (tag, k, t) in d.items()))
        return out


F13_MARKERS = ("For 1 qubit states", "emu_mps is designed for more than 2 qubits")


def traj_case(case):
    """state_prep_error on interacting atoms, several trajectories: run, then check the per-trajectory values."""
    import math
    import warnings
    import numpy as np
    import pulser
    from pulser.backend.observable import Observable
    import emu_mps
    import emu_sv

    out, skipped = [], None
    n = case["n_atoms"]
    pkg = emu_mps if case["backend"] == "emu_mps" else emu_sv
    with warnings.catch_warnings():
        warnings.simplefilter("ignore")
        reg = pulser.Register.rectangle(1, n, spacing=7.0, prefix="q")
        seq = pulser.Sequence(reg, pulser.MockDevice)
        seq.declare_channel("ryd", "rydberg_global")
        seq.add(pulser.Pulse.ConstantPulse(200, 2 * math.pi, 1.0, 0.0), "ryd")
        ev = [0.0, 0.5, 1.0]
        obs = []
        for name in sorted(getattr(pkg, "__all__", dir(pkg))):
            cls = getattr(pkg, name, None)
            if not (inspect.isclass(cls) and issubclass(cls, Observable) and cls is not Observable):
                continue
            if name == "Expectation":
                Op = pkg.MPO if pkg is emu_mps else pkg.DenseOperator
                obs.append(cls(Op.from_operator_repr(eigenstates=("r", "g"), n_qudits=n,
                                                     operations=[(1.0, [({"rr": 1.0}, [0])])]), evaluation_times=ev))
            elif name == "Fidelity":
                St = pkg.MPS if pkg is emu_mps else pkg.StateVector
                obs.append(cls(St.from_state_amplitudes(eigenstates=("r", "g"), amplitudes={"g" * n: 1.0}),
                               evaluation_times=ev))
            elif name == "EntanglementEntropy":
                obs += [cls(b, evaluation_times=ev, tag_suffix=f"cut{b}") for b in sorted({0, n - 2})]
            elif name == "StateResult":
                obs.append(cls(evaluation_times=[1.0]))
            else:
                obs.append(cls(evaluation_times=ev))
                # a second instance of the same observable, distinguished by tag_suffix only
                obs.append(cls(evaluation_times=ev, tag_suffix="b"))
        kw = dict(observables=obs, log_level=logging.CRITICAL, n_trajectories=case["n_traj"],
                  noise_model=pulser.NoiseModel(state_prep_error=case["p"]))
        np.random.seed(case["np_seed"])
        with AggregateHook() as hook:
            try:
                if pkg is emu_mps:
                    r = pkg.MPSBackend(seq, config=pkg.MPSConfig(optimize_qubit_ordering=False, **kw)).run()
                else:
                    r = pkg.SVBackend(seq, config=pkg.SVConfig(**kw)).run()
                tags = set(r.get_result_tags())
                missing = [o.tag for o in obs if o.tag not in tags
                           and not o.default_aggregation_method.name.startswith("SKIP")]
                if missing:
                    out.append(("observable-dropped-from-aggregate", f"missing from the aggregated results: {missing}"))
            except Exception as ex:
                if any(m in str(ex) for m in F13_MARKERS):
                    skipped = "fewer than 2 well-prepared atoms in a trajectory (known finding F-13, not C31)"
                else:
                    out.append(("multi-trajectory-run-fails", f"{type(ex).__name__}: {str(ex)[:220]}"))
        for v in hook.shape_violations({o.tag: o._base_tag for o in obs}):
            out.append(("observable-value-shape-varies", v))
    c33._restore_logging()
    return out, skipped


def entropy_shape_contract():
    """EntanglementEntropy value at every cut of product and entangled MPS: one type/dtype/shape."""
    import warnings
    import math
    from emu_mps import MPS

    sigs = {}
    with warnings.catch_warnings():
        warnings.simplefilter("ignore")
        for n in (2, 3, 4):
            a = 1 / math.sqrt(2)
            states = {
                "product(make)": MPS.make(n),
                "product(amplitudes)": MPS.from_state_amplitudes(eigenstates=("r", "g"), amplitudes={"r" + "g" * (n - 1): 1.0}),
                "ghz": MPS.from_state_amplitudes(eigenstates=("r", "g"), amplitudes={"r" * n: a, "g" * n: a}),
                "half-product": MPS.from_state_amplitudes(eigenstates=("r", "g"),
                                                          amplitudes={"rr" + "g" * (n - 2): a, "gg" + "g" * (n - 2): a}),
            }
            for name, st in states.items():
                for b in range(n - 1):
                    v = st.entanglement_entropy(b)
                    sigs.setdefault(value_sig(v), f"{name}, {n} atoms, cut {b} (bond dimension "
                                                  f"{st.factors[b].shape[2]})")
    return sigs


def traj_stage(ctx):
    sigs = entropy_shape_contract()
    ctx.count_case({"kind": "entropy-shape-contract"}, True)
    if len(sigs) > 1:
        ctx.violation("MPS.entanglement_entropy returns values of different type/shape: "
                      + "; ".join(f"{k} for {v}" for k, v in sigs.items())
                      + " (pulser's MEAN aggregation stacks the values of all trajectories)",
                      {"case": {"kind": "entropy-shape-contract"}, "signatures": sigs,
                       "finding_key": "observable-value-shape-varies"})
    seeds = [3, 11] + [ctx.rng.randrange(1000) for _ in range(ctx.n(1, 6))]
    cases = [c for c in corpus_cases() if c.get("kind") == "traj-smoke"]
    for sd in seeds:
        for be, n in (("emu_mps", 4), ("emu_sv", 4), ("emu_mps", 3)):
            if be == "emu_mps" and n == 3 and not ctx.thorough() and sd not in (3, 11):
                continue
            cases.append({"kind": "traj-smoke", "backend": be, "n_atoms": n, "n_traj": 8, "p": 0.15, "np_seed": sd})
    skipped = 0
    for case in cases:
        bad, skip = traj_case(case)
        ctx.count_case(case, True)
        skipped += bool(skip)
        for key, why in bad:
            ctx.violation(f"under pulser-core {importlib.metadata.version(DIST)}: {case['backend']}, {case['n_atoms']} atoms, "
                          f"state_prep_error={case['p']}, {case['n_traj']} trajectories, numpy seed {case['np_seed']}: {why}",
                          {"case": case, "error": why, "finding_key": key})
    ctx.extra["trajectory_runs"] = {"cases": len(cases), "skipped_F13_fewer_than_2_good_atoms": skipped}


def corpus_cases():
    p = common.VERIF / "corpus" / "C31.json"
    return json.loads(p.read_text()) if p.exists() else []


def _callee_obj(spec: str):
    modname, qual = spec.split(":")
    obj = importlib.import_module(modname)
    for part in qual.split("."):
        obj = getattr(obj, part)
    return obj


def run(ctx):
    import warnings
    from vlib.coqparse import parse

    warnings.simplefilter("ignore")
    gen_ok, calls = True, []
    try:
        for path, text in gen():
            common.write_if_changed(path, text)
        calls, abstract = extract_calls()
        ctx.obligation("extract:/repo call sites + installed pulser signatures -> Gen/Api.v", True, kind="translator")
        ctx.extra["api_facts"] = {"calls_into_pulser": len(calls),
                                  "callees": sorted({c["callee"] for c in calls}),
                                  "installed": importlib.metadata.version(DIST),
                                  "declared": [f"{f}: {t}" for f, t, _ in declared_specs()],
                                  "other_offline_releases": sorted(
                                      p.name for p in __import__("pathlib").Path("/opt/veriftools/wheels").glob("pulser*"))
                                  if __import__("os").path.isdir("/opt/veriftools/wheels") else []}
    except (Unsupported, SyntaxError, OSError, ImportError) as ex:
        ctx.obligation("extract:/repo call sites + installed pulser signatures -> Gen/Api.v", False, str(ex),
                       kind="translator")
        gen_ok = False
    model_ok = False
    if gen_ok:
        rc, out = common.coq_make(["Gen/Api.vo"])
        model_ok = rc == 0
        if not model_ok:
            ctx.obligation("build:Gen/Api.vo", False, out, kind="build")
        if common.standard_proof_stage(ctx, "C31", ["Properties/C31.vo"]):
            req = HEADER + "\nFrom EV Require Import Properties.C31."
            c33.closed_theorem(ctx, "C31_closed_calls", req, "C31_all_calls_bind_partial",
                               "forall s c, In (s, c) api_calls -> binds s c = BindOk",
                               "C31_all_calls_ok_sound api_calls (eq_refl : all_calls_ok api_calls = true)")
            c33.closed_theorem(ctx, "C31_closed_spec", req, "C31_spec_admits_installed_partial",
                               "forallb (fun sp => admits (snd sp) installed_version) declared_specs = true",
                               "eq_refl")
            c33.closed_theorem(ctx, "C31_closed_abstract", req, "C31_no_abstract_method_left_partial",
                               "unimplemented_abstract = []", "eq_refl")

    # ---- falsifier / smoke run on the real code under the installed release
    for what, ok, why in smoke(ctx):
        ctx.count_case({"smoke": what}, True)
        if not ok:
            ctx.violation(f"under pulser-core {importlib.metadata.version(DIST)} (admitted by the declared "
                          f"specifier): {what} failed: {why}",
                          {"case": {"smoke": what}, "error": why, "finding_key": "pulser-api-mismatch"})
    # internal observables of the backends obey the installed pulser's validators; long sequences run
    contract_stage(ctx)
    long_smoke_stage(ctx)
    traj_stage(ctx)
    # compat shims must be pure; order- and trajectory-aware smoke runs in fresh processes
    compat_stage(ctx)
    from concurrent.futures import ThreadPoolExecutor
    with ThreadPoolExecutor(max_workers=2) as ex:
        for res in ex.map(run_scenario, SCENARIOS):
            report_scenario(ctx, res)
    # every extracted call really binds under CPython (independent of the Coq model)
    for c in calls:
        if real_bind_ok(c["sig"], c["npos"], c["kws"]) is False:
            ctx.violation(f"call {c['where']} with {c['npos']} positional and keywords {c['kws']} raises TypeError "
                          f"against the installed signature",
                          {"case": {"call": c["where"], "npos": c["npos"], "kws": c["kws"]},
                           "finding_key": "pulser-api-mismatch"})

    # ---- correspondence: binding model == CPython binding
    corr_ok, detail = model_ok, "" if model_ok else "model did not build"
    reg_ok, rdetail = model_ok, "" if model_ok else "model did not build"
    if model_ok:
        try:
            shapes = []
            sigs = [c["sig"] for c in calls]
            for _ in range(ctx.n(1500, 20000)):
                s = ctx.rng.choice(sigs) if (sigs and ctx.rng.random() < 0.5) else random_sig(ctx.rng)
                npos, kws = random_call(ctx.rng, s)
                want = real_bind_ok(s, npos, kws)
                if want is None:
                    continue
                shapes.append((s, npos, kws, want))
            for c in calls:
                shapes.append((c["sig"], c["npos"], c["kws"], real_bind_ok(c["sig"], c["npos"], c["kws"])))
            corp = [c for c in corpus_cases() if "callee" in c]
            for cc in corp:  # regression witnesses (e.g. the pre-fix F-01 call shape)
                obj = _callee_obj(cc["callee"])
                s = sig_of(obj, drop_first=cc.get("drop_first", False))
                shapes.append((s, cc["npos"], cc["kws"], real_bind_ok(s, cc["npos"], cc["kws"])))
            ev = common.CoqEval("C31", HEADER)
            B = 20
            for i in range(0, len(shapes), B):
                ev.add("[" + "; ".join(
                    f"(match binds {sig_coq(s)} (MkCall \"\" {n} {_strlist(k)}) with BindOk => true | _ => false end, "
                    f"call_ok {sig_coq(s)} (MkCall \"\" {n} {_strlist(k)}))" for s, n, k, _ in shapes[i:i + B]) + "]")
            vals = [v for o in ev.run() for v in parse(o)]
            hist = {"binds_ok": 0, "type_error": 0}
            for (s, n, k, want), (mb, mc) in zip(shapes, vals):
                hist["binds_ok" if want else "type_error"] += 1
                ctx.count_case({"sig": s, "npos": n, "kws": k}, True)
                if (mb != want or mc != want) and corr_ok:
                    corr_ok, detail = False, f"sig={s} npos={n} kws={k} python={want} binds={mb} call_ok={mc}"
            ctx.extra["input_distribution"] = hist
            for cc, (s, n, k, want), (mb, mc) in zip(corp, shapes[-len(corp):] if corp else [], vals[-len(corp):] if corp else []):
                if want != cc["expect_ok"] or mc != cc["expect_ok"]:
                    reg_ok, rdetail = False, f"corpus {cc}: python={want} call_ok={mc}"
        except (common.CoqEvalError, ValueError, KeyError, TypeError) as ex:
            corr_ok = reg_ok = False
            detail = rdetail = str(ex)
    ctx.obligation("correspondence:Model.PyBind.binds/call_ok==inspect.Signature.bind (TypeError or not) on generated "
                   "call shapes and on every extracted call", corr_ok, detail, kind="correspondence")
    ctx.obligation("regression:corpus call shapes (pre-fix F-01: Observable.__init__ without "
                   "default_aggregation_method) are rejected by call_ok and by CPython", reg_ok, rdetail,
                   kind="correspondence")
    ctx.rule = ("random signatures (<= 3 positional, <= 3 keyword-only, *args/**kwargs) and the extracted pulser "
                "signatures x random call shapes (valid-biased and arbitrary keyword subsets incl. unknown names); "
                "plus smoke run: both backends end to end and every exported observable constructed; compat helper called in "
                "every order from fresh module state; fresh-process scenarios construct-then-run / run-then-construct "
                "with n_trajectories=3 under amp_sigma and state_prep_error noise")
    ctx.trusted_base += ["extractors in tools/props/c31.py: only calls whose callee resolves statically (module-level "
                         "names, super().__init__) are seen; method calls on pulser objects are not",
                         "inspect.signature of the installed pulser-core"]
    ctx.assumptions += ["PARTIAL: only pulser-core 1.9.1 is available offline (no other pulser wheel in "
                        "/opt/veriftools/wheels); other admitted releases (>= 1.8.0, no upper bound) are not examined",
                        "runtime behaviour (tensor shapes, semantics) of the third-party release is covered only by "
                        "the smoke run, not by any theorem",
                        "pre/post/dev releases and ~=, ===, wildcard clauses are outside the version model (fail closed)"]


def replay(ctx, path):
    rp = json.loads(open(path).read())
    print("replay:", rp.get("case"))
    case = rp.get("case") or {}
    if case.get("kind", "").startswith("contract") or case.get("kind") == "corpus-contract":
        for pkg, what, why in contract_case(case):
            print(f"FAIL {pkg} {what}: {why}")
            ctx.violation(f"internal {what} of {pkg} rejected by pulser: {why}",
                          {"case": case, "error": why, "finding_key": "internal-observable-rejected-by-pulser"})
        return
    if case.get("kind") == "traj-smoke":
        bad, skip = traj_case(case)
        print("skipped:" if skip else "ran:", skip or "", bad)
        for key, why in bad:
            ctx.violation(why, {"case": case, "error": why, "finding_key": key})
        return
    if case.get("kind") == "entropy-shape-contract":
        sigs = entropy_shape_contract()
        print(sigs)
        if len(sigs) > 1:
            ctx.violation("MPS.entanglement_entropy returns values of different type/shape: " + str(sigs),
                          {"case": case, "signatures": sigs, "finding_key": "observable-value-shape-varies"})
        return
    if case.get("kind") == "slm-smoke":
        for what, why in slm_smoke_case(case):
            print(f"FAIL {what}: {why}")
            ctx.violation(f"{what} failed: {why}", {"case": case, "error": why, "finding_key": "slm-mask-run-fails"})
        return
    if case.get("kind") == "long-smoke":
        for what, why in long_smoke_case(case):
            print(f"FAIL {what}: {why}")
            ctx.violation(f"{what} failed: {why}", {"case": case, "error": why,
                                                     "finding_key": "long-sequence-run-fails"})
        return
    if "scenario" in case:
        res = run_scenario(case["scenario"])
        for st in res["steps"]:
            print(("ok   " if st["ok"] else "FAIL ") + st["step"] + ("" if st["ok"] else ": " + st["error"]))
        report_scenario(ctx, res)
        return
    if "purity_order" in case:
        compat_stage(ctx)
        return
    for what, ok, why in smoke(ctx):
        print(("ok   " if ok else "FAIL ") + what + (": " + why if why else ""))
        if not ok:
            ctx.violation(f"{what} failed: {why}", {"case": {"smoke": what}, "error": why,
                                                     "finding_key": "pulser-api-mismatch"})


META = {
    "category": "proof",
    "technique": ("Coq: model of Python argument binding + soundness proof of the declarative call check; call sites "
                  "(ast over /repo) and signatures (inspect over installed pulser-core) regenerated into Gen/Api.v; "
                  "PEP 440 release comparison; smoke run as correspondence"),
    "text": ("PARTIAL. Proved: call_ok sig call = true -> binds sig call = BindOk for all signatures and calls "
             "(induction over the keyword list); a call omitting a required keyword-only parameter never binds "
             "(F-01 shape); every call the emulators make into statically resolvable pulser callables binds against "
             "the installed release (closed check by the Coq VM each run); no abstract method is left unimplemented; "
             "the declared specifiers admit the installed version; a single `>=` clause has no upper bound. "
             "Validated only: binding model == inspect.Signature.bind on generated shapes; both backends run end to "
             "end and every exported observable is constructible under pulser-core 1.9.1, the only release offline."),
    "note": ("Partly outside logic: runtime behaviour of a third-party release cannot be derived from signatures; "
             "other admitted releases are not available offline. Trusted: Coq kernel+VM, the extractors, inspect."),
}
